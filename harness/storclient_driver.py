"""Drive a real StorageFarmBroker through seeded event sequences and record,
after every event, what the broker and every NativeStorageServer it created
answer -- for spec/net/TraceStorageClientState.tla (extra storage_client_state).

The real code runs unmodified.  Stubbed is only the foolscap boundary, as in
serverorder_driver.py, but with the behaviour of foolscap that the code relies
on (cited from foolscap's docstrings):
  * tub_maker / allmydata.node.create_tub -> StubTub.  Tub.connectTo(furl, cb)
    returns a Reconnector; "I promise to not invoke your callback after you've
    called stopConnecting()".  Tub.stopService stops its reconnectors and shuts
    its connections down *without* firing notifyOnDisconnect handlers ("if the
    Tub is shutdown (via stopService), all notifyOnDisconnect handlers are
    cancelled").
  * a connection = the driver calling the callback given to connectTo with a
    StubRref (exactly what Reconnector does), whose callRemote("get_version")
    answers a version dictionary, a Violation (server without get_version ->
    VERSION_DEFAULTS) or DeadReferenceError (connection died meanwhile);
    a loss = the handlers registered with rref.notifyOnDisconnect are run.
  * the introducer client: an object with subscribe_to(); announcements are
    delivered to the subscribed callback through eventually(), as
    IntroducerClient does.
  * time.time of allmydata.storage_client is the scenario clock (integers).

Two construction paths: "direct" (StorageFarmBroker(...), set_static_servers)
and "prod" (client.create_storage_farm_broker from tahoe.cfg text with
node.create_tub rebound, private/servers.yaml read by the real
_Client.load_static_servers).

Observation uses the public surface: IStorageBroker methods, get_stub_server,
when_connected_enough, and per server object is_connected / last_connect_time /
last_loss_time / get_version / get_available_space / get_storage_server /
get_rref / get_announcement / get_nickname / get_serverid / on_status_changed.
"""
from vreactor import vr, settle  # noqa: F401
import argparse, json, os, random, types

from twisted.application import service
from twisted.internet import defer
from twisted.python.failure import Failure
from twisted.python import log as tw_log
from foolscap.api import eventually, Violation, DeadReferenceError
from foolscap.reconnector import ReconnectionInfo

import yaml
import allmydata.storage_client as sc_mod
from allmydata.storage_client import StorageFarmBroker, StorageClientConfig, StubServer
from allmydata.node import config_from_string
from allmydata import client as client_mod
from allmydata import node as node_mod
from allmydata.util import base32

V1 = b"http://allmydata.org/tahoe/protocols/storage/v1"
CAP = 2 ** 31 - 1      # TLC integers are 32 bit: larger amounts are reported as CAP ("at least 2^31-1")
# "default": VERSION_DEFAULTS has available-space None, so the answer is its maximum-immutable-share-size (2^32-1)
AVAIL = {"v1": 1000, "v2": 2000, "default": CAP, "none": 0}


def version_dict(kind):
    return {V1: {b"maximum-immutable-share-size": 2 ** 40, b"maximum-mutable-share-size": 2 ** 40,
                 b"available-space": AVAIL[kind], b"tolerates-immutable-read-overrun": True,
                 b"delete-mutable-shares-with-zero-length-writev": True},
            b"application-version": b"stub/" + kind.encode("ascii")}


ERRORS = []
tw_log.addObserver(lambda ev: ERRORS.append(ev) if ev.get("isError") else None)


def norm(x):
    """a text answer as JSON-able text (an answer of another type is kept visible, not hidden)"""
    return x if isinstance(x, str) else "?%s:%r" % (type(x).__name__, x)


class Clock:
    """stands in for the `time` module inside allmydata.storage_client"""
    def __init__(self):
        self.now = 1

    def time(self):
        return self.now


class StubReconnector:
    def __init__(self, tub, furl, cb):
        self.tub, self.furl, self.cb = tub, furl, cb
        self.active = True
        self.resets = 0

    def stopConnecting(self):
        self.active = False

    def reset(self):
        self.resets += 1

    def getReconnectionInfo(self):
        return ReconnectionInfo()


class StubTub(service.MultiService):
    def __init__(self, world):
        service.MultiService.__init__(self)
        self.world = world
        self.requests = []
        self.rrefs = []
        self.stopped = False
        world.tubs.append(self)

    def connectTo(self, furl, cb, *a, **kw):
        if self.stopped:
            raise RuntimeError("Tub has been shut down")
        rc = StubReconnector(self, furl, cb)
        self.requests.append(rc)
        return rc

    def stopService(self):
        self.stopped = True
        for rc in self.requests:
            rc.active = False
        for r in self.rrefs:
            r.watchers = []          # fireDisconnectWatchers=False
            r.alive = False
        return service.MultiService.stopService(self)


class StubRref:
    def __init__(self, tub, behaviour):
        self.tub = tub
        self.behaviour = behaviour
        self.watchers = []
        self.alive = True
        tub.rrefs.append(self)

    def callRemote(self, name, *a, **kw):
        d = defer.Deferred()
        if name != "get_version":
            eventually(d.errback, Failure(Violation("stub only answers get_version")))
        elif self.behaviour == "dead" or not self.alive:
            self.alive = False
            eventually(d.errback, Failure(DeadReferenceError("connection lost before the answer")))
        elif self.behaviour == "default":
            eventually(d.errback, Failure(Violation("no such method get_version")))
        else:
            eventually(d.callback, version_dict(self.behaviour))
        return d

    def notifyOnDisconnect(self, cb, *a, **kw):
        m = (cb, a, kw)
        if not self.alive:
            eventually(cb, *a, **kw)
        else:
            self.watchers.append(m)
        return m

    def dontNotifyOnDisconnect(self, m):
        if m in self.watchers:
            self.watchers.remove(m)

    def getDataLastReceivedAt(self):
        return None

    def lose(self):
        self.alive = False
        ws, self.watchers = self.watchers, []
        for cb, a, kw in ws:
            eventually(cb, *a, **kw)


class StubIntroducerClient:
    def __init__(self):
        self.subs = []

    def subscribe_to(self, service_name, cb, *a, **kw):
        self.subs.append((service_name, cb, a, kw))

    def deliver(self, key_s, ann):
        for sn, cb, a, kw in self.subs:
            if sn == "storage":
                eventually(cb, key_s, ann, *a, **kw)


def rand_b32(rng, n):
    return base32.b2a(bytes(rng.getrandbits(8) for _ in range(n)))


class World:
    def __init__(self, rng, mode, basedir, legacy):
        self.rng, self.mode, self.basedir, self.legacy = rng, mode, basedir, legacy
        self.tubs = []
        self.clock = Clock()
        n = rng.randint(2, 4)
        self.sids = ["s%d" % (i + 1) for i in range(n)]
        self.lids = ["l%d" % (i + 1) for i in range(rng.randint(1, 3))]
        nstatic = rng.choice([0, 0, 1, 1, 2])
        self.static = rng.sample(self.sids, min(nstatic, n - 1))
        self.real_id = {}
        self.tub_bytes = {}
        self.ann = {}       # sid -> kind -> real announcement dict
        self.annc = {}      # sid -> kind -> Spec constants
        for s in self.sids:
            if s in self.static and rng.random() < 0.4:
                self.real_id[s] = ("my-static-%s" % s).encode("ascii")      # "The server-id can be any string"
            else:
                self.real_id[s] = b"v0-" + rand_b32(rng, 32)
            t1 = "t-" + s
            self.tub_bytes[t1] = bytes(rng.getrandbits(8) for _ in range(20))
            t2 = t1
            if rng.random() < 0.35:
                t2 = t1 + "-b"
                self.tub_bytes[t2] = bytes(rng.getrandbits(8) for _ in range(20))
            self.ann[s], self.annc[s] = {}, {}
            for kind, t in (("a1", t1), ("a2", t2)):
                furl = "pb://%s@tcp:10.0.0.%d:%d/swiss-%s-%s" % (base32.b2a(self.tub_bytes[t]).decode("ascii"),
                                                                int(s[1:]), 4000 + int(s[1:]), s, kind)
                a = {"anonymous-storage-FURL": furl, "service-name": "storage", "my-version": "tahoe/" + kind}
                nick = "nick-%s-%s" % (s, kind)
                if kind == "a2" and rng.random() < 0.25:
                    nick = ""                       # announcement without a nickname
                else:
                    a["nickname"] = nick
                if rng.random() < 0.4:
                    a["permutation-seed-base32"] = rand_b32(rng, 20).decode("ascii")
                self.ann[s][kind] = a
                self.annc[s][kind] = {"ann": kind, "sup": True, "tub": t, "nick": nick}
            # an announcement that offers nothing this client can use (no anonymous FURL, unknown plugin)
            self.ann[s]["u1"] = {"service-name": "storage", "nickname": "nick-%s-u1" % s,
                                 "storage-options": [{"name": "no-such-plugin-%s" % s,
                                                      "storage-server-FURL": "pb://%s@tcp:10.9.9.9:1/x" % base32.b2a(self.tub_bytes[t1]).decode("ascii")}]}
            self.annc[s]["u1"] = {"ann": "u1", "sup": False, "tub": t1, "nick": "nick-%s-u1" % s}
        self.unknown_id = b"v0-" + rand_b32(rng, 32)
        self.abs_sid = {v: k for k, v in self.real_id.items()}
        self.objs = []          # real server objects, index = object number - 1
        self.nots = []
        self.owner_tubs = {}    # object number -> [StubTub]
        self.links = {}         # object number -> StubRref of the current connection
        self.fired = {lid: 0 for lid in self.lids}
        self.events = []
        self.ics = [StubIntroducerClient() for _ in range(rng.choice([1, 1, 2]))]
        self.broker = None

    # ---- construction --------------------------------------------------------
    def tub_maker(self, *a, **kw):
        return StubTub(self)

    def build(self):
        text = "[node]\nnickname = x\n[client]\n"
        os.makedirs(os.path.join(self.basedir, "private"), exist_ok=True)
        config = config_from_string(self.basedir, "client.port", text, _valid_config=client_mod._valid_config())
        self.config = config
        if self.mode == "prod":
            saved = node_mod.create_tub
            node_mod.create_tub = lambda *a, **kw: StubTub(self)
            self._restore = lambda: setattr(node_mod, "create_tub", saved)
            self.broker = client_mod.create_storage_farm_broker(config, {"tcp": "tcp"}, {}, {}, self.ics, None)
        else:
            self._restore = lambda: None
            self.broker = StorageFarmBroker(True, self.tub_maker, config, StorageClientConfig())
            for ic in self.ics:
                self.broker.use_introducer(ic)

    # ---- books ---------------------------------------------------------------
    def num(self, srv):
        for i, o in enumerate(self.objs):
            if o is srv:
                return i + 1
        return 0

    def tubs_of(self, n):
        """the tubs made for object n: the ones parented to it (Tub.setServiceParent(server)); should a version of
        the code parent its tubs elsewhere, the ones asked to connect to the FURL of its announcement"""
        srv = self.objs[n - 1]
        mine = self.owner_tubs[n]
        claimed = {id(t) for ts in self.owner_tubs.values() for t in ts}
        for t in self.tubs:
            if t.parent is srv and id(t) not in claimed:
                mine.append(t)
                claimed.add(id(t))
        if not mine:
            try:
                furl = srv.get_announcement().get("anonymous-storage-FURL", "").encode("utf-8")
            except Exception:
                furl = b""
            for t in self.tubs:
                if furl and id(t) not in claimed and any(rc.furl == furl for rc in t.requests):
                    mine.append(t)
                    break
        return mine

    def request_of(self, n):
        reqs = [rc for t in self.tubs_of(n) for rc in t.requests]
        return reqs[-1] if reqs else None

    def discover(self, order):
        """number the server objects the broker now knows and the driver has not seen, in `order` of abstract ids"""
        new = [s for s in self.broker.get_known_servers() if self.num(s) == 0]
        rank = {sid: i for i, sid in enumerate(order)}
        new.sort(key=lambda s: (rank.get(self.abs_sid.get(s.get_serverid(), "?"), 99), s.get_serverid()))
        for s in new:
            self.objs.append(s)
            n = len(self.objs)
            self.nots.append(0)
            self.owner_tubs[n] = []
            s.on_status_changed(lambda _srv, n=n: self._notified(n))

    def _notified(self, n):
        self.nots[n - 1] += 1

    def can_connect(self, n):
        rc = self.request_of(n)
        lk = self.links.get(n)
        return rc is not None and rc.active and not rc.tub.stopped and (lk is None or not lk.alive)

    def can_lose(self, n):
        lk = self.links.get(n)
        return lk is not None and lk.alive and bool(lk.watchers)

    # ---- observation -----------------------------------------------------------
    def classify_ann(self, srv):
        a = srv.get_announcement()
        sid = self.abs_sid.get(srv.get_serverid())
        for kind, d in self.ann.get(sid, {}).items():
            if a == d:
                return kind
        return "?"

    def classify_version(self, v):
        if v is None:
            return "none"
        for kind in ("v1", "v2"):
            if v == version_dict(kind):
                return kind
        for key in ("application-version", b"application-version"):
            try:
                av = v.get(key, "")
            except Exception:
                continue
            if (av.decode("ascii", "replace") if isinstance(av, bytes) else str(av)).startswith("unknown"):
                return "default"
        return "?"

    def observe(self, order=()):
        b = self.broker
        self.discover(order)
        known = b.get_known_servers()
        obs = {}
        obs["ids"] = sorted(self.abs_sid.get(i, "?" + repr(i)) for i in b.get_all_serverids())
        obs["nobjs"] = len(self.objs)
        obs["known"] = sorted(self.num(s) for s in known)
        obs["connected"] = sorted(self.num(s) for s in b.get_connected_servers())
        # what peer selection is offered for a random storage index (the order is C32's subject, ServerOrder.tla)
        psi = bytes(self.rng.getrandbits(8) for _ in range(16))
        obs["psi"] = [self.num(s) for s in b.get_servers_for_psi(psi)]
        cur = {}
        for s in self.sids:
            hit = [self.num(x) for x in known if x.get_serverid() == self.real_id[s]]
            cur[s] = hit[0] if len(hit) == 1 else (0 if not hit else 999)
        obs["cur"] = cur
        nick, stub_sid = {}, {}
        for s, rid in list(self.real_id.items()) + [("unknown", self.unknown_id)]:
            r = b.get_nickname_for_serverid(rid)
            nick[s] = {"known": r is not None, "nick": norm(r) if r is not None else ""}
            stub_sid[s] = self.num(b.get_stub_server(rid))
        obs["nick"], obs["stub_sid"] = nick, stub_sid
        obs["stub_tub"] = {t: self.num(b.get_stub_server(tb)) for t, tb in self.tub_bytes.items()}
        x = b.get_stub_server(self.unknown_id)
        obs["stub_unknown_ok"] = bool(isinstance(x, StubServer) or self.num(x) == 0) and x.get_nickname() == "?" \
            and x.get_serverid() == self.unknown_id and x.get_longname() == base32.b2a(self.unknown_id) \
            and x.get_name() == base32.b2a(self.unknown_id)[:8]
        objs = []
        for n, srv in enumerate(self.objs, 1):
            tubs = self.tubs_of(n)
            rc = self.request_of(n)
            o = {"sid": self.abs_sid.get(srv.get_serverid(), "?"), "ann": self.classify_ann(srv), "nick": norm(srv.get_nickname()),
                 "conn": bool(srv.is_connected()), "lc": srv.last_connect_time or 0, "ll": srv.last_loss_time or 0,
                 "ver": self.classify_version(srv.get_version()),
                 "storage": srv.get_storage_server() is not None, "rref": srv.get_rref() is not None,
                 "starts": sum(len(t.requests) for t in tubs), "nots": self.nots[n - 1],
                 "inbroker": srv.parent is b,
                 # no more connection attempts: its reconnector was stopped, or its tub was shut down
                 "quiet": bool(tubs) and all(t.stopped for t in tubs) or (rc is not None and not rc.active)}
            try:
                sp = srv.get_available_space()
                o["avail"], o["avail_err"] = (min(sp, CAP) if sp is not None else 0), False
            except Exception as e:
                o["avail"], o["avail_err"], o["avail_exc"] = 0, True, type(e).__name__
            objs.append(o)
        obs["objs"] = objs
        obs["fired"] = dict(self.fired)
        return obs

    def record(self, ev, order=()):
        settle()
        ev.setdefault("raised", "")
        ev["obs"] = self.observe(order)
        # failures logged while the event was processed (exceptions in eventual-send turns, unhandled Deferred failures)
        ev["obs"]["errors"] = len(ERRORS)
        ev["obs"]["error_text"] = "; ".join(sorted({str(x.get("failure").value)[:120] if x.get("failure") else str(x.get("message"))[:120] for x in ERRORS}))[:400]
        del ERRORS[:]
        self.events.append(ev)

    def call(self, ev, f, *a, **kw):
        """run an entry point of the real code; an exception it raises is part of the observation"""
        try:
            f(*a, **kw)
        except Exception as e:
            ev["raised"] = type(e).__name__

    # ---- events ----------------------------------------------------------------
    def do_static(self):
        entries, servers = [], {}
        order = sorted(self.static, key=lambda s: self.real_id[s])      # the code processes sorted(items())
        for s in order:
            kind = self.rng.choice(["a1", "a1", "a2", "u1"])
            ok = self.rng.random() >= 0.2
            rid = self.real_id[s].decode("ascii")
            if ok:
                servers[rid] = {"ann": dict(self.ann[s][kind])}
                if self.rng.random() < 0.5:
                    servers[rid]["connections"] = {"tcp": "tcp"}
            else:
                servers[rid] = {"connections": {"tcp": "tcp"}}            # malformed: no "ann"
            entries.append({"sid": s, "kind": kind, "ok": ok})
        ev = {"ev": "Static", "entries": entries}
        if self.mode == "prod":
            with open(os.path.join(self.basedir, "private", "servers.yaml"), "w") as f:
                yaml.safe_dump({"storage": servers}, f)
            fake = types.SimpleNamespace(config=self.config, storage_broker=self.broker)
            self.call(ev, client_mod._Client.load_static_servers, fake)
        else:
            self.call(ev, self.broker.set_static_servers, servers)
        self.record(ev, order)

    def do_announce(self, s, kind):
        ann = json.loads(json.dumps(self.ann[s][kind]))        # a fresh, equal dictionary every time
        self.rng.choice(self.ics).deliver(self.real_id[s], ann)
        self.record({"ev": "Announce", "sid": s, "kind": kind}, [s])

    def do_connect(self, n, ver):
        rc = self.request_of(n)
        before = {m: (self.request_of(m).resets if self.request_of(m) else 0) for m in range(1, len(self.objs) + 1)}
        r = StubRref(rc.tub, ver)
        if ver != "dead":
            self.links[n] = r
        ev = {"ev": "ConnectDead", "obj": n} if ver == "dead" else {"ev": "Connect", "obj": n, "ver": ver}
        self.call(ev, rc.cb, r)
        settle()
        if ver != "dead":
            ev["resets"] = [m for m in before if self.request_of(m) is not None and self.request_of(m).resets > before[m]]
        self.record(ev)

    def do_lose(self, n):
        self.links[n].lose()
        self.record({"ev": "Lose", "obj": n})

    def do_listen(self, lid, th):
        ev = {"ev": "Listen", "lid": lid, "th": th}

        def reg():
            d = self.broker.when_connected_enough(th)
            d.addCallback(lambda _: self.fired.__setitem__(lid, self.fired[lid] + 1))
        self.call(ev, reg)
        self.record(ev)

    def do_tick(self, dt):
        self.clock.now += dt
        vr.advance(dt)
        self.record({"ev": "Tick", "dt": dt})

    def do_stop(self):
        ev = {"ev": "Stop"}
        self.call(ev, self.broker.stopService)
        self.record(ev)

    # ---- scenario ----------------------------------------------------------------
    def run(self, nevents):
        rng = self.rng
        saved_time = sc_mod.time
        sc_mod.time = self.clock
        try:
            self.build()
            start_first = rng.random() < 0.5
            if start_first:
                self.broker.startService()
            if self.static:
                self.do_static()
            if not start_first:
                self.broker.startService()
            free_lids = list(self.lids)
            announced = {}
            for _ in range(nevents):
                r = rng.random()
                objs = range(1, len(self.objs) + 1)
                cc = [n for n in objs if self.can_connect(n)]
                cl = [n for n in objs if self.can_lose(n)]
                if r < 0.30 or not self.objs:
                    # the introducer only ever delivers v0- keys (precondition of _got_announcement)
                    s = rng.choice([x for x in self.sids if self.real_id[x].startswith(b"v0-")])
                    last = announced.get(s)
                    if last is not None and rng.random() < 0.4:
                        kind = last                                         # identical re-announcement
                    else:
                        kind = rng.choice(["a1", "a1", "a2", "a2", "u1"])
                    announced[s] = kind
                    self.do_announce(s, kind)
                elif r < 0.60 and cc:
                    n = rng.choice(cc)
                    q = rng.random()
                    if q < 0.1:
                        ver = "dead"
                    elif self.legacy and q < 0.4:
                        ver = "default"
                    else:
                        ver = rng.choice(["v1", "v2"])
                    self.do_connect(n, ver)
                elif r < 0.75 and cl:
                    self.do_lose(rng.choice(cl))
                elif r < 0.85 and free_lids:
                    self.do_listen(free_lids.pop(0), rng.randint(1, max(1, min(3, len(self.sids)))))
                else:
                    self.do_tick(rng.choice([1, 1, 2, 5]))
            if rng.random() < 0.3:
                self.do_stop()
        finally:
            sc_mod.time = saved_time
            self._restore()

    def trace(self):
        return {"consts": {"sids": self.sids, "lids": self.lids, "tubs": sorted(self.tub_bytes), "anns": self.annc,
                           "vers": {k: {"avail": v} for k, v in AVAIL.items()}, "mode": self.mode,
                           "static": self.static, "legacy": self.legacy},
                "events": self.events}


def main():
    ap = argparse.ArgumentParser()
    ap.add_argument("--out")
    ap.add_argument("--seed", type=int, default=0)
    ap.add_argument("--tier", default="quick")
    ap.add_argument("--in", dest="inp")
    ap.add_argument("--mode", default="direct")
    ap.add_argument("--n", type=int, default=50)
    ap.add_argument("--events", type=int, default=25)
    ap.add_argument("--plan", help="JSON list of [mode, legacy, n, events] run in one process")
    ap.add_argument("--legacy", type=int, default=0, help="1 = some servers answer get_version with a Violation")
    a = ap.parse_args()
    plan = json.loads(a.plan) if a.plan else [[a.mode, a.legacy, a.n, a.events]]
    traces = []
    for mode, legacy, n, events in plan:
        for i in range(n):
            rng = random.Random("X-storclient/%s/%d/%d/%d" % (mode, legacy, a.seed, i))
            basedir = os.path.join(os.getcwd(), "scb", "%s_%d_%d" % (mode, legacy, i))
            os.makedirs(basedir, exist_ok=True)
            w = World(rng, mode, basedir, bool(legacy))
            w.run(events)
            traces.append(w.trace())
    with open(a.out, "w") as f:
        json.dump(traces, f)


if __name__ == "__main__":
    main()
