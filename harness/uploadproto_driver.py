"""X-upload_protocol: record the server-selection conversation of real immutable uploads.

One scenario = one upload (allmydata.immutable.upload.Uploader -> CHKUploader -> Tahoe2ServerSelector ->
Encoder) on a SimGrid grid with seeded server modes, pre-existing shares (an earlier upload of the same
storage index by the same or by another client), delivery orders and faults (raise / disconnect / lose =
never answered / lag = answered after the selector's 15 s timeout).  Recorded, in the order in which they
happen:

  Send(kind get|alloc, srv, seq, asked, secret_ok)    a get_buckets / allocate_buckets request leaves the client
  SendAbort(srv, sh)                                   an abort of a bucket writer leaves the client
  Timeout(srv, seq)                                    the selector's 15 s timer of that request has fired
  Recv(kind, srv, seq, ok, lost, res | already, allocated)   the request is delivered (executed, answered)
  Close / Abort / WriteLost (srv, sh, ok)              delivered bucket calls
  Success(...) | Failure(...) | Hang                   what the caller of upload() sees
  Quiescent(disk)                                      after everything pending was delivered

Nothing is judged here: spec/immutable/TraceUploadProtocol.tla does that.  Values are abstracted only:
byte strings -> booleans by comparison (lease secret = the renewal secret this client derives for that
server, UEB on disk = the reported uri_extension_data), message text -> class + the numbers in it.
"""
from vreactor import vr, settle   # must be first

import argparse, json, os, random, re, shutil, struct, sys, tempfile, traceback

from twisted.internet import defer

from grid import Grid, Hang
import upload_driver as ud            # FixedKeyData, the per-server free-space patch, share_data
from allmydata import uri
from allmydata.immutable import upload
from allmydata.storage.immutable import ShareFile
from allmydata.storage.common import storage_index_to_dir
from allmydata.util import hashutil
from allmydata.client import SecretHolder

SEGSIZE = ud.SEGSIZE
TIMEOUT = 15
LEASE_PERIOD = 31 * 24 * 60 * 60

MODES = ["writable", "writable", "writable", "readonly", "full_known", "full_hidden", "small", "failing", "flaky",
         "slow", "laggy"]


def make_scenario(rng, tier):
    quick = tier == "quick"
    n = rng.choice([1, 2, 2, 3, 3, 3] if quick else [1, 2, 2, 3, 3, 3, 4])
    k = rng.randint(1, min(2, n))
    happy = rng.randint(1, n)
    ns = rng.choice([1, 2, 3, 3, 4, 4, 5, 6, 7] if quick else list(range(1, 10)))
    profile = rng.choice(["clean", "mixed", "mixed", "faulty", "faulty", "pre", "pre", "full", "replan"])
    if profile == "replan":
        # a healthy grid with spare servers and one failing allocate_buckets: the selector has to place again
        n = rng.choice([2, 3, 3])
        ns, happy = n + rng.randint(1, 3), rng.choice([n, n, n - 1])
    modes = []
    for i in range(ns):
        if profile in ("clean", "replan"):
            modes.append("writable")
        elif profile == "pre":
            modes.append(rng.choice(["writable", "writable", "readonly", "full_known", "full_hidden"]))
        elif profile == "full":
            modes.append(rng.choice(["writable", "full_hidden", "full_hidden", "small", "full_known"]))
        else:
            modes.append(rng.choice(MODES))
    sc = {"ns": ns, "k": k, "n": n, "happy": happy, "modes": modes, "profile": profile,
          "size": rng.choice([56, 60, 75, 100, 130]), "order": rng.choice(["fifo", "random", "random"]),
          "pre": None, "oneshot": [], "remove": []}
    if profile in ("pre", "mixed", "full") and rng.random() < (0.9 if profile == "pre" else 0.4):
        sub = sorted(rng.sample(range(ns), rng.randint(1, ns)))
        n0 = rng.choice([n, n, n, max(k, n - 1)])
        sc["pre"] = {"servers": sub, "n": n0, "delete": rng.random() < 0.4, "other_client": rng.random() < 0.2}
    if profile in ("faulty", "mixed"):
        for _ in range(rng.choice([0, 1, 1, 2, 3])):
            meth = rng.choice(["allocate_buckets", "allocate_buckets", "get_buckets", "get_buckets", "write", "close", "close", "abort"])
            fault = rng.choice(["raise", "raise", "disconnect"] + (["lose", "lag", "lag"] if meth in ("allocate_buckets", "get_buckets") else []))
            sc["oneshot"].append({"meth": meth, "nth": rng.randint(1, 8), "fault": fault})
    if profile == "replan":
        sc["oneshot"].append({"meth": "allocate_buckets", "nth": rng.randint(1, n), "fault": rng.choice(["raise", "disconnect", "lose", "lag"])})
    if rng.random() < 0.02:
        sc["remove"] = list(range(ns))
    return sc


def ueb_of_share(path):
    """The URI extension block stored in an immutable share file (layout.py WriteBucketProxy / _v2)."""
    d = ud.share_data(path)
    (version,) = struct.unpack(">L", d[:4])
    if version == 1:
        off = struct.unpack(">L", d[0x20:0x24])[0]
        (ln,) = struct.unpack(">L", d[off:off + 4])
        return d[off + 4:off + 4 + ln]
    off = struct.unpack(">Q", d[0x3c:0x44])[0]
    (ln,) = struct.unpack(">Q", d[off:off + 8])
    return d[off + 8:off + 8 + ln]


MSG_CLASSES = [
    ("too_few_servers", re.compile(r"shares could be placed or found on only (\d+) server\(s\)\. We were asked to place shares on at least (\d+) server\(s\) such that any (\d+) of them")),
    ("not_spread", re.compile(r"shares could be placed or found on (\d+) server\(s\), but they are not spread out evenly enough to ensure that any (\d+) of these servers")),
    ("happiness_short", re.compile(r"shares could be placed on only (\d+) server\(s\) such that any (\d+) of them have enough shares to recover the file, but we were asked to place shares on at least (\d+) such servers")),
]


def classify_message(msg):
    for name, rx in MSG_CLASSES:
        m = rx.search(msg)
        if m:
            return name, [int(x) for x in m.groups()]
    if "client gave us zero servers" in msg:
        return "zero_servers", []
    return "other", []


def run_scenario(sc, rng, workdir, idx):
    ns, k, n, happy = sc["ns"], sc["k"], sc["n"], sc["happy"]
    data = bytes((i * 7 + 3) % 251 for i in range(sc["size"]))
    gdir = tempfile.mkdtemp(prefix="g%d_" % idx, dir=workdir)
    ud.SPACE.free = {}
    g = Grid(gdir, num_servers=ns, k=k, n=n, happy=happy, max_segment_size=SEGSIZE, seed=rng.randrange(1 << 30))
    names = sorted(g.servers)
    notes = []

    # the storage index of this file: the encryption key is fixed (EncryptAnUploadable.get_storage_index)
    si = hashutil.storage_index_hash(ud.FIXED_KEY)

    # ---- phase 0: an earlier upload of the same storage index on a subset of the servers ---------------
    own_holder = g.client._secret_holder
    if sc["pre"]:
        pre = sc["pre"]
        for i in range(ns):
            if i not in pre["servers"]:
                g.remove_server("s%d" % i)
        if pre["other_client"]:
            g.client._secret_holder = SecretHolder(hashutil.my_renewal_secret_hash(b"other-client"), b"other-client")
        g.policy = "fifo"
        try:
            g.run(g.uploader.upload(ud.FixedKeyData(data, k, pre["n"], 1)))
        except Exception as e:
            notes.append("pre-upload failed: %s" % type(e).__name__)
        g.drain(allow_timers=False)
        g.client._secret_holder = own_holder
        g.removed.clear()
        if pre["delete"]:
            for srv, shs in g.shares(si).items():
                for sh, p in shs.items():
                    if rng.random() < 0.4:
                        os.unlink(p)
    for i in sc["remove"]:
        g.remove_server("s%d" % i)
    vr.advance(1000)            # leases written by phase 0 are older than anything this upload renews
    settle()

    # ---- server modes for the upload under test --------------------------------------------------------
    for i, mode in enumerate(sc["modes"]):
        srv = g.servers["s%d" % i]
        base = os.path.dirname(os.path.abspath(srv.ss.sharedir))
        if mode == "readonly":
            srv.ss.readonly_storage = True
            srv.rref.version = srv.fss.remote_get_version()
        elif mode == "full_known":
            ud.SPACE.free[base] = 0
            srv.rref.version = srv.fss.remote_get_version()
        elif mode == "full_hidden":
            ud.SPACE.free[base] = 0
        elif mode == "small":
            ud.SPACE.free[base] = rng.choice([150, 300, 450, 700])

    order = [s.get_nickname() for s in g.broker.get_servers_for_psi(si)]
    pre_disk = {nm: sorted(g.shares(si).get(nm, {})) for nm in names}

    def incoming(nm):
        inc_dir = os.path.join(g.servers[nm].ss.incomingdir, storage_index_to_dir(si))
        return sorted(int(f) for f in os.listdir(inc_dir)) if os.path.isdir(inc_dir) else []

    pre_inc = {nm: incoming(nm) for nm in names}       # (left behind by phase 0 if that upload died)
    t_start = int(vr.seconds())
    renewal_secret = own_holder.get_renewal_secret()
    frs = hashutil.file_renewal_secret_hash(renewal_secret, si)
    expected_secret = {nm: hashutil.bucket_renewal_secret_hash(frs, g.servers[nm].get_lease_seed()) for nm in names}

    def leases(nm):
        out = {}
        for sh, p in g.shares(si).get(nm, {}).items():
            ours = [l for l in ShareFile(p).get_leases() if l.is_renew_secret(expected_secret[nm])]
            out[sh] = {"ours": bool(ours), "fresh": any(l.get_expiration_time() >= t_start + LEASE_PERIOD for l in ours)}
        return out

    pre_leases = {nm: leases(nm) for nm in names}

    # ---- observation ------------------------------------------------------------------------------------
    events = []
    bucket_of = {}        # id(bucket writer referenceable) -> (server, shnum)
    keep = []
    outstanding = {}      # seq -> (srv, t_send)   selection requests whose 15 s timer has not fired
    hold = {}             # seq -> virtual time before which the request is not delivered ("lag")
    orig_park, orig_log = g._park, g._log

    def flush_timeouts():
        now = vr.seconds()
        for seq in sorted(outstanding):
            srv, t0 = outstanding[seq]
            if now >= t0 + TIMEOUT:
                del outstanding[seq]
                events.append({"ev": "Timeout", "srv": srv, "seq": seq})

    def park(ref, methname, args, kwargs, d):
        flush_timeouts()
        orig_park(ref, methname, args, kwargs, d)
        seq = g.seq
        if ref.kind == "server" and methname in ("get_buckets", "allocate_buckets"):
            outstanding[seq] = (ref.server_name, vr.seconds())
            if methname == "get_buckets":
                events.append({"ev": "Send", "kind": "get", "srv": ref.server_name, "seq": seq, "asked": [], "secret_ok": True})
            else:
                events.append({"ev": "Send", "kind": "alloc", "srv": ref.server_name, "seq": seq, "asked": sorted(args[3]),
                               "secret_ok": args[1] == expected_secret[ref.server_name]})
        elif ref.kind == "object" and methname == "abort":
            b = bucket_of.get(id(ref.original))
            if b is not None:
                events.append({"ev": "SendAbort", "srv": b[0], "sh": b[1]})

    def log(entry, p):
        orig_log(entry, p)
        flush_timeouts()
        meth, srv, fault = entry["meth"], entry["server"], entry["fault"]
        executed = fault == "" and entry.get("outcome") == "ok"
        if p.ref.kind == "server" and meth in ("get_buckets", "allocate_buckets"):
            lost = fault == "lose"
            if p.seq in outstanding and not lost:
                del outstanding[p.seq]
            e = {"ev": "Recv", "kind": "get" if meth == "get_buckets" else "alloc", "srv": srv, "seq": p.seq, "ok": executed, "lost": lost,
                 "fault": fault or ("" if executed else entry.get("outcome", "?")), "res": [], "already": [], "allocated": []}
            if executed and meth == "get_buckets":
                e["res"] = sorted(entry["result"].keys())
            elif executed:
                already, writers = entry["result"]
                for sh, bw in writers.items():
                    bucket_of[id(bw)] = (srv, sh)
                    keep.append(bw)
                e["already"], e["allocated"] = sorted(already), sorted(writers.keys())
            events.append(e)
        elif p.ref.kind == "object":
            b = bucket_of.get(id(p.ref.original))
            if b is None:
                return
            if meth == "write" and not executed:
                events.append({"ev": "WriteLost", "srv": b[0], "sh": b[1], "fault": fault or entry.get("outcome", "?")})
            elif meth in ("close", "abort"):
                events.append({"ev": "Close" if meth == "close" else "Abort", "srv": b[0], "sh": b[1], "ok": executed,
                               "fault": fault or ("" if executed else entry.get("outcome", "?"))})

    g._park, g._log = park, log
    g.log_calls = False

    # ---- delivery policy: order + faults ----------------------------------------------------------------
    counts = {}
    decided = {}          # seq -> fault decided when the request was first looked at
    oneshot = [dict(o) for o in sc["oneshot"]]
    prng = random.Random(rng.randrange(1 << 30))

    def decide(p):
        fault = None
        if p.ref.kind in ("server", "object") and p.server.startswith("s"):
            mode = sc["modes"][int(p.server[1:])]
            sel = p.ref.kind == "server" and p.methname in ("get_buckets", "allocate_buckets")
            counts[p.methname] = counts.get(p.methname, 0) + 1
            if mode == "failing":
                fault = "raise"
            elif mode == "flaky" and prng.random() < 0.3:
                fault = prng.choice(["raise", "disconnect"])
            elif mode == "slow" and sel and prng.random() < 0.5:
                fault = "lose"
            elif mode == "laggy" and sel and prng.random() < 0.6:
                fault = "lag"
            for o in oneshot:
                if o["meth"] == p.methname and o["nth"] == counts[p.methname]:
                    fault = o["fault"] if (sel or o["fault"] not in ("lose", "lag")) else "raise"
        return fault

    def policy(grid):
        flush_timeouts()
        now = vr.seconds()
        for p in grid.pending:
            if p.seq not in decided:
                decided[p.seq] = decide(p)
                if decided[p.seq] == "lag":
                    hold[p.seq] = now + TIMEOUT + prng.choice([0, 1, 40])
                    decided[p.seq] = None
        ready = [i for i, p in enumerate(grid.pending) if hold.get(p.seq, 0) <= now]
        if not ready:
            return ("timer",)
        i = ready[0] if sc["order"] == "fifo" else prng.choice(ready)
        return ("call", i, decided[grid.pending[i].seq])

    g.policy = policy

    # ---- the upload ---------------------------------------------------------------------------------------
    result = {}
    try:
        ur = g.run(g.uploader.upload(ud.FixedKeyData(data, k, n, happy)))
        flush_timeouts()
        cap = uri.from_string(ur.get_verifycapstr())
        sharemap = sorted([s.get_nickname(), sh] for sh, servers in ur.get_sharemap().items() for s in servers)
        servermap = sorted([s.get_nickname(), sh] for s, shs in ur.get_servermap().items() for sh in shs)
        ued = ur.get_uri_extension_data()
        result = {"ev": "Success", "sharemap": sharemap, "servermap": servermap,
                  "preexisting": ur.get_preexisting_shares(), "pushed": ur.get_pushed_shares(),
                  "file_size": ur.get_file_size(),
                  "ueb": {f: ued.get(f, -1) for f in ("size", "segment_size", "num_segments", "needed_shares", "total_shares")},
                  "cap": {"k": cap.needed_shares, "n": cap.total_shares, "size": cap.size,
                          "si_ok": cap.get_storage_index() == si}}
    except Hang:
        flush_timeouts()
        result = {"ev": "Hang", "cls": "Hang", "mro": ["Hang"], "where": ""}
        ur = None
    except Exception as e:
        flush_timeouts()
        ur = None
        tb = traceback.extract_tb(sys.exc_info()[2])
        where = "%s:%s" % (os.path.basename(tb[-1].filename), tb[-1].name) if tb else ""
        mclass, nums = classify_message(str(e))
        result = {"ev": "Failure", "cls": type(e).__name__, "mro": [c.__name__ for c in type(e).__mro__ if c is not object],
                  "where": where, "msgclass": mclass, "nums": nums, "msg": str(e)[:400]}
    events.append(result)

    # ---- quiescence: everything still pending is delivered (held requests included), no faults -----------------
    try:
        g.policy = "fifo"
        hold.clear()
        for _ in range(1000):
            g.drain(allow_timers=False)
            if not g.pending:
                break
    except Hang:
        notes.append("drain did not terminate")
    flush_timeouts()
    disk = {}
    for nm in names:
        srv = g.servers[nm]
        final = g.shares(si).get(nm, {})
        ls = leases(nm)
        ueb_ok = []
        if ur is not None:
            cap = uri.from_string(ur.get_verifycapstr())
            for sh, p in final.items():
                try:
                    u = ueb_of_share(p)
                    if hashutil.uri_extension_hash(u) == cap.uri_extension_hash and uri.unpack_extension(u) == ur.get_uri_extension_data():
                        ueb_ok.append(sh)
                except Exception:
                    pass
        disk[nm] = {"final": sorted(final), "incoming": incoming(nm),
                    "ours": sorted(sh for sh, l in ls.items() if l["ours"]),
                    "fresh": sorted(sh for sh, l in ls.items() if l["fresh"]),
                    "ueb_ok": sorted(ueb_ok)}
    events.append({"ev": "Quiescent", "disk": disk})
    g._park, g._log = orig_park, orig_log
    g.close()
    shutil.rmtree(gdir, ignore_errors=True)
    advertised_ro = [("s%d" % i) for i, m in enumerate(sc["modes"]) if m in ("readonly", "full_known")]
    consts = {"servers": names, "order": order, "n": n, "k": k, "happy": happy, "size": sc["size"], "maxseg": SEGSIZE,
              "modes": {("s%d" % i): sc["modes"][i] for i in range(ns)}, "advertised_ro": advertised_ro,
              "pre": pre_disk, "pre_inc": pre_inc, "pre_ours": {nm: sorted(sh for sh, l in pre_leases[nm].items() if l["ours"]) for nm in names},
              "profile": sc["profile"], "deliver": sc["order"], "timeout": TIMEOUT,
              "pre_n": sc["pre"]["n"] if sc["pre"] else 0, "pre_other": bool(sc["pre"] and sc["pre"]["other_client"]),
              "oneshot": sc["oneshot"], "notes": notes}
    return {"consts": consts, "events": events}


def main():
    ap = argparse.ArgumentParser()
    ap.add_argument("--out", required=True)
    ap.add_argument("--in", dest="inp")
    ap.add_argument("--seed", type=int, default=0)
    ap.add_argument("--tier", default="quick")
    ap.add_argument("--n", type=int, default=100)
    args = ap.parse_args()
    rng = random.Random("xup:%d" % args.seed)
    workdir = tempfile.mkdtemp(prefix="xup_")
    traces = []
    try:
        for i in range(args.n):
            sc = make_scenario(rng, args.tier)
            srng = random.Random(rng.randrange(1 << 60))
            traces.append(run_scenario(sc, srng, workdir, i))
    finally:
        shutil.rmtree(workdir, ignore_errors=True)
    with open(args.out, "w") as f:
        json.dump({"traces": traces}, f)


if __name__ == "__main__":
    main()
