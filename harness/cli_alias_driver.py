"""Driver of extras/cli_aliases: replays the GEN tables of spec/frontends/GenCli*.tla into the real command line code.

  resolve    allmydata.scripts.common.get_alias on tables read by the real get_aliases from a real private/aliases
  aliasfile  get_aliases / add_alias / create_alias / list_aliases on a node directory whose private/aliases and
             private/root_dir.cap were written from the Spec's file record
  commands   tahoe_ls.ls / tahoe_get.get / tahoe_put.put / tahoe_unlink.unlink / tahoe_mkdir.mkdir / tahoe_mv.mv with
             do_http replaced by a recorder answering from the scenario
  e2e        the same command functions with do_http forwarding into the real web server (harness/webgrid.py)

Every command goes through its real twisted.python.usage Options class of allmydata/scripts/cli.py (argument parsing,
ALIAS[:] handling, FileStoreOptions.postOptions reading the aliases) and cli.dispatch.  The driver only abstracts: every
exception of the code under test becomes a "crash:<class>" result.
"""
from vreactor import vr, settle  # noqa: F401  (first import: virtual reactor)
import argparse, io, json, os, shutil, sys, tempfile, time
from urllib.parse import urlsplit

from allmydata.scripts import cli, common, common_http
from allmydata.scripts import tahoe_ls, tahoe_get, tahoe_put, tahoe_unlink, tahoe_mkdir, tahoe_mv, tahoe_add_alias

import cli_alias_lib as L

HTTP_USERS = (tahoe_ls, tahoe_get, tahoe_put, tahoe_unlink, tahoe_mkdir, tahoe_mv, tahoe_add_alias)
OPTIONS = {"ls": cli.ListOptions, "get": cli.GetOptions, "put": cli.PutOptions, "unlink": cli.UnlinkOptions, "rm": cli.UnlinkOptions,
           "mkdir": cli.MakeDirectoryOptions, "mv": cli.MvOptions, "ln": cli.LnOptions, "add-alias": cli.AddAliasOptions,
           "create-alias": cli.CreateAliasOptions, "list-aliases": cli.ListAliasesOptions}


class Resp:
    def __init__(self, status, reason, body):
        self.status, self.reason, self._b = status, reason, io.BytesIO(body)

    def read(self, n=-1):
        return self._b.read(n)


def install(fake):
    common_http.do_http = fake
    for m in HTTP_USERS:
        m.do_http = fake


def body_bytes(body):
    if isinstance(body, bytes):
        return body
    if hasattr(body, "read"):
        return body.read()
    return repr(body).encode()


def invoke(nodedir, cmd, argv):
    """Run one tahoe sub-command the way scripts/runner.py does, minus the process: parse, dispatch."""
    out = io.TextIOWrapper(io.BytesIO(), encoding="utf-8", write_through=True)
    err = io.StringIO()
    res = {}
    try:
        o = OPTIONS[cmd]()
        o.parent = {"quiet": False, "node-directory": nodedir}
        o.stdout, o.stderr, o.stdin = out, err, io.TextIOWrapper(io.BytesIO(b""))
        o.parseOptions(["--node-url", L.NODE_URL] + list(argv))
        rc = cli.dispatch[cmd](o)
        res["rc"] = rc if isinstance(rc, int) else repr(rc)
    except BaseException as e:  # noqa: every failure of the code under test is an observation
        if isinstance(e, (KeyboardInterrupt, MemoryError)):
            raise
        res["rc"] = "crash:%s" % type(e).__name__
        res["crash"] = "%s: %s" % (type(e).__name__, str(e)[:200])
    out.flush()
    res["stdout"] = out.buffer.getvalue().decode("utf-8", "replace")
    res["stderr"] = err.getvalue()[:400]
    return res


def make_nodedir(base, name):
    nd = os.path.join(base, name)
    os.makedirs(os.path.join(nd, "private"), exist_ok=True)
    return nd


def write_alias_files(nd, body, root):
    for fn, txt in (("aliases", body), ("root_dir.cap", root)):
        p = os.path.join(nd, "private", fn)
        if txt is None:
            if os.path.exists(p):
                os.remove(p)
        else:
            with open(p, "wb") as f:
                f.write(txt.encode("utf-8"))


def table_now(nd):
    """{alias name: cap text} as the real get_aliases reads the node directory."""
    t = common.get_aliases(nd)
    return {k: (v.decode("utf-8") if isinstance(v, bytes) else v) for k, v in t.items()}


# ------------------------------------------------------------------ resolve
def leg_resolve(inp, base):
    tables = {}
    for tid, rows in inp["tables"].items():
        nd = make_nodedir(base, "resolve_" + tid)
        write_alias_files(nd, "".join("%s: %s\n" % (L.text(r["name"]), L.cap_text(r["cap"])) for r in L.seq(rows)), None)
        tables[tid] = common.get_aliases(nd)
    out = []
    for c in inp["cases"]:
        arg = L.text(c["s"])
        rows = []
        for r in c["rows"]:
            common.pretend_platform_uses_lettercolon = bool(r["win"])
            default = common.DEFAULT_ALIAS if r["dflt"] == "tahoe" else None
            try:
                rootcap, path = common.get_alias(tables[r["tbl"]], arg, default)
                if rootcap is common.DefaultAliasMarker:
                    rows.append(["local", "", path.decode("utf-8")])
                else:
                    rows.append(["ok", rootcap.decode("utf-8") if isinstance(rootcap, bytes) else rootcap, path.decode("utf-8")])
            except common.UnknownAliasError as e:
                rows.append(["UnknownAliasError", "", e.msg[:120]])
            except Exception as e:
                rows.append(["crash:%s" % type(e).__name__, "", str(e)[:120]])
        out.append(rows)
    common.pretend_platform_uses_lettercolon = False
    return out


# ------------------------------------------------------------------ aliasfile
def leg_aliasfile(inp, base):
    nd = make_nodedir(base, "aliasfile")
    posts = []

    def fake(method, url, body=b""):
        posts.append((method, url))
        st = fake.answer
        return Resp(200, "OK", (L.cap_text(st) + "\n").encode()) if st else Resp(500, "Internal Server Error", b"boom")

    install(fake)
    out = []
    for c in inp["cases"]:
        body, root = L.render_file(c["F"])
        write_alias_files(nd, body, root)
        res = {"steps": []}
        try:
            res["table0"] = table_now(nd)
        except Exception as e:
            res["table0"] = {"crash": "%s: %s" % (type(e).__name__, e)}
        for o in L.seq(c["ops"]):
            del posts[:]
            fake.answer = o["cap"] if (o["op"] == "create" and o["ok"]) else None
            if o["op"] == "add":
                r = invoke(nd, "add-alias", [L.text(o["arg"]), L.cap_text(o["cap"])])
            elif o["op"] == "create":
                r = invoke(nd, "create-alias", [L.text(o["arg"])])
            else:
                r = invoke(nd, "list-aliases", {"plain": [], "ro": ["--readonly-uri"], "json": ["--json"]}[o["mode"]])
            r["posts"] = ["%s %s" % p for p in posts]
            try:
                r["table"] = table_now(nd)
            except Exception as e:
                r["table"] = {"crash": "%s: %s" % (type(e).__name__, e)}
            res["steps"].append(r)
        out.append(res)
    return out


# ------------------------------------------------------------------ commands
def leg_commands(inp, base):
    nds = {}
    for tid, rows in inp["tables"].items():
        nd = make_nodedir(base, "cmd_" + tid)
        write_alias_files(nd, "".join("%s: %s\n" % (L.text(r["name"]), L.cap_text(r["cap"])) for r in L.seq(rows)), None)
        nds[tid] = nd
    local = os.path.join(base, "local.bin")
    with open(local, "wb") as f:
        f.write(L.LOCAL_CONTENT)
    reqs = []
    st = {}

    def fake(method, url, body=b""):
        reqs.append([method, url, body_bytes(body).decode("utf-8", "replace")])
        k = len(reqs)
        if st["sc"] == k:
            return Resp(500, "Internal Server Error", b"boom")
        if st["sc"] == 10 + k:
            return Resp(404, "Not Found", b"No such child: x")
        if method == "GET" and "t=json" in url:
            d = {"mutable": st["jk"] == "rw", "size": 27, "ro_uri": L.FILE_RO if st["jk"] == "rw" else L.FILE_IMM}
            if st["jk"] == "rw":
                d["rw_uri"] = L.FILE_RW
            return Resp(200, "OK", json.dumps(["filenode", d]).encode())
        if method == "GET":
            return Resp(200, "OK", L.REMOTE_CONTENT)
        if method == "POST":
            return Resp(200, "OK", (L.cap_text("N1") + "\n").encode())
        if method == "PUT":
            return Resp(200, "OK", L.FILE_IMM.encode())
        return Resp(200, "OK", L.FILE_IMM.encode())

    install(fake)
    out = []
    for c in inp["cases"]:
        i = c["inv"]
        st["sc"], st["jk"] = i["sc"], (i["jk"] or "rw")
        del reqs[:]
        cmd = i["cmd"]
        argv = []
        if i["fmt"]:
            argv.append("--format=" + i["fmt"])
        if i["mutable"]:
            argv.append("--mutable")
        a = L.text(i["arg"])
        if cmd in ("mv", "ln"):
            argv += [a, L.text(i["arg2"])]
        elif cmd == "put":
            argv += [local] + ([a] if i["given"] else [])
        elif cmd == "get":
            argv += [a, "-"]
        elif i["given"]:
            argv += [a]
        r = invoke(nds[i["tbl"]], cmd, argv)
        r["reqs"] = [list(q) for q in reqs]
        r["stdout"] = r["stdout"][:300]
        out.append(r)
    return out


# ------------------------------------------------------------------ e2e
def leg_e2e(inp, base):
    from webgrid import WebGrid
    from allmydata.crypto import rsa
    from twisted.internet import defer
    w = WebGrid(num_servers=2, k=1, n=2, happy=1, max_segment_size=64, seed=inp.get("seed", 0))
    pool = w.g.keypool
    pooled = pool.generate

    def generate():
        # harness/grid.py's pool of 48 pre-generated keys wraps around; a key used twice would make two directories one
        if pool.i < len(pool.ders):
            return pooled()
        priv, pub = rsa.create_signing_keypair(2048)
        return defer.succeed((pub, priv))

    pool.generate = generate
    log = []

    def fake(method, url, body=b""):
        u = urlsplit(url)
        path = u.path + ("?" + u.query if u.query else "")
        r = w.request(method, path, body=body_bytes(body))
        log.append([method, path, r.code])
        return Resp(r.code, "OK" if r.code < 300 else "Error", r.body)

    install(fake)
    local = os.path.join(base, "local.bin")
    with open(local, "wb") as f:
        f.write(L.LOCAL_CONTENT)

    def listing(cap, depth=0):
        """{path: 'dir' | 'file'} below a directory cap, read through the web API."""
        from webgrid import q
        r = w.request("GET", "/uri/%s?t=json" % q(cap))
        if r.code != 200:
            return {"?": "listing failed %d" % r.code}
        kind, d = json.loads(r.body)
        res = {}
        for name, (ck, cd) in sorted(d.get("children", {}).items()):
            if ck == "dirnode":
                res[name] = "dir"
                if depth < 4:
                    for sub, sk in listing(cd.get("rw_uri") or cd["ro_uri"], depth + 1).items():
                        res[name + "/" + sub] = sk
            else:
                res[name] = "file"
        return res

    out = []
    nd = tbl = world0 = None
    spec0 = None
    for c in inp["cases"]:
        res = {"setup": [], "steps": []}
        if nd is None or spec0 != c["world"]:
            # the starting world: create-alias for every alias of the case, mkdir / put for every entry (kept for the next
            # script as long as the listings show that nothing has changed)
            nd = make_nodedir(base, "e2e_%d" % len(out))
            for al in L.seq(c["world"]["aliases"]):
                res["setup"].append(invoke(nd, "create-alias", [L.text(al)])["rc"])
            for e in L.seq(c["world"]["entries"]):
                where = L.text(e["alias"]) + ":" + "/".join(L.text(x) for x in L.seq(e["path"]))
                if e["kind"] == "dir":
                    res["setup"].append(invoke(nd, "mkdir", [where])["rc"])
                else:
                    res["setup"].append(invoke(nd, "put", [local, where])["rc"])
            tbl = table_now(nd)
            world0 = {name: listing(cap) for name, cap in tbl.items()}
            spec0 = c["world"]
        world = world0
        for i in L.seq(c["cmds"]):
            del log[:]
            cmd = i["cmd"]
            a = L.text(i["arg"])
            if cmd in ("mv", "ln"):
                argv = [a, L.text(i["arg2"])]
            elif cmd == "put":
                argv = [local] + ([a] if i["given"] else [])
            elif cmd == "get":
                argv = [a, "-"]
            else:
                argv = [a] if i["given"] else []
            r = invoke(nd, cmd, argv)
            r["http"] = [list(x) for x in log]
            r["stdout"] = r["stdout"][:200]
            world = r["world"] = {name: listing(cap) for name, cap in tbl.items()}
            res["steps"].append(r)
        res["aliases"] = sorted(tbl)
        out.append(res)
        if world != world0:
            nd = None
    w.close()
    return out


LEGS = {"resolve": (leg_resolve, 2), "aliasfile": (leg_aliasfile, 3), "commands": (leg_commands, 3), "e2e": (leg_e2e, 4)}


def run_task(task):
    leg, part, inp, base = task
    sub = os.path.join(base, "%s_%d" % (leg, part))
    os.makedirs(sub)
    t0 = time.time()
    res = LEGS[leg][0](inp, sub)
    return leg, part, res, time.time() - t0


def main():
    ap = argparse.ArgumentParser()
    ap.add_argument("--out"); ap.add_argument("--in", dest="inp"); ap.add_argument("--seed", type=int, default=0)
    ap.add_argument("--tier", default="quick"); ap.add_argument("--jobs", type=int, default=1)
    a = ap.parse_args()
    with open(a.inp) as f:
        inp = json.load(f)
    base = tempfile.mkdtemp(prefix="cli_alias_", dir=os.getcwd())
    tasks = []
    for leg in ("e2e", "aliasfile", "commands", "resolve"):        # the slowest first
        if leg in inp:
            cases = inp[leg]["cases"]
            parts = max(1, min(LEGS[leg][1] if a.jobs > 1 else 1, len(cases)))
            for k in range(parts):
                tasks.append((leg, k, dict(inp[leg], cases=cases[k::parts]), base))
    try:
        if a.jobs > 1:
            import multiprocessing
            with multiprocessing.get_context("fork").Pool(a.jobs) as pool:
                done = pool.map(run_task, tasks, chunksize=1)
        else:
            done = [run_task(t) for t in tasks]
    finally:
        shutil.rmtree(base, ignore_errors=True)
    out = {"timing": {}}
    for leg in inp:
        mine = sorted([d for d in done if d[0] == leg], key=lambda d: d[1])
        n = len(inp[leg]["cases"])
        merged = [None] * n
        for _, k, res, secs in mine:
            merged[k::len(mine)] = res
        out[leg] = merged
        out["timing"][leg] = [round(d[3], 1) for d in mine]
    with open(a.out, "w") as f:
        json.dump(out, f)


if __name__ == "__main__":
    main()
