"""Shared by harness/gmtool_driver.py and extras/grid_manager_tool/check.py: reading the table printed by
spec/net/MCGridManagerTool.tla and comparing one real step (exit status, what was printed, what an observer
sees afterwards) with the outcomes the Spec allows.  Nothing here knows what the right answer is: the
expected values are the Spec's, this module only puts both sides into one shape and tests equality."""
import json

STATE_FIELDS = ("ex", "srv", "certs", "stray", "gap", "private", "id", "unchanged")
API_FIELDS = ("load", "rt")


def skey(s):
    return json.dumps(s, sort_keys=True, separators=(",", ":"))


def ckey(c):
    return json.dumps(c, sort_keys=True, separators=(",", ":"))


class Table:
    """the table printed by spec/net/MCGridManagerTool.tla (Emit = TRUE), one JSON object per line:
    {"t": "state", s, obs} per reachable state and {"t": "out", s, c, rc, why, out, s2} per allowed outcome.
    states: skey -> {"s", "obs", "id", "trans": [{"c", "outs": [{rc, why, out, s2, k2}]}]}; inits: the initial states"""

    def __init__(self, path):
        self.states = {}
        self.order = []
        outs = []
        with open(path) as f:
            for line in f:
                line = line.strip()
                if not line:
                    continue
                row = json.loads(line)
                if row["t"] == "state":
                    k = skey(row["s"])
                    if k not in self.states:
                        self.states[k] = {"s": row["s"], "obs": row["obs"], "trans": {}}
                else:
                    outs.append(row)
        self.order = sorted(self.states)
        for i, k in enumerate(self.order):
            self.states[k]["id"] = i
        for row in outs:
            tr = self.states[skey(row["s"])]["trans"].setdefault(ckey(row["c"]), {"c": row["c"], "outs": {}})
            o = {"rc": row["rc"], "why": row["why"], "out": row["out"], "s2": row["s2"], "k2": skey(row["s2"])}
            tr["outs"][skey([o["rc"], o["out"], o["k2"]])] = o
        self.ntrans = 0
        for st in self.states.values():
            st["trans"] = [dict(c=tr["c"], outs=[tr["outs"][x] for x in sorted(tr["outs"])]) for ck, tr in sorted(st["trans"].items())]
            self.ntrans += len(st["trans"])
        self.inits = [k for k in self.order if not self.states[k]["s"]["ex"] and self.states[k]["s"]["now"] == 0]

    def by_id(self, i):
        return self.states[self.order[i]]


def norm_cert(c):
    return {"subject": c["subject"], "expires": c["expires"],
            "permits": {k: sorted(v) for k, v in c["permits"].items()}, "foreign": sorted(c["foreign"])}


def expected_view(obs):
    """the Spec's ExpObs record in the shape the driver reports"""
    if obs["dmg"] != "none":
        return {"unchanged": True, "load": obs["load"]}
    return {"ex": obs["ex"], "srv": dict(obs["srv"]),
            "certs": {n: [norm_cert(c) for c in cs] for n, cs in obs["certs"].items()},
            "load": obs["load"], "rt": obs["rt"],
            # nothing but the documented files, numbered without holes, kept private, one key pair for life
            "stray": [], "gap": False, "private": True, "id": "same"}


def obs_diff(exp_obs, real_obs):
    want = expected_view(exp_obs)
    got = dict(real_obs)
    if "certs" in got:
        got["certs"] = {n: [norm_cert(c) for c in cs] for n, cs in got["certs"].items()}
    return sorted(k for k in set(want) | set(got) if want.get(k, "<absent>") != got.get(k, "<absent>"))


def out_same(exp_out, real_out):
    t = exp_out["t"]
    if real_out.get("t") != t:
        return False
    if t == "cert":
        return norm_cert(exp_out["cert"]) == norm_cert(real_out["cert"])
    if t == "list":
        return exp_out["rows"] == real_out["rows"]
    if t == "doc":
        return dict(exp_out["srv"]) == real_out["srv"]
    return True


def judge(table, trans, real):
    """-> (j, diff): j = index of the allowed outcome the real step is (closest to), diff = [] if it is exactly
    that outcome, else the names of what differs; j = -1 if the real state after the step is none of the
    allowed next states (the walk cannot go on)."""
    best = None
    for j, o in enumerate(trans["outs"]):
        d = obs_diff(table.states[o["k2"]]["obs"], real["obs"])
        diff = []
        if real["rc"] != o["rc"]:
            diff.append("rc")
        if not out_same(o["out"], real["out"]):
            diff.append("out")
        diff += ["obs." + x for x in d]
        if not diff:
            return j, []
        state_ok = not any(x in STATE_FIELDS for x in d)
        rank = (0 if state_ok else 1, len(diff))
        if best is None or rank < best[0]:
            best = (rank, j, diff, state_ok)
    _, j, diff, state_ok = best
    return (j if state_ok else -1), diff
