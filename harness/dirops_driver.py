"""Driver of real tahoe-lafs directories for the extra `dirnode_ops` (spec/dir/DirnodeMore.tla, DeepCheck.tla).

  --mode ops    histories on real directories (SimGrid, allmydata.dirnode.time pinned as in dir_driver.py):
                the C20 calls plus create_subdirectory / add_file / set_children / has_child / get /
                get_metadata_for / list / get_child_and_metadata_at_path through write- and read-only handles,
                on mutable, created and immutable directories; output = traces for TraceDirnodeMore.tla.
                The last traces are *probes*: short histories whose last call is an input on which the code is
                known to answer differently from the documented behaviour.
  --mode graph  real directory graphs (real CHK / mutable files, 2 servers, k=1 n=2) observed through a real
                _Client whose NodeMaker carries the access blacklist: blacklist file rewritten / removed with
                pinned mtimes, shares deleted, then create_node_from_uri / read / list / get_child_at_path /
                build_manifest / start_deep_check; output = traces for TraceDeepCheck.tla.

The driver never decides a verdict: it executes calls, abstracts what the code answered through fixed tables
and records it.
"""
from vreactor import vr, settle  # noqa: F401  (must be first)
import argparse, copy, json, os, random, shutil, sys

import dir_driver as dd
from dir_driver import CLK, NAMES, NAME_BACK, MDS, OW, md_concrete, md_abstract
from grid import Grid, make_full_client
from allmydata import uri as uri_mod
from allmydata.immutable import upload
from allmydata.interfaces import IDirectoryNode, IFileNode
from allmydata.util.consumer import download_to_data

CONTENTS = {"c1": b"content one of the dirnode_ops driver " * 3, "c2": b"CONTENT TWO of the dirnode_ops driver " * 4, "lit": b"tiny"}
FILE_OF = {"c1": "fc1", "c2": "fc2", "lit": "flit"}
NONE_CHILD = {"id": "none", "type": "none", "w": False}
NO_MD = {"md": "none", "hasT": False, "crt": 0, "mot": 0}


def blank():
    return {"st": "ok", "out": dict(NONE_CHILD), "upl": False, "has": False, "emd": dict(NO_MD), "missing": "", "listing": {}}


def name_abs(s):
    return NAME_BACK.get(s, "?" + s.encode("utf-8").hex())


class MWorld(dd.World):
    """dir_driver.World plus directories created during the history, immutable directories and uploaded files"""
    def __init__(self, workdir, dirs, seed=0):
        dd.World.__init__(self, workdir, dirs, seed=seed)
        self.imm = []
        self.nfresh = 0
        lit = uri_mod.LiteralFileURI(CONTENTS["lit"]).to_string()
        self.caps["flit"] = ("file", None, lit)
        self.back[(None, lit)] = {"id": "flit", "type": "file", "w": False}
        self.by_content = {v: FILE_OF[k] for k, v in CONTENTS.items()}
        # the unknown cap of dir_driver's table, as an immutable directory hands it back
        self.back[(None, b"imm.x-tahoe-future-cap:ro1")] = {"id": "u1", "type": "unknown", "w": False}

    def known(self, cid):
        return cid in self.caps

    def register_dir(self, node):
        key = (node.get_write_uri(), node.get_readonly_uri())
        if key in self.back:
            return self.back[key]["id"]
        self.nfresh += 1
        cid = "n%d" % self.nfresh
        rw, ro = key
        self.caps[cid] = ("dir", rw, ro)
        if rw is not None:
            self.back[(rw, ro)] = {"id": cid, "type": "dir", "w": True}
            self.ro[cid] = self.nm.create_from_cap(ro)
        else:
            self.imm.append(cid)
            self.ro[cid] = node
        self.back[(None, ro)] = {"id": cid, "type": "dir", "w": False}
        self.rw[cid] = node
        return cid

    def abstract_node(self, node):
        if node is None:
            return dict(NONE_CHILD)
        key = (node.get_write_uri(), node.get_readonly_uri())
        if key not in self.back and IFileNode.providedBy(node) and not node.is_mutable():
            # an immutable file the tables do not know: it is what it reads back as
            try:
                data = self.g.run(download_to_data(node))
            except Exception as e:
                data = b"?unreadable:" + type(e).__name__.encode()
            cid = self.by_content.get(data)
            if cid is not None:
                self.caps[cid] = ("file", None, key[1])
                self.back[(None, key[1])] = {"id": cid, "type": "file", "w": False}
        return dd.World.abstract_node(self, node)

    def entry_abs(self, child, md):
        m, hasT, crt, mot = md_abstract(md)
        return {"child": self.abstract_node(child), "md": m, "hasT": hasT, "crt": crt, "mot": mot}

    def listing_abs(self, children):
        return {name_abs(n): self.entry_abs(c, md) for n, (c, md) in children.items()}

    def cap_pair(self, child):
        typ, rw, ro = self.caps[child["id"]]
        return (rw, ro) if child["w"] else (None, ro)


def run_call(w, thunk):
    """-> (st, result, exception)"""
    try:
        return "ok", w.g.run(thunk()), None
    except Exception as e:          # the exception class is the observation
        return type(e).__name__, None, e


def do_more(w, o):
    """one call of the vocabulary of DirnodeMore.tla on the real directories -> the answer record"""
    CLK.now = o["now"]
    r = blank()
    if o["op"] in ("add", "addmany", "delete", "setmd", "move"):
        r["st"], r["out"] = dd.do_op(w, o)
        return r
    h = (w.rw if o["via"] == "rw" else w.ro)[o["d"]]
    n0 = len(w.g.calllog)
    if o["op"] == "mkdir":
        kids = {}
        for k in o["kids"]:
            kids[NAMES[k["name"]]] = (w.node(k["child"]), md_concrete(k["md"]))
        st, res, _ = run_call(w, lambda: h.create_subdirectory(NAMES[o["name"]], kids, overwrite=OW[o["ow"]], mutable=o["mutable"],
                                                                metadata=md_concrete(o["md"])))
        r["st"] = st
        if st == "ok":
            cid = w.register_dir(res)
            r["out"] = {"id": cid, "type": "dir" if IDirectoryNode.providedBy(res) else "?", "w": res.get_write_uri() is not None}
    elif o["op"] == "addfile":
        st, res, _ = run_call(w, lambda: h.add_file(NAMES[o["name"]], upload.Data(CONTENTS[o["content"]], convergence=b"dirops"),
                                                     md_concrete(o["md"]), overwrite=OW[o["ow"]]))
        r["st"] = st
        if st == "ok":
            r["out"] = w.abstract_node(res)
    elif o["op"] == "setchildren":
        entries = {}
        for it in o["items"]:
            pair = w.cap_pair(it["child"])
            entries[NAMES[it["name"]]] = pair if it["md"] == "none" else pair + (md_concrete(it["md"]),)
        r["st"], _, _ = run_call(w, lambda: h.set_children(entries, overwrite=OW[o["ow"]]))
    elif o["op"] == "has":
        st, res, _ = run_call(w, lambda: h.has_child(NAMES[o["name"]]))
        r["st"] = st
        r["has"] = bool(res) if st == "ok" else False
    elif o["op"] == "get":
        st, res, e = run_call(w, lambda: h.get(NAMES[o["name"]]))
        r["st"] = st
        if st == "ok":
            r["out"] = w.abstract_node(res)
        elif st == "NoSuchChildError":
            r["missing"] = name_abs(e.args[0])
    elif o["op"] == "getmd":
        st, res, e = run_call(w, lambda: h.get_metadata_for(NAMES[o["name"]]))
        r["st"] = st
        if st == "ok":
            r["emd"] = dict(zip(("md", "hasT", "crt", "mot"), md_abstract(res)))
        elif st == "NoSuchChildError":
            r["missing"] = name_abs(e.args[0])
    elif o["op"] == "list":
        st, res, _ = run_call(w, lambda: h.list())
        r["st"] = st
        if st == "ok":
            r["listing"] = w.listing_abs(res)
    elif o["op"] == "path":
        path = [NAMES[p] for p in o["path"]]
        arg = "/".join(path) if o.get("as_string") else path
        st, res, e = run_call(w, lambda: h.get_child_and_metadata_at_path(arg))
        r["st"] = st
        if st == "ok":
            node, md = res
            r["out"] = w.abstract_node(node)
            r["emd"] = dict(zip(("md", "hasT", "crt", "mot"), md_abstract(md)))
        elif st == "NoSuchChildError":
            r["missing"] = name_abs(e.args[0])
    else:
        raise ValueError(o["op"])
    if o["op"] == "addfile":        # did the call ask storage servers for room (an upload started)?
        r["upl"] = any(c["meth"] == "allocate_buckets" for c in w.g.calllog[n0:])
    return r


# ---------------------------------------------------------------- scenario generation (inputs only)
def norm(n):
    return {"e2": "e1", "k2": "k1"}.get(n, n)


class OpsGen(dd.C20Gen):
    """Seeded generator of calls.  Like C20Gen it looks at the last listing only to aim names and paths at entries that
    exist (or do not); it never predicts an outcome.  It stays away from the inputs of the probe traces (see PROBES)."""
    def __init__(self, rng, big):
        dd.C20Gen.__init__(self, rng, big)
        self.mut = list(self.dirs)
        self.immd = []
        self.files = []

    def learn(self, w):
        for cid in w.rw:
            if cid in w.imm:
                if cid not in self.immd:
                    self.immd.append(cid)
                    self.kids.append({"id": cid, "type": "dir", "w": False})
            elif cid not in self.mut:
                self.mut.append(cid)
                self.dirs.append(cid)
                self.kids.append({"id": cid, "type": "dir", "w": True})
                self.kids.append({"id": cid, "type": "dir", "w": False})
        for cid in ("fc1", "fc2", "flit"):
            if w.known(cid) and cid not in self.files:
                self.files.append(cid)
                self.kids.append({"id": cid, "type": "file", "w": False})

    def target(self, write):
        rng = self.rng
        if self.immd and rng.random() < (0.06 if write else 0.25):
            return rng.choice(self.immd)
        return rng.choice(self.mut)

    def deep_imm_kid(self):
        c = [k for k in self.kids if (k["type"] == "file" and k["id"] in ("f1", "f2", "fc1", "fc2", "flit")) or k["id"] in self.immd]
        return self.rng.choice(c)

    def more(self, obs):
        rng = self.rng
        x = rng.random()
        if x < 0.30:
            o = dd.C20Gen.op(self, obs)
            if rng.random() < 0.05 and self.immd:
                o["d"] = rng.choice(self.immd)
            return o
        self.now += rng.choice([0, 1, 1, 2, 5])
        ow = rng.choice(["true", "true", "false", "only_files"])
        if x < 0.50:
            d = self.target(True)
            mutable = rng.random() < 0.55
            kids, seen = [], set()
            for _ in range(rng.choice([0, 0, 1, 2, 3])):
                n = rng.choice(self.names)
                if n in seen:
                    continue
                seen.add(n)
                child = rng.choice(self.kids) if (mutable or rng.random() < 0.2) else self.deep_imm_kid()
                md = rng.choice(["m0", "m1", "m2", "ct", "mt", "nw"])
                if md == "nw" and child["w"]:
                    md = "m1"               # probe "mkdir_nowrite_child"
                kids.append({"name": n, "child": child, "md": md})
            o = {"op": "mkdir", "d": d, "via": "ro" if rng.random() < 0.05 else "rw", "name": self.raw_for(d, obs, rng.random() < 0.35),
                 "kids": kids, "ow": ow, "mutable": mutable, "md": rng.choice(["keep", "keep", "keep", "m1", "nw", "mt"])}
        elif x < 0.60:
            d = self.target(True)
            o = {"op": "addfile", "d": d, "via": "ro" if rng.random() < 0.12 else "rw", "name": self.raw_for(d, obs, rng.random() < 0.4),
                 "content": rng.choice(["c1", "c2", "lit"]), "md": rng.choice(["keep", "keep", "m1", "nw"]), "ow": ow}
        elif x < 0.70:
            d = rng.choice(self.mut)        # read-only / immutable: probes "setchildren_readonly", "setchildren_immutable"
            items, seen = [], set()
            for _ in range(rng.choice([1, 2, 2, 3])):
                n = rng.choice(self.names)
                if n in seen:
                    continue
                seen.add(n)
                items.append({"name": n, "child": rng.choice(self.kids), "md": rng.choice(["none", "none", "m1", "m2", "nw", "mt"])})
            o = {"op": "setchildren", "d": d, "via": "rw", "items": items, "ow": ow}
        else:
            d = self.target(False)
            via = "ro" if rng.random() < 0.3 else "rw"
            k = rng.choice(["has", "get", "getmd", "list", "path", "path", "path"])
            if k == "getmd" and not obs[d]:
                k = "has"                   # a missing name: probe "getmd_missing"
            if k in ("has", "get"):
                o = {"op": k, "d": d, "via": via, "name": self.raw_for(d, obs, rng.random() < 0.7)}
            elif k == "getmd":
                o = {"op": k, "d": d, "via": via, "name": self.raw_for(d, obs, True)}
            elif k == "list":
                o = {"op": k, "d": d, "via": via}
            else:
                o = {"op": "path", "d": d, "via": via, "path": self.path_for(d, obs), "as_string": rng.random() < 0.4}
                if not o["path"]:
                    o["as_string"] = rng.random() < 0.5
        o["now"] = self.now
        return o

    def path_for(self, d, obs):
        """a path of 0-4 names that follows existing links through directories, or leaves them at some point
        (never through something that is not a directory: probes "path_through_file", "path_through_unknown")"""
        rng = self.rng
        path, cur = [], d
        for _ in range(rng.choice([0, 1, 1, 2, 2, 3, 4])):
            present = [n for n in self.names if norm(n) in obs[cur]]
            if present and rng.random() < 0.88:
                n = rng.choice(present)
                path.append(n)
                c = obs[cur][norm(n)]["child"]
                if c["type"] == "dir" and c["id"] in obs:
                    cur = c["id"]
                else:
                    break
            else:
                absent = [n for n in self.names if norm(n) not in obs[cur]]
                if not absent:
                    break
                path.append(rng.choice(absent))
                for _ in range(rng.choice([0, 0, 1])):
                    path.append(rng.choice(self.names))
                break
        return path


F1 = {"id": "f1", "type": "file", "w": False}
G1W = {"id": "g1", "type": "file", "w": True}
U1 = {"id": "u1", "type": "unknown", "w": False}
# inputs on which the real code answers differently from the documented behaviour; always the last call of its trace
PROBES = {
    "setchildren_readonly": [{"op": "setchildren", "d": "d1", "via": "ro", "items": [{"name": "a", "child": F1, "md": "none"}], "ow": "true"}],
    "setchildren_immutable": [
        {"op": "mkdir", "d": "d1", "via": "rw", "name": "a", "kids": [], "ow": "true", "mutable": False, "md": "keep"},
        {"op": "setchildren", "d": "$last", "via": "rw", "items": [{"name": "a", "child": F1, "md": "none"}], "ow": "true"}],
    "getmd_missing": [{"op": "getmd", "d": "d1", "via": "rw", "name": "a"}],
    "path_through_file": [
        {"op": "add", "d": "d1", "via": "rw", "name": "a", "child": F1, "md": "keep", "ow": "true"},
        {"op": "path", "d": "d1", "via": "rw", "path": ["a", "e1"], "as_string": False}],
    "path_through_unknown": [
        {"op": "add", "d": "d1", "via": "rw", "name": "a", "child": U1, "md": "keep", "ow": "true"},
        {"op": "path", "d": "d1", "via": "rw", "path": ["a", "e1"], "as_string": True}],
    "mkdir_nowrite_child": [
        {"op": "mkdir", "d": "d1", "via": "rw", "name": "a", "kids": [{"name": "e1", "child": G1W, "md": "nw"}], "ow": "true", "mutable": True,
         "md": "keep"}],
}


def run_ops(args, inp, rng):
    scenarios = list((inp or {}).get("scenarios", []))
    for i in range(args.n):
        scenarios.append({"gen": rng.randint(max(4, args.len // 2), args.len)})
    if not (inp or {}).get("no_probes"):
        for name, ops in sorted(PROBES.items()):
            ops = copy.deepcopy(ops)
            for i, o in enumerate(ops):
                o["now"] = 20 + i
            scenarios.append({"consts": {"init": {"d1": {}, "d2": {}}}, "ops": ops, "src": "probe:" + name})
    traces = []
    for si, sc in enumerate(scenarios):
        wd = os.path.join(args.work, "ops_%d" % si)
        gen = None
        if "gen" in sc:
            gen = OpsGen(rng, args.tier != "quick")
            sc = {"consts": {"init": gen.init()}, "ops": [None] * sc["gen"], "src": "seeded"}
        init = sc["consts"]["init"]
        w = MWorld(wd, sorted(init.keys()), seed=args.seed)
        try:
            for d, entries in init.items():
                if entries:
                    w.set_contents(d, entries)
            obs = w.observe()
            if obs != init:
                raise RuntimeError("initial contents not established: %r vs %r" % (obs, init))
            events = []
            for o in sc["ops"]:
                if o is None:
                    if len(w.rw) >= 12:       # enough directories created: the C20 calls and the reads go on
                        for _ in range(50):
                            o = gen.more(obs)
                            if o["op"] != "mkdir":
                                break
                    else:
                        o = gen.more(obs)
                if o.get("d") == "$last":       # probes: the directory the previous call handed back
                    o["d"] = events[-1]["out"]["id"]
                r = do_more(w, o)
                obs = w.observe()
                if gen is not None:
                    gen.learn(w)
                e = dict(o)
                e.update(r)
                e["obs"], e["imm"] = obs, list(w.imm)
                events.append(e)
            traces.append({"consts": sc["consts"], "events": events, "src": sc.get("src", "given")})
        finally:
            w.close()
            shutil.rmtree(wd, ignore_errors=True)
    return traces


# ================================================================ graph mode: deep-check and the access blacklist
K_, N_ = 1, 2


class CWorld:
    """One graph of the vocabulary of DeepTraverse.tla built from real objects: mutable directories (cycles through
    set_children), immutable / literal directories bottom-up, real CHK files and real mutable files (shares on the
    servers), literal files and unknown caps; observed through `client` (a real _Client: NodeMaker + Blacklist)."""
    def __init__(self, g, client, graph, rng, tag):
        from allmydata.interfaces import MDMF_VERSION, SDMF_VERSION
        from allmydata.mutable.publish import MutableData
        self.g, self.c, self.nm, self.graph = g, client, g.nodemaker, graph
        types = graph["type"]
        self.caps, self.back, self.si = {}, {}, {}
        pending = [o for o in types if types[o] in ("idir", "litdir")]
        for o, t in types.items():
            if t == "dir":
                node = g.run(self.nm.create_new_mutable_directory(version=rng.choice([SDMF_VERSION, MDMF_VERSION])))
                self.caps[o] = {"w": node.get_uri(), "r": node.get_readonly_uri()}
                self.si[o] = node.get_storage_index()
            elif t == "mfile":
                node = g.run(self.nm.create_mutable_file(MutableData(b"mutable file %s %s" % (tag, o.encode())),
                                                         version=rng.choice([SDMF_VERSION, MDMF_VERSION])))
                self.caps[o] = {"w": node.get_uri(), "r": node.get_readonly_uri()}
                self.si[o] = node.get_storage_index()
            elif t == "file":
                res = g.run(g.uploader.upload(upload.Data(b"immutable file %s %s / " % (tag, o.encode()) * 5, convergence=b"graph")))
                self.caps[o] = {"w": None, "r": res.get_uri()}
                self.si[o] = uri_mod.from_string(res.get_uri()).get_storage_index()
            elif t == "lit":
                self.caps[o] = {"w": None, "r": uri_mod.LiteralFileURI(b"L" + o.encode()).to_string()}
            elif t == "unk":
                self.caps[o] = {"w": None, "r": b"ro.x-tahoe-future-cap:" + o.encode()}
        while pending:
            progress = False
            for o in list(pending):
                ks = graph["kids"][o]
                if all(x["to"] in self.caps for x in ks):
                    children = {dd.gname(x["name"]): (self.nm.create_from_cap(None, self.caps[x["to"]]["r"]), {}) for x in ks}
                    if types[o] == "idir":      # pad the contents beyond the literal threshold, with a unique tag
                        children["pad"] = (self.nm.create_from_cap(None, uri_mod.LiteralFileURI(b"pad" + o.encode()).to_string()),
                                           {"pad": "x" * 60, "tag": tag.decode()})
                    node = g.run(self.nm.create_immutable_directory(children))
                    kind = node.get_uri().split(b":")[1]
                    if kind != (b"DIR2-CHK" if types[o] == "idir" else b"DIR2-LIT"):
                        raise RuntimeError("object %s came out as %r" % (o, kind))
                    self.caps[o] = {"w": None, "r": node.get_uri()}
                    if types[o] == "idir":
                        self.si[o] = node.get_storage_index()
                    pending.remove(o)
                    progress = True
            if not progress:
                raise RuntimeError("cyclic immutable directories in the graph")
        for o, c in self.caps.items():
            if c["w"]:
                self.back[c["w"]] = (o, "w")
            self.back.setdefault(c["r"], (o, "r"))
        for o, t in types.items():
            if t == "dir" and graph["kids"][o]:
                ents = {}
                for x in graph["kids"][o]:
                    c = self.caps[x["to"]]
                    ents[dd.gname(x["name"])] = (c["w"], c["r"]) if x["lvl"] == "w" else (None, c["r"])
                g.run(self.nm.create_from_cap(self.caps[o]["w"]).set_children(ents))
        if any(t == "idir" for t in types.values()):
            n = len(types)
            for o in [x for x, t in types.items() if t == "idir"]:
                n += 1
                po = "p%d" % n
                types[po] = "lit"
                graph["kids"][po] = []
                graph["kids"][o].append({"name": 99, "to": po, "lvl": "r"})
                cap = uri_mod.LiteralFileURI(b"pad" + o.encode()).to_string()
                self.caps[po] = {"w": None, "r": cap}
                self.back[cap] = (po, "r")
        self.fn = client.blacklist.blacklist_fn

    # ---- ground truth the harness controls
    def shares_left(self, o):
        return sum(len(v) for v in self.g.shares(self.si[o]).values()) if o in self.si else N_

    def damage(self, o, left):
        files = [p for srv, d in sorted(self.g.shares(self.si[o]).items()) for shnum, p in sorted(d.items())]
        while len(files) > left:
            os.remove(files.pop())
        return self.shares_left(o)

    def blwrite(self, ids, mt):
        from allmydata.util import base32
        with open(self.fn, "wb") as f:
            f.write(b"# written by dirops_driver\n")
            for o in ids:
                f.write(base32.b2a(self.si[o]) + b" harness says no to " + o.encode() + b"\n")
        os.utime(self.fn, (1000 + mt, 1000 + mt))

    def blremove(self):
        if os.path.exists(self.fn):
            os.remove(self.fn)

    # ---- observation through the gateway
    def node(self, o, lvl):
        c = self.caps[o]
        return self.c.create_node_from_uri(c["w"] if (lvl == "w" and c["w"]) else None, None if (lvl == "w" and c["w"]) else c["r"])

    def obj_of_cap(self, cap):
        return self.back.get(cap, ("?" + repr(cap), "?"))

    def name_int(self, s):
        return 99 if s == "pad" else int(s)

    def observe(self, e):
        from allmydata.blacklist import ProhibitedNode
        g = self.g
        ev = e["ev"]
        if ev in ("access", "read", "list"):
            node = self.node(e["obj"], e.get("lvl", "r"))
            proh, isdir = isinstance(node, ProhibitedNode), bool(IDirectoryNode.providedBy(node))
            if ev == "access":
                e["proh"], e["isdir"] = proh, isdir
            elif ev == "read":
                if isdir:
                    e["st"], _ = dd.exc_name(lambda: g.run(node.list()))
                elif node.is_mutable():
                    e["st"], _ = dd.exc_name(lambda: g.run(node.download_best_version()))
                else:
                    e["st"], _ = dd.exc_name(lambda: g.run(download_to_data(node)))
            else:
                e["entries"] = []
                if not isdir:
                    e["st"] = "prohibited" if proh else "notdir"
                else:
                    e["st"], children = dd.exc_name(lambda: g.run(node.list()))
                    if e["st"] == "ok":
                        e["entries"] = [{"name": self.name_int(n), "to": self.obj_of_cap(ch.get_uri())[0], "proh": isinstance(ch, ProhibitedNode)}
                                        for n, (ch, md) in sorted(children.items())]
            return e
        root = self.node(self.graph["root"], e["via"])
        if not IDirectoryNode.providedBy(root):
            e["st"] = "prohibited" if isinstance(root, ProhibitedNode) else "notdir"
            if ev == "path":
                e["obj"], e["proh"] = "none", False
            elif ev == "manifest":
                e["vis"] = []
            else:
                e.update({"checked": 0, "healthy": 0, "unhealthy": 0, "unrecoverable": 0, "results": [],
                          "stats": {"dirs": 0, "files": 0, "imm": 0, "lit": 0, "mut": 0, "unk": 0, "maxkids": 0}})
            return e
        if ev == "path":
            e["st"], node = dd.exc_name(lambda: g.run(root.get_child_at_path([dd.gname(p) if p != 99 else "pad" for p in e["path"]])))
            e["obj"], e["proh"] = "none", False
            if e["st"] == "ok":
                e["obj"], e["proh"] = self.obj_of_cap(node.get_uri())[0], isinstance(node, ProhibitedNode)
        elif ev == "manifest":
            e["st"], res = dd.exc_name(lambda: g.run(root.build_manifest().when_done()))
            e["vis"] = []
            if e["st"] == "ok":
                for (path, cap) in res["manifest"]:
                    obj, lvl = self.obj_of_cap(cap)
                    e["vis"].append({"path": [self.name_int(p) for p in path], "obj": obj, "lvl": lvl})
        elif ev == "deepcheck":
            e["st"], res = dd.exc_name(lambda: g.run(root.start_deep_check(verify=e["verify"]).when_done()))
            e.update({"checked": 0, "healthy": 0, "unhealthy": 0, "unrecoverable": 0, "results": [],
                      "stats": {"dirs": 0, "files": 0, "imm": 0, "lit": 0, "mut": 0, "unk": 0, "maxkids": 0}})
            if e["st"] == "ok":
                c = res.get_counters()
                e.update({"checked": c["count-objects-checked"], "healthy": c["count-objects-healthy"],
                          "unhealthy": c["count-objects-unhealthy"], "unrecoverable": c["count-objects-unrecoverable"]})
                e["results"] = [{"path": [self.name_int(p) for p in path], "healthy": bool(cr.is_healthy()), "recoverable": bool(cr.is_recoverable())}
                                for path, cr in sorted(res.get_all_results().items())]
                d = res.get_stats()
                e["stats"] = {"dirs": d["count-directories"], "files": d["count-files"], "imm": d["count-immutable-files"],
                              "lit": d["count-literal-files"], "mut": d["count-mutable-files"], "unk": d["count-unknown"],
                              "maxkids": d["largest-directory-children"]}
        else:
            raise ValueError(ev)
        return e


def graph_script(rng, graph, steps):
    """inputs only: what to write into the blacklist, what to damage, what to ask the gateway"""
    types, kids, root = graph["type"], graph["kids"], graph["root"]
    listable = [o for o, t in types.items() if t in ("dir", "idir", "file", "mfile")]
    readable = [o for o, t in types.items() if t != "unk"]
    dirs = [o for o, t in types.items() if t in ("dir", "idir", "litdir")]
    lvl = lambda: rng.choice(["w", "r"])

    listed = set()       # everything the script ever wrote into the blacklist

    def some_path():
        path, cur = [], root
        for _ in range(rng.choice([1, 2, 2, 3, 4])):
            ks = kids.get(cur) or []
            if not ks or rng.random() < 0.08:
                path.append(rng.choice([1, 7, 12]))
                break
            # only through directories (a path through a file is the probe of mode ops)
            k = rng.choice(ks)
            path.append(k["name"])
            if types[k["to"]] not in ("dir", "idir", "litdir") or k["to"] in listed:
                break               # nor through a directory that was ever blacklisted (probe "path_through_prohibited_dir")
            cur = k["to"]
        return path

    evs = [{"ev": "deepcheck", "via": "w", "verify": False}, {"ev": "manifest", "via": lvl()}]
    mt = 0
    for _ in range(steps):
        x = rng.random()
        if x < 0.17:
            r = rng.random()
            mt = mt + rng.choice([1, 1, 2, 5]) if r < 0.8 else (mt if r < 0.9 else max(1, mt - 1))
            mt = max(mt, 1)
            pool = [o for o in listable if o != root or rng.random() < 0.08]
            ids = [o for o in pool if rng.random() < min(0.6, 1.5 / max(1, len(pool)))]
            listed.update(ids)
            evs.append({"ev": "blwrite", "ids": ids, "mt": mt})
        elif x < 0.21:
            evs.append({"ev": "blremove"})
        elif x < 0.31 and listable:
            o = rng.choice(listable)
            evs.append({"ev": "damage", "obj": o, "left": rng.choice([1, 1, 0]) if types[o] in ("file", "mfile") else 1})
        elif x < 0.45:
            evs.append({"ev": "access", "obj": rng.choice(listable + readable), "lvl": lvl()})
        elif x < 0.57:
            evs.append({"ev": "read", "obj": rng.choice(listable + readable), "lvl": lvl()})
        elif x < 0.67:
            evs.append({"ev": "list", "obj": rng.choice(dirs), "lvl": lvl()})
        elif x < 0.79:
            evs.append({"ev": "path", "via": lvl(), "path": some_path()})
        elif x < 0.89:
            evs.append({"ev": "manifest", "via": lvl()})
        else:
            evs.append({"ev": "deepcheck", "via": lvl(), "verify": rng.random() < 0.25})
    evs.append({"ev": "deepcheck", "via": "w", "verify": False})
    return evs


# a directory on the path is prohibited: the documented refusal is FileProhibited (webapi.rst), see notes
GRAPH_PROBES = {
    "path_through_prohibited_dir": {
        "graph": {"type": {"o1": "dir", "o2": "dir", "o3": "lit"}, "root": "o1",
                  "kids": {"o1": [{"name": 1, "to": "o2", "lvl": "w"}], "o2": [{"name": 1, "to": "o3", "lvl": "r"}], "o3": []}},
        "events": [{"ev": "blwrite", "ids": ["o2"], "mt": 1}, {"ev": "path", "via": "w", "path": [1, 1]}]},
}


def run_graph(args, inp, rng):
    jobs = []
    for gr in (inp or {}).get("graphs", []):
        jobs.append((gr, None, gr.get("src", "tlc")))
    for i in range(args.n):
        jobs.append((dd.seeded_graph(rng, rng.choice([4, 6, 8, 10, 14])), None, "seeded"))
    if not (inp or {}).get("no_probes"):
        for name, p in sorted(GRAPH_PROBES.items()):
            jobs.append((p["graph"], p["events"], "probe:" + name))
    out = []
    g, used, wd, nclient = None, 0, None, 0
    for gi, (graph, events, src) in enumerate(jobs):
        graph = copy.deepcopy(graph)
        graph.setdefault("root", "o1")
        nmut = sum(1 for t in graph["type"].values() if t in ("dir", "mfile"))
        if g is None or used + nmut > 44:
            if g is not None:
                g.close()
                shutil.rmtree(wd, ignore_errors=True)
            wd = os.path.join(args.work, "g_%d" % gi)
            g = Grid(wd, num_servers=N_, k=K_, n=N_, happy=1, seed=args.seed)
            used = 0
        used += nmut
        nclient += 1
        client = make_full_client(g, i=nclient)        # a fresh gateway (fresh Blacklist) per graph
        w = CWorld(g, client, graph, rng, b"%d" % gi)
        h0 = {o: w.shares_left(o) for o in graph["type"]}
        if events is None:
            events = graph_script(rng, graph, args.len)
        recorded = []
        for e in copy.deepcopy(events):
            if e["ev"] == "blwrite":
                w.blwrite(e["ids"], e["mt"])
            elif e["ev"] == "blremove":
                w.blremove()
            elif e["ev"] == "damage":
                e["left"] = w.damage(e["obj"], e["left"])
            else:
                w.observe(e)
            recorded.append(e)
        out.append({"consts": {"type": graph["type"], "kids": graph["kids"], "root": graph["root"], "K": K_, "N": N_, "H0": h0},
                    "events": recorded, "src": src})
    if g is not None:
        g.close()
        shutil.rmtree(wd, ignore_errors=True)
    return out


def main():
    ap = argparse.ArgumentParser()
    ap.add_argument("--out", required=True)
    ap.add_argument("--in", dest="inp")
    ap.add_argument("--seed", type=int, default=0)
    ap.add_argument("--tier", default="quick")
    ap.add_argument("--mode", required=True)
    ap.add_argument("--n", type=int, default=10)
    ap.add_argument("--len", type=int, default=30)
    args = ap.parse_args()
    args.work = os.path.join(os.getcwd(), "diropsdrv_%d" % os.getpid())
    os.makedirs(args.work, exist_ok=True)
    inp = json.load(open(args.inp)) if args.inp else None
    rng = random.Random("%s-%d" % (args.mode, args.seed))
    try:
        if args.mode == "ops":
            out = run_ops(args, inp, rng)
        elif args.mode == "graph":
            out = run_graph(args, inp, rng)
        else:
            raise SystemExit("unknown mode %s" % args.mode)
    finally:
        shutil.rmtree(args.work, ignore_errors=True)
    with open(args.out, "w") as f:
        json.dump(out, f)


if __name__ == "__main__":
    main()
