"""Driver of real tahoe-lafs directories for the extra `dirnode_ops` (spec/dir/DirnodeMore.tla, DeepCheck.tla).

  --mode ops    histories on real directories (SimGrid, allmydata.dirnode.time pinned as in dir_driver.py):
                the C20 calls plus create_subdirectory / add_file / set_children / has_child / get /
                get_metadata_for / list / get_child_and_metadata_at_path through write- and read-only handles,
                on mutable, created and immutable directories; output = traces for TraceDirnodeMore.tla.
                The last traces are *probes*: short histories whose last call is an input on which the code is
                known to answer differently from the documented behaviour.
  --mode graph  real directory graphs (real CHK / mutable files, 2 servers, k=1 n=2) observed through a real
                _Client whose NodeMaker carries the access blacklist: blacklist file rewritten / removed with
                pinned mtimes, shares deleted, then create_node_from_uri / read / list / get_child_at_path /
                build_manifest / start_deep_check; output = traces for TraceDeepCheck.tla.

The driver never decides a verdict: it executes calls, abstracts what the code answered through fixed tables
and records it.
"""
from vreactor import vr, settle  # noqa: F401  (must be first)
import argparse, copy, json, os, random, shutil, sys

import dir_driver as dd
from dir_driver import CLK, NAMES, NAME_BACK, MDS, OW, md_concrete, md_abstract
from grid import Grid, make_full_client
from allmydata import uri as uri_mod
from allmydata.immutable import upload
from allmydata.interfaces import IDirectoryNode, IFileNode
from allmydata.util.consumer import download_to_data

CONTENTS = {"c1": b"content one of the dirnode_ops driver " * 3, "c2": b"CONTENT TWO of the dirnode_ops driver " * 4, "lit": b"tiny"}
FILE_OF = {"c1": "fc1", "c2": "fc2", "lit": "flit"}
NONE_CHILD = {"id": "none", "type": "none", "w": False}
NO_MD = {"md": "none", "hasT": False, "crt": 0, "mot": 0}


def blank():
    return {"st": "ok", "out": dict(NONE_CHILD), "upl": False, "has": False, "emd": dict(NO_MD), "missing": "", "listing": {}}


def name_abs(s):
    return NAME_BACK.get(s, "?" + s.encode("utf-8").hex())


class MWorld(dd.World):
    """dir_driver.World plus directories created during the history, immutable directories and uploaded files"""
    def __init__(self, workdir, dirs, seed=0):
        dd.World.__init__(self, workdir, dirs, seed=seed)
        self.imm = []
        self.nfresh = 0
        lit = uri_mod.LiteralFileURI(CONTENTS["lit"]).to_string()
        self.caps["flit"] = ("file", None, lit)
        self.back[(None, lit)] = {"id": "flit", "type": "file", "w": False}
        self.by_content = {v: FILE_OF[k] for k, v in CONTENTS.items()}

    def known(self, cid):
        return cid in self.caps

    def register_dir(self, node):
        key = (node.get_write_uri(), node.get_readonly_uri())
        if key in self.back:
            return self.back[key]["id"]
        self.nfresh += 1
        cid = "n%d" % self.nfresh
        rw, ro = key
        self.caps[cid] = ("dir", rw, ro)
        if rw is not None:
            self.back[(rw, ro)] = {"id": cid, "type": "dir", "w": True}
            self.ro[cid] = self.nm.create_from_cap(ro)
        else:
            self.imm.append(cid)
            self.ro[cid] = node
        self.back[(None, ro)] = {"id": cid, "type": "dir", "w": False}
        self.rw[cid] = node
        return cid

    def abstract_node(self, node):
        if node is None:
            return dict(NONE_CHILD)
        key = (node.get_write_uri(), node.get_readonly_uri())
        if key not in self.back and IFileNode.providedBy(node) and not node.is_mutable():
            # an immutable file the tables do not know: it is what it reads back as
            try:
                data = self.g.run(download_to_data(node))
            except Exception as e:
                data = b"?unreadable:" + type(e).__name__.encode()
            cid = self.by_content.get(data)
            if cid is not None:
                self.caps[cid] = ("file", None, key[1])
                self.back[(None, key[1])] = {"id": cid, "type": "file", "w": False}
        return dd.World.abstract_node(self, node)

    def entry_abs(self, child, md):
        m, hasT, crt, mot = md_abstract(md)
        return {"child": self.abstract_node(child), "md": m, "hasT": hasT, "crt": crt, "mot": mot}

    def listing_abs(self, children):
        return {name_abs(n): self.entry_abs(c, md) for n, (c, md) in children.items()}

    def cap_pair(self, child):
        typ, rw, ro = self.caps[child["id"]]
        return (rw, ro) if child["w"] else (None, ro)


def run_call(w, thunk):
    """-> (st, result, exception)"""
    try:
        return "ok", w.g.run(thunk()), None
    except Exception as e:          # the exception class is the observation
        return type(e).__name__, None, e


def do_more(w, o):
    """one call of the vocabulary of DirnodeMore.tla on the real directories -> the answer record"""
    CLK.now = o["now"]
    r = blank()
    if o["op"] in ("add", "addmany", "delete", "setmd", "move"):
        r["st"], r["out"] = dd.do_op(w, o)
        return r
    h = (w.rw if o["via"] == "rw" else w.ro)[o["d"]]
    n0 = len(w.g.calllog)
    if o["op"] == "mkdir":
        kids = {}
        for k in o["kids"]:
            kids[NAMES[k["name"]]] = (w.node(k["child"]), md_concrete(k["md"]))
        st, res, _ = run_call(w, lambda: h.create_subdirectory(NAMES[o["name"]], kids, overwrite=OW[o["ow"]], mutable=o["mutable"],
                                                                metadata=md_concrete(o["md"])))
        r["st"] = st
        if st == "ok":
            cid = w.register_dir(res)
            r["out"] = {"id": cid, "type": "dir" if IDirectoryNode.providedBy(res) else "?", "w": res.get_write_uri() is not None}
    elif o["op"] == "addfile":
        st, res, _ = run_call(w, lambda: h.add_file(NAMES[o["name"]], upload.Data(CONTENTS[o["content"]], convergence=b"dirops"),
                                                     md_concrete(o["md"]), overwrite=OW[o["ow"]]))
        r["st"] = st
        if st == "ok":
            r["out"] = w.abstract_node(res)
    elif o["op"] == "setchildren":
        entries = {}
        for it in o["items"]:
            pair = w.cap_pair(it["child"])
            entries[NAMES[it["name"]]] = pair if it["md"] == "none" else pair + (md_concrete(it["md"]),)
        r["st"], _, _ = run_call(w, lambda: h.set_children(entries, overwrite=OW[o["ow"]]))
    elif o["op"] == "has":
        st, res, _ = run_call(w, lambda: h.has_child(NAMES[o["name"]]))
        r["st"] = st
        r["has"] = bool(res) if st == "ok" else False
    elif o["op"] == "get":
        st, res, e = run_call(w, lambda: h.get(NAMES[o["name"]]))
        r["st"] = st
        if st == "ok":
            r["out"] = w.abstract_node(res)
        elif st == "NoSuchChildError":
            r["missing"] = name_abs(e.args[0])
    elif o["op"] == "getmd":
        st, res, e = run_call(w, lambda: h.get_metadata_for(NAMES[o["name"]]))
        r["st"] = st
        if st == "ok":
            r["emd"] = dict(zip(("md", "hasT", "crt", "mot"), md_abstract(res)))
        elif st == "NoSuchChildError":
            r["missing"] = name_abs(e.args[0])
    elif o["op"] == "list":
        st, res, _ = run_call(w, lambda: h.list())
        r["st"] = st
        if st == "ok":
            r["listing"] = w.listing_abs(res)
    elif o["op"] == "path":
        path = [NAMES[p] for p in o["path"]]
        arg = "/".join(path) if o.get("as_string") else path
        st, res, e = run_call(w, lambda: h.get_child_and_metadata_at_path(arg))
        r["st"] = st
        if st == "ok":
            node, md = res
            r["out"] = w.abstract_node(node)
            r["emd"] = dict(zip(("md", "hasT", "crt", "mot"), md_abstract(md)))
        elif st == "NoSuchChildError":
            r["missing"] = name_abs(e.args[0])
    else:
        raise ValueError(o["op"])
    if o["op"] == "addfile":        # did the call ask storage servers for room (an upload started)?
        r["upl"] = any(c["meth"] == "allocate_buckets" for c in w.g.calllog[n0:])
    return r


# ---------------------------------------------------------------- scenario generation (inputs only)
def norm(n):
    return {"e2": "e1", "k2": "k1"}.get(n, n)


class OpsGen(dd.C20Gen):
    """Seeded generator of calls.  Like C20Gen it looks at the last listing only to aim names and paths at entries that
    exist (or do not); it never predicts an outcome.  It stays away from the inputs of the probe traces (see PROBES)."""
    def __init__(self, rng, big):
        dd.C20Gen.__init__(self, rng, big)
        self.mut = list(self.dirs)
        self.immd = []
        self.files = []

    def learn(self, w):
        for cid in w.rw:
            if cid in w.imm:
                if cid not in self.immd:
                    self.immd.append(cid)
                    self.kids.append({"id": cid, "type": "dir", "w": False})
            elif cid not in self.mut:
                self.mut.append(cid)
                self.dirs.append(cid)
                self.kids.append({"id": cid, "type": "dir", "w": True})
                self.kids.append({"id": cid, "type": "dir", "w": False})
        for cid in ("fc1", "fc2", "flit"):
            if w.known(cid) and cid not in self.files:
                self.files.append(cid)
                self.kids.append({"id": cid, "type": "file", "w": False})

    def target(self, write):
        rng = self.rng
        if self.immd and rng.random() < (0.06 if write else 0.25):
            return rng.choice(self.immd)
        return rng.choice(self.mut)

    def deep_imm_kid(self):
        c = [k for k in self.kids if (k["type"] == "file" and k["id"] in ("f1", "f2", "fc1", "fc2", "flit")) or k["id"] in self.immd]
        return self.rng.choice(c)

    def more(self, obs):
        rng = self.rng
        x = rng.random()
        if x < 0.30:
            o = dd.C20Gen.op(self, obs)
            if rng.random() < 0.05 and self.immd:
                o["d"] = rng.choice(self.immd)
            return o
        self.now += rng.choice([0, 1, 1, 2, 5])
        ow = rng.choice(["true", "true", "false", "only_files"])
        if x < 0.50:
            d = self.target(True)
            mutable = rng.random() < 0.55
            kids, seen = [], set()
            for _ in range(rng.choice([0, 0, 1, 2, 3])):
                n = rng.choice(self.names)
                if n in seen:
                    continue
                seen.add(n)
                child = rng.choice(self.kids) if (mutable or rng.random() < 0.2) else self.deep_imm_kid()
                md = rng.choice(["m0", "m1", "m2", "ct", "mt", "nw"])
                if md == "nw" and child["w"]:
                    md = "m1"               # probe "mkdir_nowrite_child"
                kids.append({"name": n, "child": child, "md": md})
            o = {"op": "mkdir", "d": d, "via": "ro" if rng.random() < 0.05 else "rw", "name": self.raw_for(d, obs, rng.random() < 0.35),
                 "kids": kids, "ow": ow, "mutable": mutable, "md": rng.choice(["keep", "keep", "keep", "m1", "nw", "mt"])}
        elif x < 0.60:
            d = self.target(True)
            o = {"op": "addfile", "d": d, "via": "ro" if rng.random() < 0.12 else "rw", "name": self.raw_for(d, obs, rng.random() < 0.4),
                 "content": rng.choice(["c1", "c2", "lit"]), "md": rng.choice(["keep", "keep", "m1", "nw"]), "ow": ow}
        elif x < 0.70:
            d = rng.choice(self.mut)        # read-only / immutable: probes "setchildren_readonly", "setchildren_immutable"
            items, seen = [], set()
            for _ in range(rng.choice([1, 2, 2, 3])):
                n = rng.choice(self.names)
                if n in seen:
                    continue
                seen.add(n)
                items.append({"name": n, "child": rng.choice(self.kids), "md": rng.choice(["none", "none", "m1", "m2", "nw", "mt"])})
            o = {"op": "setchildren", "d": d, "via": "rw", "items": items, "ow": ow}
        else:
            d = self.target(False)
            via = "ro" if rng.random() < 0.3 else "rw"
            k = rng.choice(["has", "get", "getmd", "list", "path", "path", "path"])
            if k == "getmd" and not obs[d]:
                k = "has"                   # a missing name: probe "getmd_missing"
            if k in ("has", "get"):
                o = {"op": k, "d": d, "via": via, "name": self.raw_for(d, obs, rng.random() < 0.7)}
            elif k == "getmd":
                o = {"op": k, "d": d, "via": via, "name": self.raw_for(d, obs, True)}
            elif k == "list":
                o = {"op": k, "d": d, "via": via}
            else:
                o = {"op": "path", "d": d, "via": via, "path": self.path_for(d, obs), "as_string": rng.random() < 0.4}
                if not o["path"]:
                    o["as_string"] = rng.random() < 0.5
        o["now"] = self.now
        return o

    def path_for(self, d, obs):
        """a path of 0-4 names that follows existing links through directories, or leaves them at some point
        (never through something that is not a directory: probes "path_through_file", "path_through_unknown")"""
        rng = self.rng
        path, cur = [], d
        for _ in range(rng.choice([0, 1, 1, 2, 2, 3, 4])):
            present = [n for n in self.names if norm(n) in obs[cur]]
            if present and rng.random() < 0.88:
                n = rng.choice(present)
                path.append(n)
                c = obs[cur][norm(n)]["child"]
                if c["type"] == "dir" and c["id"] in obs:
                    cur = c["id"]
                else:
                    break
            else:
                absent = [n for n in self.names if norm(n) not in obs[cur]] or self.names
                path.append(rng.choice(absent))
                for _ in range(rng.choice([0, 0, 1])):
                    path.append(rng.choice(self.names))
                break
        return path


F1 = {"id": "f1", "type": "file", "w": False}
G1W = {"id": "g1", "type": "file", "w": True}
U1 = {"id": "u1", "type": "unknown", "w": False}
# inputs on which the real code answers differently from the documented behaviour; always the last call of its trace
PROBES = {
    "setchildren_readonly": [{"op": "setchildren", "d": "d1", "via": "ro", "items": [{"name": "a", "child": F1, "md": "none"}], "ow": "true"}],
    "setchildren_immutable": [
        {"op": "mkdir", "d": "d1", "via": "rw", "name": "a", "kids": [], "ow": "true", "mutable": False, "md": "keep"},
        {"op": "setchildren", "d": "n1", "via": "rw", "items": [{"name": "a", "child": F1, "md": "none"}], "ow": "true"}],
    "getmd_missing": [{"op": "getmd", "d": "d1", "via": "rw", "name": "a"}],
    "path_through_file": [
        {"op": "add", "d": "d1", "via": "rw", "name": "a", "child": F1, "md": "keep", "ow": "true"},
        {"op": "path", "d": "d1", "via": "rw", "path": ["a", "e1"], "as_string": False}],
    "path_through_unknown": [
        {"op": "add", "d": "d1", "via": "rw", "name": "a", "child": U1, "md": "keep", "ow": "true"},
        {"op": "path", "d": "d1", "via": "rw", "path": ["a", "e1"], "as_string": True}],
    "mkdir_nowrite_child": [
        {"op": "mkdir", "d": "d1", "via": "rw", "name": "a", "kids": [{"name": "e1", "child": G1W, "md": "nw"}], "ow": "true", "mutable": True,
         "md": "keep"}],
}


def run_ops(args, inp, rng):
    scenarios = list((inp or {}).get("scenarios", []))
    for i in range(args.n):
        scenarios.append({"gen": rng.randint(max(4, args.len // 2), args.len)})
    if not (inp or {}).get("no_probes"):
        for name, ops in sorted(PROBES.items()):
            ops = copy.deepcopy(ops)
            for i, o in enumerate(ops):
                o["now"] = 20 + i
            scenarios.append({"consts": {"init": {"d1": {}, "d2": {}}}, "ops": ops, "src": "probe:" + name})
    traces = []
    for si, sc in enumerate(scenarios):
        wd = os.path.join(args.work, "ops_%d" % si)
        gen = None
        if "gen" in sc:
            gen = OpsGen(rng, args.tier != "quick")
            sc = {"consts": {"init": gen.init()}, "ops": [None] * sc["gen"], "src": "seeded"}
        init = sc["consts"]["init"]
        w = MWorld(wd, sorted(init.keys()), seed=args.seed)
        try:
            for d, entries in init.items():
                if entries:
                    w.set_contents(d, entries)
            obs = w.observe()
            if obs != init:
                raise RuntimeError("initial contents not established: %r vs %r" % (obs, init))
            events = []
            for o in sc["ops"]:
                if o is None:
                    if len(w.rw) >= 12:       # enough directories created: the C20 calls and the reads go on
                        for _ in range(50):
                            o = gen.more(obs)
                            if o["op"] != "mkdir":
                                break
                    else:
                        o = gen.more(obs)
                r = do_more(w, o)
                obs = w.observe()
                if gen is not None:
                    gen.learn(w)
                e = dict(o)
                e.update(r)
                e["obs"], e["imm"] = obs, list(w.imm)
                events.append(e)
            traces.append({"consts": sc["consts"], "events": events, "src": sc.get("src", "given")})
        finally:
            w.close()
            shutil.rmtree(wd, ignore_errors=True)
    return traces


def main():
    ap = argparse.ArgumentParser()
    ap.add_argument("--out", required=True)
    ap.add_argument("--in", dest="inp")
    ap.add_argument("--seed", type=int, default=0)
    ap.add_argument("--tier", default="quick")
    ap.add_argument("--mode", required=True)
    ap.add_argument("--n", type=int, default=10)
    ap.add_argument("--len", type=int, default=30)
    args = ap.parse_args()
    args.work = os.path.join(os.getcwd(), "diropsdrv_%d" % os.getpid())
    os.makedirs(args.work, exist_ok=True)
    inp = json.load(open(args.inp)) if args.inp else None
    rng = random.Random("%s-%d" % (args.mode, args.seed))
    try:
        if args.mode == "ops":
            out = run_ops(args, inp, rng)
        elif args.mode == "graph":
            out = run_graph(args, inp, rng)
        else:
            raise SystemExit("unknown mode %s" % args.mode)
    finally:
        shutil.rmtree(args.work, ignore_errors=True)
    with open(args.out, "w") as f:
        json.dump(out, f)


if __name__ == "__main__":
    main()
