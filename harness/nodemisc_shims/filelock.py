"""Stand-in for the `filelock` package (not installed here), used ONLY by harness/nodemisc_driver.py
(this directory is put on sys.path by that driver, nobody else sees it).  allmydata.util.pid uses
`with FileLock(path, timeout=...)` and catches `Timeout`.  The driver scripts whether "another process"
holds the lock through `HELD`: a held lock makes acquisition time out at once (virtual waiting), the way
the real library does after `timeout` seconds."""
import os

HELD = set()          # lock paths currently held by "somebody else"
ACQUIRED = []         # log of (path, timeout) acquisitions that succeeded


class Timeout(TimeoutError):
    def __init__(self, lock_file):
        super().__init__(lock_file)
        self.lock_file = lock_file


class FileLock:
    def __init__(self, lock_file, timeout=-1):
        self.lock_file = os.fspath(lock_file)
        self.timeout = timeout

    def __enter__(self):
        if self.lock_file in HELD:
            if self.timeout is None or self.timeout < 0:
                raise RuntimeError("nodemisc filelock stand-in: would block forever on %s" % self.lock_file)
            raise Timeout(self.lock_file)
        with open(self.lock_file, "a"):
            pass
        ACQUIRED.append((self.lock_file, self.timeout))
        return self

    def __exit__(self, *a):
        return False
