"""C08, call site "upload decisions": replay the cases of spec/immutable/GenEncoderLoss.tla on a real Encoder.

One case = which server every share is written to / found on already, `happy`, and the writers that are lost one after
the other.  The real immutable Encoder (set_encrypted_uploadable, set_shareholders, start) runs a one-segment upload
(k = 1) against recording fake IStorageBucketWriters (harness/encoder_driver.py); the j-th writer of the sequence fails
in a phase of its own (phases increasing, chosen by seed), so the order of the losses is the case's order.  Recorded:
how the upload ended (verify cap / exception class), how many writer calls failed before it ended, which shares the
Encoder says it placed.  Nothing is judged here."""
import argparse, json, random

from vreactor import vr  # noqa: F401  (must be first)
from twisted.python.failure import Failure
import encoder_driver as ed

NPHASES = 7      # put_header, put_block(0), put_crypttext_hashes, put_block_hashes, put_share_hashes, put_uri_extension, close


def run_case(case, rng, idx):
    cfg = case["cfg"]
    shares = sorted(int(s) for s in cfg)
    n = len(shares)
    writers = [sh for sh in shares if cfg[str(sh)]["w"] != 0]
    phases = sorted(rng.sample(range(NPHASES), len(case["seq"])))
    fail_at = {sh: -1 for sh in shares}
    for sh, ph in zip(case["seq"], phases):
        fail_at[sh] = ph
    sc = {"k": 1, "n": n, "seg": 1, "size": 1, "happy": case["happy"], "writers": writers,
          "peers": [("s%d" % cfg[str(sh)]["w"]) if cfg[str(sh)]["w"] else "-" for sh in shares],
          "smap0": [sorted(set(["s%d" % x for x in cfg[str(sh)]["pre"]] + (["s%d" % cfg[str(sh)]["w"]] if cfg[str(sh)]["w"] else [])))
                    for sh in shares],
          "mode": "sync", "fail_at": [fail_at[sh] for sh in shares], "user_abort": -1, "idx": idx}
    out = {"phases": phases}
    try:
        world = ed.run_one(sc, 0)
    except Exception as ex:         # the Encoder (not a writer) raised: an observation
        out.update(kind="raised", cls=type(ex).__name__, msg=str(ex)[:200], failed=-1, placed=[])
        return out
    res = [e for e in world.events if e.get("ev") == "result"]
    failed = sum(1 for e in world.events if e.get("ev") == "ret" and not e["ok"])
    if not res:
        out.update(kind="none", cls="", failed=failed, placed=[])
    elif res[0]["kind"] == "success":
        out.update(kind="success", cls="", failed=failed, placed=sorted(res[0]["placed"]))
    else:
        out.update(kind="failure", cls=res[0]["cls"], msg=res[0]["msg"], failed=failed, placed=[])
    return out


def main():
    ap = argparse.ArgumentParser()
    ap.add_argument("--out"); ap.add_argument("--in", dest="inp")
    ap.add_argument("--seed", type=int, default=0); ap.add_argument("--tier", default="quick")
    a = ap.parse_args()
    cases = json.load(open(a.inp))["cases"]
    rng = random.Random("encloss-%d" % a.seed)
    out = [run_case(c, rng, i) for i, c in enumerate(cases)]
    json.dump({"results": out}, open(a.out, "w"))


if __name__ == "__main__":
    main()
