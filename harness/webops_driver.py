"""X-webapi_ops driver: histories of web API *write* requests (docs/frontends/webapi.rst) against the real web
server -- allmydata.web.root.Root inside a real WebishServer on a real _Client on the SimGrid (harness/webgrid.py) --
recorded in the vocabulary of spec/frontends/WebOps.tla for spec/frontends/TraceWebOps.tla.

Per request: the HTTP status, the object whose cap the body / the Location header carries, whether the response
redirects to when_done=, and afterwards GET ?t=json of *every* directory the driver knows (the two it created at the
start, every directory a response or a listing ever showed) plus GET / GET ?t=json of every mutable file it knows.
`allmydata.dirnode.time` is pinned (dir_driver.CLK), one tick per request.

The driver never decides a verdict.  It renders abstract requests as HTTP, abstracts caps to object identities
(storage index / literal cap -> "d1", "n3", "h1", immutable files by reading them back -> "fc1", ...), names to the
Spec's names and metadata to the Spec's metadata values through the fixed tables of dir_driver.py.  New identities
are numbered in the order they are met along the request's path, then in the response, then anywhere else.
The generator looks at the last listing only to aim names at present / absent entries and to stay away from the
input classes on which the code is known to deviate from the document; those classes are run as PROBES, one short
history each (src "probe:<name>").
"""
from vreactor import vr, settle  # noqa: F401  (must be first)
import argparse, hashlib, json, os, random, re, sys, unicodedata
from urllib.parse import unquote

from webgrid import WebGrid, q as quote
import dir_driver  # noqa: F401  (pins allmydata.dirnode.time)
from dir_driver import CLK, NAMES, NAME_BACK, MDS, md_abstract, fake_key
from web_auth_driver import multipart
from allmydata import uri as uri_mod
from allmydata.interfaces import IDirnodeURI
from allmydata.storage.common import storage_index_to_dir

CONTENT = {"c1": b"contents one " + bytes(range(32, 100)), "c2": b"contents two " + bytes(range(40, 120)), "lit": b"lit!"}   # ASCII
CONTENT_BACK = {v: k for k, v in CONTENT.items()}
FILE_ID = {"c1": "fc1", "c2": "fc2", "lit": "flit"}
NOCHILD = {"id": "none", "type": "none", "w": False}
WHEN_DONE = "/done/here"
CAP_RE = re.compile(r"URI:(?:CHK|LIT|SSK|SSK-RO|MDMF|MDMF-RO|DIR2|DIR2-RO|DIR2-CHK|DIR2-LIT|DIR2-MDMF|DIR2-MDMF-RO):[a-z0-9:]*")
REPLACE = {"true": "true", "false": "false", "only_files": "only-files", "bad": "maybe"}
FORMAT = {"chk": "format=CHK", "sdmf": "format=sdmf", "mdmf": "format=MDMF", "mutable": "mutable=true", "bad": "format=foo"}

Q0 = {"op": "bad_t", "method": "GET", "t": "", "d": "d1", "via": "rw", "path": [], "name": "", "replace": "none", "overwrite": "none",
      "format": "none", "content": "c1", "kids": [], "json": "ok", "cap": NOCHILD, "to_d": "", "to_via": "rw", "to_path": [],
      "to_name": "", "when_done": False}
PATH_SLOT = ("put_file", "put_uri", "mkdir", "mkdirc", "mkdiri", "upload_at", "delete", "get", "get_json")
UNLINKED = ("put_unlinked", "post_unlinked", "mkdir_unlinked", "mkdirc_unlinked", "mkdiri_unlinked")


def Q(op, method, **kw):
    r = dict(Q0, op=op, method=method)
    r.update(kw)
    return r


def nfc(raw):
    return unicodedata.normalize("NFC", NAMES[raw])


def norm_abs(raw):
    return NAME_BACK[nfc(raw)]


class Web:
    """One fresh grid + gateway; the table of object identities; the observations."""
    def __init__(self, seed):
        self.w = WebGrid(num_servers=2, k=1, n=2, happy=1, max_segment_size=16, seed=seed)
        # the grid's pre-generated RSA keys instead of a fresh 2048-bit key per mutable object
        self.w.client._key_generator = self.w.g.keypool
        self.w.client.nodemaker.key_generator = self.w.g.keypool
        self.ids = {}        # identity key -> {"id", "type", "imm"}
        self.caps = {}       # id -> {"rw": str|None, "ro": str}
        self.dirs, self.mfiles, self.imm = [], [], []
        self.dirpool = ["d1", "d2"] + ["n%d" % i for i in range(1, 200)]
        self.filepool = ["h%d" % i for i in range(1, 100)]
        self.reads = 0
        # a file whose shares are nowhere (410 Gone when read)
        f2 = uri_mod.CHKFileURI(fake_key(b"k"), fake_key(b"u", 32), 1, 2, 1234).to_string().decode()
        self.ids[uri_mod.from_string(f2.encode()).get_verify_cap().to_string().decode()] = {"id": "f2", "type": "file"}
        self.caps["f2"] = {"rw": None, "ro": f2}
        self.D = {}          # last observation
        self.MF = {}
        self.cache = {}      # ("dir"|"mf", id) -> (share signature, answer)
        self.full = True     # observe everything with real requests (else: only objects whose share files changed)
        self.stale = 0

    def close(self):
        self.w.close()

    def request(self, method, path, headers=None, body=None):
        try:
            return self.w.request(method, path, headers=headers, body=body, max_steps=4000)
        except Exception as e:       # a dropped connection is an observation
            class _R:
                code, body, headers, error = 599, b"", {}, "%s: %s" % (type(e).__name__, str(e)[:200])
                def header(self, n):
                    return None
            return _R()

    # ---------------------------------------------------------------- identities
    def fresh(self):
        return {"dirs": self.dirpool[len(self.dirs):len(self.dirs) + 6], "files": self.filepool[len(self.mfiles):len(self.mfiles) + 2]}

    def abstract(self, cap):
        """cap string -> {"id", "type", "w"}; an object not seen before gets the next identity"""
        if isinstance(cap, bytes):
            cap = cap.decode("utf-8", "replace")
        try:
            u = uri_mod.from_string(cap.encode("utf-8"))
        except Exception:
            u = None
        if u is None or isinstance(u, uri_mod.UnknownURI) or not hasattr(u, "is_readonly"):
            return {"id": "?" + cap[:24], "type": "?", "w": False}
        kind = "dir" if IDirnodeURI.providedBy(u) else "file"
        w = not u.is_readonly()
        v = u.get_verify_cap()
        key = v.to_string().decode() if v is not None else cap
        ro = u.get_readonly().to_string().decode()
        if key not in self.ids:
            if kind == "dir":
                oid = self.dirpool[len(self.dirs)]
                self.dirs.append(oid)
                if not u.is_mutable():
                    self.imm.append(oid)
            elif u.is_mutable():
                oid = self.filepool[len(self.mfiles)]
                self.mfiles.append(oid)
            else:
                # an immutable file is its contents: read it back
                r = self.request("GET", "/uri/" + quote(cap))
                self.reads += 1
                oid = FILE_ID.get(CONTENT_BACK.get(r.body), "?imm%d:%s" % (r.code, r.body[:8].hex())) if r.code == 200 else "?unreadable%d" % r.code
            self.ids[key] = {"id": oid, "type": kind}
            self.caps[oid] = {"rw": None, "ro": ro}
        e = self.ids[key]
        if w and self.caps[e["id"]]["rw"] is None:
            self.caps[e["id"]]["rw"] = cap
        return {"id": e["id"], "type": e["type"], "w": w}

    def cap_of(self, child):
        c = self.caps[child["id"]]
        return c["rw"] if child["w"] else c["ro"]

    def known_children(self):
        """objects the generator can link: [id, type, w] for every cap the driver holds"""
        out = []
        for oid, c in self.caps.items():
            typ = "dir" if oid in self.dirs else "file"
            out.append({"id": oid, "type": typ, "w": False})
            if c["rw"]:
                out.append({"id": oid, "type": typ, "w": True})
        return out

    # ---------------------------------------------------------------- observations
    def signature(self, oid):
        """digest of the share files of object oid on every server (None: literal, nothing on the grid)"""
        c = self.caps[oid]
        si = uri_mod.from_string((c["rw"] or c["ro"]).encode()).get_storage_index()
        if si is None:
            return None
        h = hashlib.sha256()
        for sname, srv in sorted(self.w.g.servers.items()):
            d = os.path.join(srv.ss.sharedir, storage_index_to_dir(si))
            if os.path.isdir(d):
                for fn in sorted(os.listdir(d)):
                    with open(os.path.join(d, fn), "rb") as f:
                        h.update(("%s/%s:" % (sname, fn)).encode() + f.read())
        return h.hexdigest()

    def cached(self, kind, oid, thunk):
        """the answer of a read request; between full observations an object whose share files did not change is
        not asked again (a full observation checks that the answers kept are the ones the server gives)"""
        sig = self.signature(oid)
        hit = self.cache.get((kind, oid))
        if hit is not None and sig is not None and hit[0] == sig and not self.full:
            return hit[1]
        ans = thunk()
        if hit is not None and hit[0] == sig and sig is not None and json.dumps(hit[1], sort_keys=True) != json.dumps(ans, sort_keys=True):
            self.stale += 1
        self.cache[(kind, oid)] = (sig, ans)
        return ans

    def list_dir(self, oid, first=None):
        return json.loads(json.dumps(self.cached("dir", oid, lambda: self._list_dir(oid, first))))

    def _list_dir(self, oid, first=None):
        c = self.caps[oid]
        r = self.request("GET", "/uri/" + quote(c["rw"] or c["ro"]) + "?t=json")
        self.reads += 1
        if r.code != 200:
            return {"?unlistable%d" % r.code: {"child": dict(NOCHILD), "md": "m0", "hasT": False, "crt": 0, "mot": 0}}
        kind, info = json.loads(r.body)
        kids = info["children"]
        names = sorted(kids)
        if first in kids:
            names.remove(first)
            names.insert(0, first)
        out = {}
        for name in names:
            typ, ci = kids[name]
            a = self.abstract(ci.get("rw_uri") or ci.get("ro_uri") or "")
            if {"dirnode": "dir", "filenode": "file"}.get(typ) != a["type"]:
                a["type"] = "?" + typ
            m, hasT, crt, mot = md_abstract(ci.get("metadata", {}))
            out[NAME_BACK.get(name, "?" + name.encode("utf-8").hex())] = {"child": a, "md": m, "hasT": hasT, "crt": crt, "mot": mot}
        return out

    def observe(self, q, resp_cap):
        """listings of every known directory; identities are met along q's path first, then in the response"""
        seen = {}
        if q["op"] not in UNLINKED and q["d"] in self.caps:
            names = list(q["path"]) + ([q["name"]] if q["op"] not in PATH_SLOT and q["name"] else [])
            cur = q["d"]
            for raw in names:
                if cur not in seen:
                    seen[cur] = self.list_dir(cur, first=nfc(raw))
                e = seen[cur].get(norm_abs(raw))
                if e is None or e["child"]["type"] != "dir" or e["child"]["id"] not in self.caps:
                    break
                cur = e["child"]["id"]
        out = dict(NOCHILD)
        if resp_cap:
            out = self.abstract(resp_cap)
        i = 0
        while i < len(self.dirs):
            d = self.dirs[i]
            if d not in seen:
                seen[d] = self.list_dir(d)
            i += 1
        mf = {}
        for g in self.mfiles:
            mf[g] = dict(self.cached("mf", g, lambda: self._read_mutable(g)))
        self.D, self.MF = seen, mf
        return out, {d: seen[d] for d in self.dirs}, list(self.imm), mf

    def _read_mutable(self, g):
        c = self.caps[g]
        cap = c["rw"] or c["ro"]
        r = self.request("GET", "/uri/" + quote(cap))
        r2 = self.request("GET", "/uri/" + quote(cap) + "?t=json")
        self.reads += 2
        fmt = "?"
        if r2.code == 200:
            fmt = str(json.loads(r2.body)[1].get("format", "?")).lower()
        return {"c": CONTENT_BACK.get(r.body, "?%d:%s" % (r.code, r.body[:8].hex())) if r.code == 200 else "?unreadable%d" % r.code, "fmt": fmt}

    # ---------------------------------------------------------------- abstract request -> HTTP
    def kids_json(self, kids):
        o = {}
        for k in kids:
            c = self.caps[k["child"]["id"]]
            info = {}
            if k["child"]["w"]:
                info["rw_uri"] = c["rw"]
            info["ro_uri"] = c["ro"]
            if k["md"] != "none":
                info["metadata"] = json.loads(json.dumps(MDS[k["md"]]))
            o[NAMES[k["name"]]] = ["dirnode" if k["child"]["type"] == "dir" else "filenode", info]
        return json.dumps(o).encode()

    def http(self, q):
        op = q["op"]
        args, body, headers = [], None, {}
        if op in UNLINKED:
            url = "/uri"
        else:
            c = self.caps[q["d"]]
            url = "/uri/" + quote(c["rw"] if q["via"] == "rw" else c["ro"]) + "".join("/" + quote(NAMES[n]) for n in q["path"])
        t = {"put_uri": "uri", "post_uri": "uri", "mkdir": "mkdir", "mkdir_named": "mkdir", "mkdir_unlinked": "mkdir",
             "mkdirc": "mkdir-with-children", "mkdirc_named": "mkdir-with-children", "mkdirc_unlinked": "mkdir-with-children",
             "mkdiri": "mkdir-immutable", "mkdiri_named": "mkdir-immutable", "mkdiri_unlinked": "mkdir-immutable",
             "upload": "upload", "upload_at": "upload", "post_unlinked": "upload", "set_children": "set_children",
             "post_delete": "delete", "rename": "rename", "relink": "relink", "get_json": "json", "bad_t": "bogus"}.get(op, "")
        if q["t"]:
            t = q["t"]
        if t:
            args.append("t=" + t)
        if q["replace"] != "none":
            args.append("replace=" + REPLACE[q["replace"]])
        if q["overwrite"] != "none":
            args.append("overwrite=" + REPLACE[q["overwrite"]])
        if q["format"] != "none":
            args.append(FORMAT[q["format"]])
        if op in ("mkdir_named", "mkdirc_named", "mkdiri_named", "upload", "post_uri", "post_delete") and q["name"]:
            args.append("name=" + quote(NAMES[q["name"]]))
        if op in ("rename", "relink"):
            if q["name"]:
                args.append("from_name=" + quote(NAMES[q["name"]]))
            if q["to_name"]:
                args.append("to_name=" + quote(NAMES[q["to_name"]]))
            if q["to_d"]:
                c = self.caps[q["to_d"]]
                args.append("to_dir=" + quote((c["rw"] if q["to_via"] == "rw" else c["ro"]) + "".join("/" + NAMES[n] for n in q["to_path"])))
        if op in ("put_file", "put_unlinked"):
            body = CONTENT[q["content"]]
        elif op in ("upload", "upload_at", "post_unlinked"):
            body, ct = multipart({}, {"file": ("upl.bin", CONTENT[q["content"]].decode("latin-1"))})
            headers["Content-Type"] = ct
        elif op == "put_uri":
            body = b"this is not a cap" if q["cap"]["type"] == "junk" else self.cap_of(q["cap"]).encode()
        elif op == "post_uri":
            args.append("uri=" + quote("this is not a cap" if q["cap"]["type"] == "junk" else self.cap_of(q["cap"])))
        elif op in ("mkdirc", "mkdirc_named", "mkdirc_unlinked", "mkdiri", "mkdiri_named", "mkdiri_unlinked", "set_children"):
            body = b"{this is not JSON" if q["json"] == "junk" else (self.kids_json(q["kids"]) if (q["kids"] or op == "set_children") else b"")
        if q["when_done"]:
            args.append("when_done=" + quote(WHEN_DONE + ("/%(uri)s" if op == "post_unlinked" else "")))
            if op == "post_unlinked" and q["t"] != "noport":
                url = ":3456" + url       # a Host with a port (see notes: url_for_string fails without one)
        if q["t"] == "noport":
            args = [a for a in args if a != "t=noport"] + ["t=upload"]
        return q["method"], url + ("?" + "&".join(args) if args else ""), headers, body

    # ---------------------------------------------------------------- one request
    def do(self, q, now, full=True):
        CLK.now = now
        self.full = full
        fresh = self.fresh()
        method, url, headers, body = self.http(q)
        r = self.request(method, url, headers=headers or None, body=body)
        text = r.body.decode("latin-1")
        loc = r.header("location") or ""
        redir = 300 <= r.code < 400 and WHEN_DONE in unquote(loc)
        kind, served, cap = "", "", None
        if q["op"] == "get_json" and r.code == 200:
            try:
                kind, info = json.loads(r.body)
                cap = info.get("rw_uri") or info.get("ro_uri")
            except Exception:
                kind = "?unparseable"
        elif q["op"] == "get":
            if r.code == 200 and q["path"]:
                served = CONTENT_BACK.get(r.body, "" if text.lstrip().startswith("<") else "?" + r.body[:8].hex())
        elif r.code < 400:
            m = CAP_RE.search(unquote(loc) if redir else text)
            if m and (redir or len(text) < 400 or q["op"] == "post_unlinked"):
                cap = m.group(0)
        out, obs, imm, mf = self.observe(q, cap)
        shown = url
        for oid, c in self.caps.items():
            for lvl in ("rw", "ro"):
                if c[lvl]:
                    shown = shown.replace(quote(c[lvl]), "$%s.%s" % (oid, lvl))
        return {"q": q, "fresh": fresh, "now": now, "code": r.code, "out": out, "redir": bool(redir), "kind": kind, "body": served,
                "obs": obs, "imm": imm, "mf": mf, "http": "%s %s" % (method, shown), "text": text[:160]}


PREAMBLE = [Q("mkdir_unlinked", "POST"), Q("mkdir_unlinked", "PUT"), Q("put_unlinked", "PUT", content="c1"),
            Q("put_unlinked", "PUT", content="c2", format="chk"), Q("put_unlinked", "PUT", content="lit")]


# -------------------------------------------------------------------- generator (inputs only)
class Gen:
    def __init__(self, rng, web, big):
        self.rng, self.web = rng, web
        self.names = ["a", "b", "e1", "e2"] + (["k1", "k2"] if big and rng.random() < 0.4 else [])

    # what the last listing shows at (d, path): ("dir", id) | ("missing", depth) | ("file", depth)
    def look(self, d, path):
        cur = d
        for i, raw in enumerate(path):
            e = self.web.D.get(cur, {}).get(norm_abs(raw))
            if e is None:
                return ("missing", i)
            c = e["child"]
            if c["type"] != "dir":
                return ("file", i)
            if not c["w"] or c["id"] in self.web.imm or c["id"] not in self.web.D:
                return ("ro", i)
            cur = c["id"]
        return ("dir", cur)

    def slot_kind(self, d, name):
        e = self.web.D.get(d, {}).get(norm_abs(name))
        if e is None:
            return "absent"
        c = e["child"]
        if c["type"] == "dir":
            return "dir"
        if c["id"] in self.web.MF:
            return "mfile_w" if c["w"] else "mfile_ro"
        return "ifile" if c["type"] == "file" else "other"

    def dir_path(self):
        """a start directory and a path of names: mostly existing rw directories, sometimes a missing tail, rarely a file"""
        rng = self.rng
        d = rng.choice(["d1", "d2"])
        path, cur = [], d
        while len(path) < 2 and rng.random() < 0.55:
            subs = [n for n, e in self.web.D.get(cur, {}).items() if e["child"]["type"] == "dir" and e["child"]["w"]
                    and e["child"]["id"] not in self.web.imm and e["child"]["id"] in self.web.D and n in NAMES]
            if not subs:
                break
            n = rng.choice(subs)
            path.append(rng.choice([n, "e2"]) if n == "e1" else n)
            cur = self.web.D[cur][n]["child"]["id"]
        x = rng.random()
        if x < 0.30:
            for _ in range(rng.choice([1, 1, 2])):
                path.append(rng.choice(self.names))
        elif x < 0.38:
            files = [n for n, e in self.web.D.get(cur, {}).items() if e["child"]["type"] == "file" and n in NAMES]
            if files:
                path.append(rng.choice(files))
                if rng.random() < 0.5:
                    path.append(rng.choice(self.names))
        return d, path

    def name_in(self, look):
        rng = self.rng
        if look[0] == "dir" and self.web.D.get(look[1]) and rng.random() < 0.6:
            n = rng.choice(sorted(self.web.D[look[1]]))
            if n in NAMES:
                return rng.choice([n, "e2"]) if n == "e1" else n
        return rng.choice(self.names)

    def child(self, want=None):
        cs = [c for c in self.web.known_children() if (want is None or c["type"] == want)]
        return dict(self.rng.choice(cs))

    def kids(self, immutable=False, allow_empty=True):
        rng = self.rng
        out = []
        names = rng.sample(self.names, len(self.names))      # a JSON object: every raw name once
        for _ in range(rng.choice([0, 1, 1, 2, 3] if allow_empty else [1, 1, 2, 3])):
            c = self.child()
            if immutable and rng.random() < 0.8:
                c = {"id": rng.choice(["fc1", "fc2", "flit"] + self.web.imm), "type": "file", "w": False}
                c["type"] = "dir" if c["id"] in self.web.imm else "file"
            out.append({"name": names.pop(), "child": c, "md": rng.choice(["none", "m0", "m1", "m2", "ct", "mt"])})
        return out

    def candidate(self):
        rng = self.rng
        op = rng.choice(["put_file"] * 5 + ["put_uri"] * 3 + ["mkdir"] * 3 + ["mkdir_named"] * 2 + ["mkdirc", "mkdirc_named", "mkdiri", "mkdiri_named"]
                        + ["upload"] * 3 + ["upload_at"] + ["post_uri"] * 2 + ["set_children"] * 2 + ["delete"] * 2 + ["post_delete"] * 2
                        + ["rename"] * 2 + ["relink"] * 3 + ["get", "get_json"] + ["put_unlinked", "post_unlinked", "mkdir_unlinked",
                                                                                   "mkdirc_unlinked", "mkdiri_unlinked"] + ["bad"] * 2)
        rep3 = lambda: rng.choice(["none", "true", "false", "false", "only_files", "only_files"])
        rep2 = lambda: rng.choice(["none", "true", "false", "false"])
        fmt = lambda: rng.choice(["none", "none", "chk", "sdmf", "mdmf", "mutable"])
        content = lambda: rng.choice(["c1", "c2", "lit"])
        if op in UNLINKED:
            if op == "put_unlinked":
                return Q(op, "PUT", format=fmt(), content=content())
            if op == "post_unlinked":
                return Q(op, "POST", format=fmt(), content=content(), when_done=rng.random() < 0.4)
            if op == "mkdir_unlinked":
                return Q(op, rng.choice(["PUT", "POST"]), format=rng.choice(["none", "sdmf", "mdmf", "chk"]))
            if op == "mkdirc_unlinked":
                return Q(op, "POST", kids=[k for k in self.kids()])
            return Q(op, "POST", kids=self.kids(immutable=True, allow_empty=False))
        d, path = self.dir_path()
        if op in PATH_SLOT or op == "bad":
            if not path or (self.look(d, path)[0] == "dir" and rng.random() < 0.7):
                path = path + [self.name_in(self.look(d, path))]
        look = self.look(d, path)
        if op == "bad":
            k = rng.choice(["bad_t", "bad_t", "replace", "format", "cap", "rename", "bool", "overwrite"])
            if k == "bad_t":
                return Q("bad_t", rng.choice(["GET", "POST"]), d=d, path=path[:-1])
            if k == "replace":
                return Q("put_file", "PUT", d=d, path=path, replace="bad", content=content())
            if k == "format":
                return Q("put_file", "PUT", d=d, path=path, format="bad", content=content())
            if k == "cap":
                return Q(rng.choice(["put_uri"]), "PUT", d=d, path=path, cap={"id": "junk", "type": "junk", "w": False})
            if k == "rename":
                return Q("rename", "POST", d=d, path=path[:-1], name=path[-1])
            if k == "overwrite":
                return Q("set_children", "POST", d=d, path=path[:-1], kids=self.kids(), replace="bad")
            return Q(rng.choice(["upload", "mkdir_named"]), "POST", d=d, path=path[:-1], name=path[-1], replace="only_files", content=content())
        if op == "put_file":
            return Q(op, "PUT", d=d, path=path, replace=rep3(), format=fmt(), content=content())
        if op == "put_uri":
            return Q(op, "PUT", d=d, path=path, replace=rep3(), cap=self.child())
        if op == "mkdir":
            return Q(op, rng.choice(["PUT", "POST"]), d=d, path=path, format=rng.choice(["none", "none", "mdmf"]))
        if op in ("mkdirc", "mkdiri"):
            return Q(op, "POST", d=d, path=path, kids=self.kids(immutable=(op == "mkdiri"), allow_empty=(op == "mkdirc")))
        if op == "upload_at":
            return Q(op, "POST", d=d, path=path, replace=rep2(), format=fmt(), content=content())
        if op == "delete":
            return Q(op, "DELETE", d=d, path=path)
        if op in ("get", "get_json"):
            return Q(op, "GET", d=d, path=path if (op == "get" or rng.random() < 0.9) else [])
        name = self.name_in(look)
        if op == "mkdir_named":
            return Q(op, "POST", d=d, path=path, name=name, replace=rep2(), when_done=rng.random() < 0.25)
        if op in ("mkdirc_named", "mkdiri_named"):
            return Q(op, "POST", d=d, path=path, name=name, kids=self.kids(immutable=(op == "mkdiri_named"), allow_empty=(op == "mkdirc_named")))
        if op == "upload":
            return Q(op, "POST", d=d, path=path, name=name, replace=rep2(), format=fmt(), content=content(), when_done=rng.random() < 0.25)
        if op == "post_uri":
            return Q(op, "POST", d=d, path=path, name=name, replace=rep3(), cap=self.child())
        if op == "set_children":
            return Q(op, "POST", d=d, path=path, kids=[dict(k, md=rng.choice(["none", "none", "m1", "m2", "nw", "mt"])) for k in self.kids()],
                     replace=rng.choice(["none", "none", "false", "true"]))
        if op == "post_delete":
            return Q(op, "POST", d=d, path=path, name=name, t=rng.choice(["delete", "unlink"]))
        if op == "rename":
            return Q(op, "POST", d=d, path=path, name=name, to_name=rng.choice(self.names + [name]), replace=rep3())
        # relink
        td, tpath = self.dir_path()
        return Q("relink", "POST", d=d, path=path, name=name, to_d=td, to_path=tpath, to_name=rng.choice(["", ""] + self.names), replace=rep3())

    def allowed(self, q):
        """keep away from the input classes on which the code is known to deviate (run as probes) and from read-only paths"""
        op = q["op"]
        if op in UNLINKED:
            if op == "post_unlinked" and q["when_done"] and q["format"] in ("sdmf", "mdmf", "mutable"):
                return False                               # probe unlinked_mutable_upload_when_done
            return not any(k["md"] == "nw" for k in q["kids"])
        parent = q["path"][:-1] if op in PATH_SLOT else q["path"]
        name = q["path"][-1] if op in PATH_SLOT and q["path"] else q["name"]
        look = self.look(q["d"], parent)
        if look[0] == "ro":
            return False
        there = look[0] == "dir"
        kind = self.slot_kind(look[1], name) if there and name else "absent"
        bad = (op == "bad_t" or q["replace"] == "bad" or q["format"] == "bad" or q["cap"].get("type") == "junk"
               or (op == "rename" and not q["to_name"]) or (op in ("upload", "mkdir_named") and q["replace"] == "only_files"))
        if bad:
            # invalid parameters are sent to things that are there (what is checked first is not the subject)
            if not there:
                return False
            if q["format"] == "bad" and kind not in ("absent", "ifile"):
                return False
            if op == "bad_t":
                return True
            return kind != "other" and not (op == "upload" and kind == "dir")
        if any(k["md"] == "nw" for k in q["kids"]) and op != "set_children":
            return False                                   # X-dirnode_ops finding 4 (initial children and no-write)
        url = q["path"]
        if look[0] == "missing" and url and any(NAMES[n] == NAMES[url[-1]] for n in url[look[1]:-1]):
            return False                                   # probe put_below_missing_dir_of_same_name
        if op in ("upload", "post_uri", "mkdirc_named", "mkdiri_named") and look[0] == "missing":
            return False                                   # probes *_missing_last_dir
        if op in ("mkdiri", "mkdiri_named") and look[0] == "missing" and any(
                k["child"]["w"] or (k["child"]["id"] not in ("fc1", "fc2", "flit", "f2") and k["child"]["id"] not in self.web.imm) for k in q["kids"]):
            return False                                   # probe mkdir_immutable_bad_child_below_missing_dir
        if op in ("put_file", "put_uri", "mkdir", "mkdir_named", "mkdirc_named", "mkdiri_named", "post_uri"):
            return kind != "other"
        if op in ("mkdirc", "mkdiri"):
            return kind != "dir"                           # probe mkdirc_on_existing_dir
        if op == "upload":
            if look[0] == "file" and look[1] == len(parent) - 1:
                return False                               # the URL names a file: that is the FILENAME form (name= ignored)
            if kind in ("dir", "mfile_ro", "other"):
                return False                               # probe upload_onto_directory
            return not (kind == "mfile_w" and q["replace"] == "false")      # probe upload_replace_false_on_mutable
        if op == "upload_at":
            return there and (kind == "ifile" or (kind == "mfile_w" and q["replace"] != "false"))      # probe upload_at_new_filename
        if op in ("delete", "get", "get_json", "rename"):
            return True
        if op == "post_delete" and q["t"] == "delete":
            return True
        # t=unlink, t=set_children, t=relink: no missing directory before the last name (probes *_missing_dir)
        if look[0] == "missing" and look[1] < len(parent) - 1:
            return False
        if op == "relink":
            if look[0] == "file" and look[1] < len(parent) - 1:
                return False                               # probe relink_source_through_file
            t = self.look(q["to_d"], q["to_path"])
            if t[0] == "ro" or (t[0] == "file" and t[1] < len(q["to_path"]) - 1):
                return False                               # probe relink_dest_through_file
        return True

    def next(self):
        for _ in range(200):
            q = self.candidate()
            if self.allowed(q):
                return q
        return Q("get_json", "GET", d="d1", path=[])


# scripted openings (inputs only; judged like every other request): the replace= rules on every kind of slot, metadata
# through renames / relinks, files (mutable in place, 410, idempotent DELETE), then the seeded generator takes over
_F = lambda i, w=False: {"id": i, "type": "file", "w": w}
_D = lambda i, w=True: {"id": i, "type": "dir", "w": w}
_K = lambda n, c, md="none": {"name": n, "child": c, "md": md}
TEMPLATES = [
    [Q("put_file", "PUT", path=["a"], content="c1"),
     Q("put_file", "PUT", path=["a"], content="c2", replace="false"),
     Q("put_uri", "PUT", path=["a"], cap=_F("fc2"), replace="false"),
     Q("post_uri", "POST", name="a", cap=_F("fc2"), replace="false"),
     Q("mkdir_named", "POST", name="a", replace="false"),
     Q("upload", "POST", name="a", content="c2", replace="false"),
     Q("mkdir", "POST", path=["b"]),
     Q("put_uri", "PUT", path=["b"], cap=_F("fc1"), replace="only_files"),
     Q("post_uri", "POST", name="b", cap=_F("fc1"), replace="only_files"),
     Q("mkdir_named", "POST", name="b", replace="false"),
     Q("mkdirc_named", "POST", name="b", kids=[_K("a", _F("fc1"), "m1")]),
     Q("put_uri", "PUT", path=["a"], cap=_F("fc2"), replace="only_files"),
     Q("put_file", "PUT", path=["b", "e2", "a"], content="lit"),
     Q("mkdir_named", "POST", name="b"),
     Q("post_uri", "POST", name="a", cap=_D("d2")),
     Q("put_file", "PUT", path=["a", "b", "a"], content="c1", format="mdmf")],
    [Q("set_children", "POST", kids=[_K("a", _F("fc1"), "m1"), _K("b", _D("d2"), "m2"), _K("e1", _F("fc2"))]),
     Q("rename", "POST", name="a", to_name="e2", replace="false"),
     Q("rename", "POST", name="a", to_name="e2"),
     Q("set_children", "POST", kids=[_K("e2", _F("flit")), _K("k1", _F("fc1"), "ct")], replace="false"),
     Q("set_children", "POST", kids=[_K("e2", _F("flit")), _K("k1", _F("fc1"), "ct")]),
     Q("relink", "POST", name="e1", to_d="d2", to_name="a"),
     Q("relink", "POST", name="b", to_d="d1", to_path=["b"], to_name="k1"),
     Q("relink", "POST", d="d2", name="a", to_d="d2", to_path=["k1"], replace="only_files"),
     Q("rename", "POST", name="b", to_name="b"),
     Q("relink", "POST", d="d2", name="k1", to_d="d1", to_name="k1", replace="only_files"),
     Q("rename", "POST", d="d2", name="e1", to_name="a"),
     Q("relink", "POST", d="d2", name="a", to_d="d1", to_path=["k1", "b"]),
     Q("relink", "POST", d="d2", name="a", to_d="d1", to_path=["e1"]),
     Q("relink", "POST", d="d2", name="a", to_d="d1", to_path=["k1"], to_name="e2")],
    [Q("put_file", "PUT", path=["a"], content="c1", format="sdmf"),
     Q("put_file", "PUT", path=["a"], content="c2"),
     Q("put_file", "PUT", path=["a"], content="c1", replace="false"),
     Q("upload", "POST", name="a", content="lit"),
     Q("upload_at", "POST", path=["a"], content="c2"),
     Q("put_file", "PUT", path=["b"], content="c1"),
     Q("upload_at", "POST", path=["b"], content="c2", replace="false"),
     Q("upload_at", "POST", path=["b"], content="c2", format="mutable"),
     Q("get", "GET", path=["a"]),
     Q("put_uri", "PUT", path=["e2"], cap=_F("f2")),
     Q("get", "GET", path=["e1"]),
     Q("delete", "DELETE", path=["a"]),
     Q("delete", "DELETE", path=["a"]),
     Q("post_delete", "POST", name="b", t="unlink"),
     Q("post_delete", "POST", name="b", t="delete"),
     Q("mkdiri", "POST", path=["k1"], kids=[_K("a", _F("fc1"), "m1")]),
     Q("mkdiri_unlinked", "POST", kids=[_K("a", _F("fc1"), "m1")]),
     Q("put_file", "PUT", path=["k2", "a"], content="c1", replace="false", when_done=False)],
]


def run_history(seed, length, big):
    rng = random.Random("X-webapi_ops-%d" % seed)
    web = Web(seed)
    events = []
    now = 10
    for q in PREAMBLE + ([Q("put_unlinked", "PUT", content="c1", format="sdmf")] if rng.random() < 0.5 else []):
        now += 1
        events.append(web.do(q, now))
    for q in (TEMPLATES[seed % 4] if seed % 4 < len(TEMPLATES) else []):
        now += 1
        events.append(web.do(q, now, full=False))
    gen = Gen(rng, web, big)
    while len(events) < length and web.w.g.keypool.i < 42:      # 48 keys in the pool, at most 4 per request
        now += 1
        # every 8th request and the last one are followed by a full observation
        events.append(web.do(gen.next(), now, full=(len(events) % 8 == 7 or len(events) == length - 1)))
    reads = web.reads
    web.close()
    return {"consts": {"init": {"obs": {}, "imm": [], "mf": {}}}, "events": events, "src": "seed:%d" % seed, "reads": reads,
            "stale": web.stale}


# -------------------------------------------------------------------- probes
F = lambda i, w=False: {"id": i, "type": "file", "w": w}
DD = lambda i, w=True: {"id": i, "type": "dir", "w": w}
KID = lambda n, c, md="none": {"name": n, "child": c, "md": md}
PROBES = {
    # webapi.rst: "If you use ?t=set_children&overwrite=false, then an attempt to replace an existing child will instead cause an error"
    "set_children_overwrite_false": [Q("put_file", "PUT", path=["a"], content="c1"),
                                     Q("set_children", "POST", kids=[KID("a", F("fc2"))], overwrite="false")],
    "set_children_bad_json": [Q("set_children", "POST", json="junk")],
    "mkdir_with_children_bad_json": [Q("mkdirc_named", "POST", name="a", json="junk")],
    # "This operation will return an error ... if the immediate parent directory already has a a child named SUBDIR"
    "mkdir_with_children_on_existing_dir": [Q("mkdir", "POST", path=["a"]), Q("mkdirc", "POST", path=["a"], kids=[KID("b", F("fc1"), "m1")])],
    "mkdir_immutable_on_existing_dir": [Q("mkdir", "POST", path=["a"]), Q("mkdiri", "POST", path=["a"], kids=[KID("b", F("fc1"), "m1")])],
    "mkdir_immutable_empty_body": [Q("mkdiri_named", "POST", name="a")],
    # an error answer that leaves a new directory behind
    "relink_missing_source_dir": [Q("relink", "POST", path=["a", "b"], name="e1", to_d="d2")],
    "unlink_missing_dir": [Q("post_delete", "POST", path=["a", "b"], name="e1", t="unlink")],
    "set_children_missing_dir": [Q("set_children", "POST", path=["a", "b"], kids=[KID("a", F("fc2"))])],
    # "HTTP 400 Bad Request if any entry in the source or destination paths is not a directory"
    "relink_source_through_file": [Q("put_file", "PUT", path=["a"], content="c1"), Q("relink", "POST", path=["a", "b"], name="e1", to_d="d2")],
    "relink_dest_through_file": [Q("put_file", "PUT", path=["a"], content="c1"), Q("put_file", "PUT", path=["b"], content="c2"),
                                 Q("relink", "POST", name="b", to_d="d1", to_path=["a", "b"])],
    # "With replace=false, this operation will return an HTTP 409 Conflict error if there is already an object at the given location"
    "upload_replace_false_on_mutable": [Q("put_file", "PUT", path=["a"], content="c1", format="sdmf"),
                                        Q("upload", "POST", name="a", content="c2", replace="false")],
    # "If it is not a mutable file, the default behavior is to remove the existing child before creating a new one."
    "upload_onto_directory": [Q("mkdir", "POST", path=["a"]), Q("upload", "POST", name="a", content="c1")],
    # "POST /uri/$DIRCAP/[SUBDIRS../]FILENAME?t=upload ... uploads a file and attaches it as a new child"
    "upload_at_new_filename": [Q("upload_at", "POST", path=["a"], content="c1")],
    # DELETE without a child name
    "delete_without_child_name": [Q("delete", "DELETE")],
    # writes through a read-only dircap: "an appropriate 400-series code"
    "readonly_put": [Q("put_file", "PUT", via="ro", path=["a"], content="c1")],
    "readonly_mkdir": [Q("mkdir", "POST", via="ro", path=["a"])],
    "readonly_delete": [Q("put_file", "PUT", path=["a"], content="c1"), Q("delete", "DELETE", via="ro", path=["a"])],
    # "This will create additional intermediate directories as necessary" -- but not the last directory of the URL
    "upload_missing_last_dir": [Q("upload", "POST", path=["a", "b"], name="e1", content="c1")],
    "post_uri_missing_last_dir": [Q("post_uri", "POST", path=["a"], name="e1", cap=F("fc1"))],
    "mkdir_with_children_named_missing_dir": [Q("mkdirc_named", "POST", path=["a"], name="b", kids=[KID("e1", F("fc1"), "m1")])],
    "mkdir_immutable_named_missing_dir": [Q("mkdiri_named", "POST", path=["a"], name="b", kids=[KID("e1", F("fc1"), "m1")])],
    # an error answer (a child that is not deep-immutable) that leaves the intermediate directory behind
    "mkdir_immutable_bad_child_below_missing_dir": [Q("mkdiri", "POST", path=["a", "b"], kids=[KID("e1", DD("d2"), "m1")])],
    # a missing directory with the same name as the last element of the URL
    "put_below_missing_dir_of_same_name": [Q("put_file", "PUT", path=["a", "a"], content="c1")],
    # when_done= is ignored when POST /uri?t=upload makes a mutable file
    "unlinked_mutable_upload_when_done": [Q("post_unlinked", "POST", content="c1", format="sdmf", when_done=True)],
    # when_done= on POST /uri?t=upload with a Host header that has no port
    "unlinked_upload_when_done_host_without_port": [Q("post_unlinked", "POST", content="c1", when_done=True, t="noport")],
}


def run_probe(name, seed):
    web = Web(seed)
    events, now = [], 10
    for q in PREAMBLE + PROBES[name]:
        now += 1
        events.append(web.do(q, now))
    web.close()
    return {"consts": {"init": {"obs": {}, "imm": [], "mf": {}}}, "events": events, "src": "probe:" + name, "reads": web.reads, "stale": 0}


def work(arg):
    kind, x, seed, length, big = arg
    return run_probe(x, seed) if kind == "probe" else run_history(x, length, big)


def main():
    ap = argparse.ArgumentParser()
    ap.add_argument("--out"); ap.add_argument("--in", dest="inp"); ap.add_argument("--seed", type=int, default=0)
    ap.add_argument("--tier", default="quick"); ap.add_argument("--n", type=int, default=20); ap.add_argument("--len", type=int, default=30)
    ap.add_argument("--jobs", type=int, default=1); ap.add_argument("--probes", default="all")
    a = ap.parse_args()
    big = a.tier != "quick"
    jobs = [("hist", a.seed * 100000 + i, a.seed, a.len, big) for i in range(a.n)]
    if a.probes == "all":
        jobs += [("probe", p, a.seed, 0, big) for p in sorted(PROBES)]
    elif a.probes != "none":
        jobs += [("probe", p, a.seed, 0, big) for p in a.probes.split(",")]
    if a.jobs > 1:
        import multiprocessing
        with multiprocessing.get_context("fork").Pool(a.jobs) as pool:
            traces = pool.map(work, jobs, chunksize=1)
    else:
        traces = [work(j) for j in jobs]
    json.dump(traces, open(a.out, "w"))


if __name__ == "__main__":
    main()
