"""Driver of real reads for the extra download_producer (flow control of IReadable.read).

One scenario = one trace = one read(consumer, offset, size) on a SimGrid of
  lit   LiteralFileNode (twisted FileSender, a pull producer; FileSender.CHUNK_SIZE is lowered so that a LIT file
        takes several writes)
  chk1 / chkN   ImmutableFileNode with one / several segments (DecryptingConsumer + Segmentation)
  sdmf / mdmf   MutableFileVersion.read (Retrieve) of a one-segment SDMF / multi-segment MDMF file; "big" variants
        (> 4000 bytes per share, so that Retrieve really talks to the servers instead of the servermap's cache) when
        server faults are injected
recorded by AdvConsumer, a scripted adversarial IConsumer:
  script = {"reg": moves, "w": {"<i>": moves}, "out": [{"after": i, "delay": j, "moves": moves}], "final_resume": bool}
  moves made re-entrantly inside registerProducer ("reg"), inside the i-th write ("w"), and from the outside, j reactor
  turns after the i-th write returned ("out"); move = "P" pauseProducing, "R" resumeProducing, "S" stopProducing,
  "X" raise ConsumerError from write().  For a pull producer "P" = stop pulling, "R" = pull (again).
The reactor is single-stepped: one turn = one delayed call (an eventual-queue batch), one delivered remote call (seeded
order, injected faults) or one group of outside moves, so moves land between any two steps of the real code.

Events (see spec/immutable/ProducerConsumer.tla): Register Write Unregister Pause Resume Stop Ret Raise Fired ReadRaised End.
The verdict is TLC's (TraceProducerConsumer.tla); this file only drives and records.  No attribute of a producer is read.
"""
from vreactor import vr, settle  # noqa: E402  (must be first)
import argparse, json, os, random, re, shutil, sys

from urllib.parse import quote
from twisted.internet import defer
from twisted.python.failure import Failure
from twisted.protocols import basic
from zope.interface import implementer
from twisted.internet.interfaces import IConsumer, IPushProducer, ITransport
from twisted.internet.address import IPv4Address
from twisted.internet.error import ConnectionLost

from grid import Grid
from allmydata.immutable import upload
from allmydata.mutable.publish import MutableData
import allmydata.mutable.publish as pubmod
from allmydata.interfaces import SDMF_VERSION, MDMF_VERSION

MAX_TURNS = 6000


class ConsumerError(Exception):
    pass


def step_one_timer():
    """Run exactly one delayed call that is due now (one eventual-queue batch); False if none is due."""
    due = [c for c in vr.getDelayedCalls() if c.getTime() <= vr.seconds()]
    if not due:
        return False
    c = min(due, key=lambda x: x.getTime())
    vr.calls.remove(c)
    c.called = 1
    c.func(*c.args, **c.kw)
    return True


@implementer(IConsumer)
class AdvConsumer:
    def __init__(self, rd):
        self.rd = rd
        self.p = None
        self.registered = False
        self.streaming = True
        self.paused = False       # push: our last word was pauseProducing; pull: we do not pull for now
        self.stopped = False
        self.broken = False
        self.nw = 0
        self.moves_made = 0

    # ---- IConsumer
    def registerProducer(self, p, streaming):
        self.rd.ev({"ev": "Register", "streaming": bool(streaming)})
        self.p = p
        self.registered = True
        self.streaming = bool(streaming)
        self.run_moves(self.rd.script.get("reg", []), "register")

    def write(self, data):
        self.nw += 1
        self.rd.ev({"ev": "Write", "data": list(data)})
        self.run_moves(self.rd.script.get("w", {}).get(str(self.nw), []), "write")

    def unregisterProducer(self):
        self.rd.ev({"ev": "Unregister"})
        self.registered = False

    # ---- the adversary
    def can_move(self):
        return self.registered and not self.stopped and not self.broken and self.rd.fired is None

    def run_moves(self, moves, origin):
        for m in moves:
            if not self.can_move():
                return
            if m == "X":
                if origin != "write":
                    continue
                self.broken = True
                self.moves_made += 1
                self.rd.ev({"ev": "Raise"})
                raise ConsumerError("the consumer does not want this")
            self.move(m, origin)

    def move(self, m, origin):
        if not self.streaming:
            if m == "P":
                self.paused = True
                return
            if m == "R":
                self.paused = False
        name = {"P": "Pause", "R": "Resume", "S": "Stop"}[m]
        self.moves_made += 1
        self.rd.ev({"ev": name, "origin": origin, "t": self.rd.turn})
        if m == "P":
            self.paused = True
        elif m == "R":
            self.paused = False
        else:
            self.stopped = True
        raised = ""
        try:
            getattr(self.p, {"P": "pauseProducing", "R": "resumeProducing", "S": "stopProducing"}[m])()
        except ConsumerError:
            raised = "ConsumerError"       # our own exception came back through a pull producer
        except Exception as e:             # noqa
            raised = type(e).__name__
        self.rd.ev({"ev": "Ret", "m": name, "raised": raised})


class Read:
    def __init__(self, g, consts, target, off, size, script, fault, rng):
        self.g, self.consts, self.target, self.off, self.size = g, consts, target, off, size
        self.script, self.fault, self.rng = script, fault, rng
        self.events = []
        self.turn = 0          # reactor turns: delayed calls run + remote calls delivered so far
        self.iter = 0          # iterations of the harness loop
        self.fired = None
        self.over = False      # End was recorded: what the tear-down of the scenario causes is not part of the read
        self.in_write = 0      # (recording proxies RecConsumer / RecProducer)
        self.in_register = 0
        self.nw = 0
        self.moves_made = 0
        self.ndel = 0
        self.lost = 0
        self.groups = [dict(grp, armed=None, done=False) for grp in script.get("out", [])]

    def ev(self, e):
        if not self.over:
            self.events.append(e)

    def _ok(self, res):
        self.fired = "ok"
        self.ev({"ev": "Fired", "res": "ok", "withc": res is self.consumer, "cls": ""})

    def _err(self, f):
        self.fired = "err"
        self.ev({"ev": "Fired", "res": "err", "withc": False, "cls": f.type.__name__})

    def fault_now(self, ndelivered, pend):
        f = self.fault
        t = f["type"]
        if t == "from_write" and self.consumer.nw >= f["w"]:
            return f["mode"]
        if t == "nth" and ndelivered == f["n"]:
            return f["mode"]
        if t == "server" and pend.server == f["server"]:
            return f["mode"]
        return None

    def due_group(self, force=False):
        c = self.consumer
        for grp in self.groups:
            if grp["done"]:
                continue
            if grp["armed"] is None and c.registered and c.nw >= grp["after"]:
                grp["armed"] = self.iter
            if grp["armed"] is not None and (force or self.iter - grp["armed"] >= grp["delay"]):
                grp["done"] = True
                return grp
        return None

    def reactor_step(self, max_timer=None):
        """One reactor turn: a delayed call that is due, or a remote call (seeded order, injected fault), or the next timer.
        False = nothing left to do."""
        g = self.g
        order = self.consts["order"]
        have_timer = any(x.getTime() <= vr.seconds() for x in vr.getDelayedCalls())
        if have_timer and g.pending and order == "random" and self.rng.random() < 0.5:
            have_timer = False       # a network answer overtakes the eventual queue
        if have_timer:
            self.turn += 1
            step_one_timer()
            return True
        if g.pending:
            self.turn += 1
            i = 0 if order == "fifo" else self.rng.randrange(len(g.pending))
            fault = self.fault_now(self.ndel, g.pending[i])
            self.ndel += 1
            if fault == "lose":
                self.lost += 1
            g.deliver(i, fault)
            return True
        nt = vr.next_timer()
        if nt is not None and (max_timer is None or nt <= max_timer):
            self.turn += 1
            vr.advance(nt)
            return True
        return False

    def cleanup(self):
        self.g.pending = []
        for x in list(vr.getDelayedCalls()):
            try:
                x.cancel()
            except Exception:   # noqa
                pass

    def run(self):
        c = self.consumer = AdvConsumer(self)
        d = None
        try:
            d = self.target.read(c, self.off, self.size)
        except Exception as e:      # noqa
            self.ev({"ev": "ReadRaised", "cls": type(e).__name__})
        if d is not None:
            d.addCallbacks(self._ok, self._err)
        while True:
            self.iter += 1
            if self.iter > MAX_TURNS:
                self.ev({"ev": "Livelock"})
                break
            grp = self.due_group()
            if grp is not None:
                if c.can_move():
                    c.run_moves(grp["moves"], "outside")
                continue
            if c.can_move() and not c.streaming and not c.paused:
                c.move("R", "outside")
                continue
            if self.reactor_step():
                continue
            # quiescent
            grp = self.due_group(force=True)
            if grp is not None:
                if c.can_move():
                    c.run_moves(grp["moves"], "outside")
                continue
            if c.can_move() and c.paused and self.script.get("final_resume", True):
                c.move("R", "outside")
                continue
            break
        self.ev({"ev": "End", "lost": self.lost, "idle": bool(c.paused or c.stopped or c.broken)})
        self.over = True
        self.cleanup()
        consts = dict(self.consts)
        consts["moves_made"] = c.moves_made
        consts["writes"] = c.nw
        return {"consts": consts, "events": self.events}


# ------------------------------------------------------------------------------------------------
# web leg: the real gateway (TahoeLAFSSite, HTTPChannel, TahoeLAFSRequest, FileNodeHandler, FileDownloader) as the consumer
@implementer(IPushProducer, IConsumer, ITransport)
class FlowTransport:
    """The TCP transport under the HTTP channel: a send buffer with a limit, doing what
    twisted.internet.abstract.FileDescriptor does with its producer (pauseProducing from inside write() when the buffer
    exceeds the limit, resumeProducing when the buffer has been sent, stopProducing when the connection is lost)."""
    disconnecting = False

    def __init__(self, limit):
        self.limit = limit
        self.buf = b""
        self.received = b""
        self.producer = None
        self.streaming = True
        self.producerPaused = False
        self.disconnected = False
        self.protocol = None

    # ITransport
    def write(self, data):
        if self.disconnected or not data:
            return
        self.buf += data
        if self.producer is not None and self.streaming and len(self.buf) > self.limit and not self.producerPaused:
            self.producerPaused = True
            self.producer.pauseProducing()

    def writeSequence(self, seq):
        self.write(b"".join(seq))

    def loseConnection(self):
        self.disconnecting = True

    def abortConnection(self):
        self.disconnecting = True

    def getPeer(self):
        return IPv4Address("TCP", "127.0.0.1", 54321)

    def getHost(self):
        return IPv4Address("TCP", "127.0.0.1", 3456)

    # IConsumer
    def registerProducer(self, producer, streaming):
        if self.producer is not None:
            raise RuntimeError("producer already registered")
        if self.disconnected:
            producer.stopProducing()
            return
        self.producer = producer
        self.streaming = streaming
        self.producerPaused = False
        if not streaming:
            producer.resumeProducing()

    def unregisterProducer(self):
        self.producer = None

    # IPushProducer (incoming data; nothing arrives after the request)
    def pauseProducing(self):
        pass

    def resumeProducing(self):
        pass

    def stopProducing(self):
        pass

    # the client
    def drain(self, n):
        """the peer takes n bytes; an empty buffer asks the producer for more (FileDescriptor.doWrite)"""
        self.received += self.buf[:n]
        self.buf = self.buf[n:]
        if not self.buf and self.producer is not None and ((not self.streaming) or self.producerPaused):
            self.producerPaused = False
            self.producer.resumeProducing()

    def disconnect(self):
        """the peer goes away (FileDescriptor.connectionLost)"""
        self.disconnected = True
        p, self.producer = self.producer, None
        if p is not None:
            p.stopProducing()
        self.protocol.connectionLost(Failure(ConnectionLost("the client went away")))


class RecProducer:
    """what the gateway's consumer gets registered: forwards to the node's producer and records"""
    def __init__(self, rd, p):
        self.rd, self.p = rd, p

    def _call(self, name, meth):
        rd = self.rd
        origin = "write" if rd.in_write else ("register" if rd.in_register else "outside")
        rd.moves_made += 1
        rd.ev({"ev": name, "origin": origin, "t": rd.turn})
        raised = ""
        try:
            getattr(self.p, meth)()
        except Exception as e:      # noqa
            raised = type(e).__name__
        rd.ev({"ev": "Ret", "m": name, "raised": raised})

    def pauseProducing(self):
        self._call("Pause", "pauseProducing")

    def resumeProducing(self):
        self._call("Resume", "resumeProducing")

    def stopProducing(self):
        self._call("Stop", "stopProducing")


@implementer(IConsumer)
class RecConsumer:
    """what the node's read() gets as its consumer: forwards to the gateway's request and records"""
    def __init__(self, rd, inner):
        self.rd, self.inner = rd, inner

    def __getattr__(self, name):       # whatever else a node may ask of the request
        return getattr(self.inner, name)

    def registerProducer(self, p, streaming):
        rd = self.rd
        rd.ev({"ev": "Register", "streaming": bool(streaming)})
        rd.in_register += 1
        try:
            self.inner.registerProducer(RecProducer(rd, p), streaming)
        finally:
            rd.in_register -= 1

    def write(self, data):
        rd = self.rd
        rd.nw += 1
        rd.ev({"ev": "Write", "data": list(data)})
        rd.in_write += 1
        try:
            self.inner.write(data)
        finally:
            rd.in_write -= 1

    def unregisterProducer(self):
        self.rd.ev({"ev": "Unregister"})
        self.inner.unregisterProducer()


class RecNode:
    """the filenode handed to FileDownloader: read() is recorded, everything else passes"""
    current = None      # the WebRead in progress

    def __init__(self, node):
        self._node = node

    def __getattr__(self, name):
        return getattr(self._node, name)

    def read(self, consumer, offset=0, size=None):
        rd = RecNode.current
        if rd is None or rd.read_called:
            return self._node.read(consumer, offset, size)
        rd.read_called = True
        rd.consts.update({"off": offset, "sized": size is not None, "size": size if size is not None else 0})
        rc = RecConsumer(rd, consumer)
        try:
            d = self._node.read(rc, offset, size)
        except Exception as e:      # noqa
            rd.ev({"ev": "ReadRaised", "cls": type(e).__name__})
            raise

        def _ok(res):
            rd.fired = "ok"
            rd.ev({"ev": "Fired", "res": "ok", "withc": res is rc, "cls": ""})
            return consumer

        def _err(f):
            rd.fired = "err"
            rd.ev({"ev": "Fired", "res": "err", "withc": False, "cls": f.type.__name__})
            return f

        def _cancel(ignored):
            # the gateway cancels the Deferred when the client has gone away
            rd.ev({"ev": "Cancel"})
            d.cancel()
        outer = defer.Deferred(canceller=_cancel)
        d.addCallbacks(_ok, _err)
        d.addBoth(lambda r: outer.called or outer.callback(r))
        return outer


def install_web_recorder():
    from allmydata.web import filenode as webfn
    orig = webfn.FileDownloader.__init__

    def init(self, filenode, filename):
        orig(self, RecNode(filenode), filename)
    webfn.FileDownloader.__init__ = init


class MemRead(Read):
    """read() into the real allmydata.util.consumer.MemoryConsumer (what download_to_data / download_best_version use),
    recorded by the proxies"""
    def run(self):
        from allmydata.util.consumer import MemoryConsumer
        self.consumer = self
        mc = MemoryConsumer()
        rc = RecConsumer(self, mc)
        try:
            d = self.target.read(rc, self.off, self.size)
        except Exception as e:      # noqa
            self.ev({"ev": "ReadRaised", "cls": type(e).__name__})
            d = None
        if d is not None:
            d.addCallbacks(lambda res: self._ok(self.consumer if res is rc else res), self._err)
        while self.iter < MAX_TURNS and self.reactor_step():
            self.iter += 1
        self.ev({"ev": "End", "lost": self.lost, "idle": False})
        self.over = True
        self.cleanup()
        consts = dict(self.consts)
        consts["moves_made"] = self.moves_made
        consts["writes"] = self.nw
        return {"consts": consts, "events": self.events}


class WebRead(Read):
    """GET /uri/<cap> [Range] through a real HTTP channel whose transport has a send buffer of `limit` bytes; the client
    takes `chunk` bytes every `every` harness iterations (0: only when nothing else can happen), may stall for ever
    (`stall`) or go away after `disconnect_at` iterations."""
    def __init__(self, g, site, consts, cap, req_range, client, fault, rng):
        Read.__init__(self, g, consts, None, 0, None, {}, fault, rng)
        self.site, self.cap, self.req_range, self.client = site, cap, req_range, client
        self.read_called = False
        self.consumer = self          # fault_now() looks at consumer.nw

    def run(self):
        cl = self.client
        tr = FlowTransport(cl["limit"])
        ch = self.site.buildProtocol(IPv4Address("TCP", "127.0.0.1", 54321))
        tr.protocol = ch
        RecNode.current = self
        ch.makeConnection(tr)
        req = b"GET /uri/" + quote(self.cap.decode("ascii"), safe="").encode("ascii") + b" HTTP/1.1\r\nHost: 127.0.0.1\r\n"
        if self.req_range is not None:
            req += b"Range: bytes=%d-%d\r\n" % (self.req_range[0], self.req_range[0] + self.req_range[1] - 1)
        ch.dataReceived(req + b"\r\n")
        gone = False
        while True:
            self.iter += 1
            if self.iter > MAX_TURNS:
                self.ev({"ev": "Livelock"})
                break
            if not gone and cl["disconnect_at"] and self.iter >= cl["disconnect_at"] and self.read_called and self.fired is None:
                gone = True
                self.turn += 1
                tr.disconnect()
                continue
            if not gone and cl["every"] and self.iter % cl["every"] == 0 and tr.buf and not cl["stall"]:
                self.turn += 1
                tr.drain(cl["chunk"])
                continue
            if self.reactor_step(max_timer=30):      # not the gateway's periodic housekeeping
                continue
            if not gone and tr.buf and not cl["stall"]:
                self.turn += 1
                tr.drain(cl["chunk"])
                continue
            break
        RecNode.current = None
        head, _, body = tr.received.partition(b"\r\n\r\n")
        m = re.match(rb"HTTP/1\.\d (\d{3})", head)       # the client may have taken only a part of the status line
        status = int(m.group(1)) if m else 0
        complete = (not gone) and (not cl["stall"]) and not tr.buf
        if complete and self.fired == "ok":
            # everything the gateway sent has reached the client: the body is what the client sees of the read
            self.ev({"ev": "Wire", "status": status, "data": list(body)})
        self.ev({"ev": "End", "lost": self.lost, "idle": bool(cl["stall"])})
        self.over = True
        if not gone:
            tr.disconnected = True
            try:
                ch.connectionLost(Failure(ConnectionLost("test over")))
            except Exception:   # noqa
                pass
        self.cleanup()
        consts = dict(self.consts)
        consts["moves_made"] = self.moves_made
        consts["writes"] = self.nw
        consts["status"] = status
        consts["read_called"] = self.read_called
        return {"consts": consts, "events": self.events}


# ------------------------------------------------------------------------------------------------
class World:
    """The files of one driver run (uploaded once, read many times through fresh nodes)."""
    def __init__(self, workdir, seed):
        self.rng = random.Random("world-%d" % seed)
        self.g = g = Grid(workdir, num_servers=4, k=2, n=3, happy=1, max_segment_size=16, seed=seed)
        self.files = {}
        self.web = None
        rb = lambda n: bytes(self.rng.randrange(256) for _ in range(n))   # noqa
        # LIT: below 56 bytes
        self.add_imm("lit", rb(self.rng.randrange(17, 40)), 16)
        self.add_imm("chk1", rb(self.rng.randrange(56, 70)), 128)
        self.add_imm("chkN", rb(self.rng.randrange(56, 80)), 16)
        self.add_imm("chkbig", rb(self.rng.randrange(100, 130)), 18)
        pubmod.DEFAULT_MUTABLE_MAX_SEGMENT_SIZE = 6
        self.add_mut("sdmf", rb(self.rng.randrange(9, 30)), SDMF_VERSION)
        self.add_mut("mdmf", rb(self.rng.randrange(14, 30)), MDMF_VERSION)
        pubmod.DEFAULT_MUTABLE_MAX_SEGMENT_SIZE = 1500
        self.add_mut("sdmfbig", rb(self.rng.randrange(4300, 4500)), SDMF_VERSION)
        self.add_mut("mdmfbig", rb(self.rng.randrange(4300, 4700)), MDMF_VERSION)
        pubmod.DEFAULT_MUTABLE_MAX_SEGMENT_SIZE = 6
        g.log_calls = False

    def add_imm(self, name, data, segsize):
        self.g.params["max_segment_size"] = segsize
        res = self.g.run(self.g.uploader.upload(upload.Data(data, convergence=b"x2")))
        kind = "lit" if name == "lit" else "chk"
        self.files[name] = {"kind": kind, "cap": res.get_uri(), "data": data, "segsize": segsize}
        assert (b"LIT" in res.get_uri()) == (kind == "lit"), res.get_uri()

    def add_mut(self, name, data, version):
        node = self.g.run(self.g.nodemaker.create_mutable_file(MutableData(data), version=version))
        self.files[name] = {"kind": "sdmf" if version == SDMF_VERSION else "mdmf", "cap": node.get_uri(), "data": data,
                            "segsize": pubmod.DEFAULT_MUTABLE_MAX_SEGMENT_SIZE}

    def target(self, name):
        g = self.g
        f = self.files[name]
        g.policy = "fifo"
        node = g.make_nodemaker().create_from_cap(f["cap"])
        if f["kind"] in ("sdmf", "mdmf"):
            return g.run(node.get_best_readable_version())
        return node

    def read(self, name, off, size, script, fault, order, rng, src, idx):
        f = self.files[name]
        basic.FileSender.CHUNK_SIZE = script.get("chunk", 7)
        consts = {"kind": f["kind"], "file": name, "content": list(f["data"]), "off": off, "sized": size is not None,
                  "size": size if size is not None else 0, "faulty": fault["type"] != "none", "script": script,
                  "fault": fault, "order": order, "src": src, "idx": idx, "segsize": f["segsize"]}
        try:
            tgt = self.target(name)
        except Exception as e:      # noqa: the preparation (servermap update) is not the subject
            raise RuntimeError("preparing %s failed: %r" % (name, e))
        tr = Read(self.g, consts, tgt, off, size, script, fault, rng).run()
        basic.FileSender.CHUNK_SIZE = 2 ** 14
        return tr


    def mem_read(self, name, off, size, fault, order, rng, idx):
        f = self.files[name]
        basic.FileSender.CHUNK_SIZE = 7
        consts = {"kind": f["kind"], "file": name, "content": list(f["data"]), "off": off, "sized": size is not None,
                  "size": size if size is not None else 0, "faulty": fault["type"] != "none", "script": {"consumer": "MemoryConsumer"},
                  "fault": fault, "order": order, "src": "memory", "idx": idx, "segsize": f["segsize"], "via": "memory"}
        tr = MemRead(self.g, consts, self.target(name), off, size, {}, fault, rng).run()
        basic.FileSender.CHUNK_SIZE = 2 ** 14
        return tr

    def web_read(self, name, req_range, client, fault, order, rng, idx):
        f = self.files[name]
        if self.web is None:
            from webgrid import WebGrid
            install_web_recorder()
            self.web = WebGrid(grid=self.g)
        basic.FileSender.CHUNK_SIZE = client.get("lit_chunk", 7)
        self.g.policy = "fifo"
        consts = {"kind": f["kind"], "file": name, "content": list(f["data"]), "off": 0, "sized": False, "size": 0,
                  "faulty": fault["type"] != "none", "script": client, "fault": fault, "order": order, "src": "web",
                  "idx": idx, "segsize": f["segsize"], "via": "web",
                  "req_range": list(req_range) if req_range is not None else []}
        tr = WebRead(self.g, self.web.ws.site, consts, f["cap"], req_range, client, fault, rng).run()
        basic.FileSender.CHUNK_SIZE = 2 ** 14
        return tr


def random_client(rng):
    return {"limit": rng.choice([1, 4, 8, 16, 64, 400, 10 ** 6]), "every": rng.choice([0, 0, 1, 2, 3, 5]),
            "chunk": rng.choice([1, 3, 7, 16, 50, 1000]), "stall": rng.random() < 0.05,
            "disconnect_at": rng.randrange(3, 70) if rng.random() < 0.18 else 0, "lit_chunk": rng.choice([3, 7, 64])}


def script_of_case(case):
    """A TLC-generated pattern (GenProducerPatterns.tla): moves per slot reg, w1, o1, w2, o2."""
    return {"reg": list(case["reg"]), "w": {"1": list(case["w1"]), "2": list(case["w2"])},
            "out": [{"after": 1, "delay": 0, "moves": list(case["o1"])}, {"after": 2, "delay": 0, "moves": list(case["o2"])}],
            "final_resume": True}


def random_moves(rng, in_write, maxlen):
    n = rng.choice([0, 0, 1, 1, 2, 3, maxlen])
    ms = [rng.choice("PPPRRS" if rng.random() < 0.25 else "PPRR") for _ in range(n)]
    if "S" in ms:
        ms = ms[:ms.index("S") + 1]
    elif in_write and rng.random() < 0.06:
        ms.append("X")
    return ms


def random_script(rng):
    style = rng.choice(["inwrite", "inwrite", "any", "any", "any", "quiet"])
    sc = {"reg": [], "w": {}, "out": [], "final_resume": rng.random() < 0.93, "chunk": rng.choice([3, 5, 7, 11, 64])}
    if style == "quiet":
        if rng.random() < 0.5:
            sc["w"][str(rng.randrange(1, 4))] = rng.choice([["S"], ["X"], ["P"], ["P", "R"]])
        return sc
    if rng.random() < 0.3:
        sc["reg"] = random_moves(rng, False, 4)
    for i in range(1, 7):
        if rng.random() < 0.45:
            sc["w"][str(i)] = random_moves(rng, True, 5)
    if style == "any":
        for i in range(0, 6):
            if rng.random() < 0.4:
                sc["out"].append({"after": i, "delay": rng.choice([0, 0, 1, 2, 3, 5, 9]), "moves": random_moves(rng, False, 4)})
    else:
        # transport-like: pauses only from inside write, resumes from the outside some turns later
        for i in range(1, 7):
            if "P" in sc["w"].get(str(i), []) and rng.random() < 0.8:
                sc["out"].append({"after": i, "delay": rng.choice([0, 1, 2, 4, 8]), "moves": ["R"]})
    return sc


def random_range(rng, size):
    r = rng.random()
    if r < 0.3:
        return 0, None
    if r < 0.4:
        return rng.randrange(0, size + 1), None
    if r < 0.47:
        return rng.randrange(0, size + 1), 0
    off = rng.randrange(0, size)
    return off, rng.randrange(1, size - off + 1)


def random_fault(rng, name):
    r = rng.random()
    mode = rng.choice(["raise", "raise", "disconnect"])
    if r < 0.5:
        return {"type": "from_write", "w": rng.choice([0, 1, 1, 2, 3]), "mode": mode}
    if r < 0.8:
        return {"type": "nth", "n": rng.randrange(0, 12), "mode": rng.choice(["raise", "disconnect", "lose"])}
    return {"type": "server", "server": "s%d" % rng.randrange(4), "mode": mode}


def main():
    ap = argparse.ArgumentParser()
    ap.add_argument("--out")
    ap.add_argument("--seed", type=int, default=0)
    ap.add_argument("--tier", default="quick")
    ap.add_argument("--in", dest="inp")
    ap.add_argument("--n", type=int, default=300)
    ap.add_argument("--web", type=int, default=0)
    ap.add_argument("--mem", type=int, default=0)
    a = ap.parse_args()
    work = os.path.join(os.getcwd(), "producer_%d" % os.getpid())
    w = World(work, a.seed)
    traces = []
    rng0 = random.Random("producer-%d" % a.seed)
    cases = []
    if a.inp:
        with open(a.inp) as f:
            cases = json.load(f)["cases"]
    NONE = {"type": "none"}
    # A. TLC-generated patterns on every kind of file, whole file; every third one also on a partial range
    for ci, case in enumerate(cases):
        for name in ["lit", "chk1", "chkN", "sdmf", "mdmf"]:
            sc = script_of_case(case)
            traces.append(w.read(name, 0, None, sc, NONE, "fifo", rng0, "gen", ci))
            if (ci + len(name)) % 3 == 0:
                size = len(w.files[name]["data"])
                rng = random.Random("part-%d-%s-%d" % (a.seed, name, ci))
                off = rng.randrange(1, size - 3)
                ln = rng.randrange(2, size - off + 1)
                traces.append(w.read(name, off, ln, script_of_case(case), NONE, "fifo", rng, "gen", ci))
    # B. seeded scenarios: longer patterns, delays, ranges, delivery orders, server faults
    for i in range(a.n):
        rng = random.Random(rng0.randrange(10 ** 9))
        faulty = rng.random() < 0.3
        if faulty:
            name = rng.choice(["chk1", "chkN", "chkN", "chkbig", "sdmfbig", "mdmfbig", "mdmfbig"])
            fault = random_fault(rng, name)
        else:
            name = rng.choice(["lit", "chk1", "chkN", "chkN", "chkbig", "sdmf", "mdmf", "mdmf"])
            fault = NONE
        size = len(w.files[name]["data"])
        off, ln = random_range(rng, size)
        traces.append(w.read(name, off, ln, random_script(rng), fault, rng.choice(["fifo", "random"]), rng, "seeded", i))
    # D. the stock MemoryConsumer (download_to_data)
    for i in range(a.mem):
        rng = random.Random("mem-%d-%d" % (a.seed, i))
        name = ["lit", "chk1", "chkN", "chkbig", "sdmf", "mdmf", "sdmfbig", "mdmfbig"][i % 8]
        size = len(w.files[name]["data"])
        off, ln = random_range(rng, size)
        fault = random_fault(rng, name) if (name != "lit" and rng.random() < 0.3) else NONE
        traces.append(w.mem_read(name, off, ln, fault, rng.choice(["fifo", "random"]), rng, i))
    # C. the web gateway as the consumer
    skipped = {}
    for i in range(a.web):
        rng = random.Random("web-%d-%d" % (a.seed, i))
        name = rng.choice(["lit", "chk1", "chkN", "chkN", "chkbig", "sdmf", "mdmf", "mdmf"])
        size = len(w.files[name]["data"])
        rr = None
        if rng.random() < 0.5:
            off = rng.randrange(0, size)
            rr = (off, rng.randrange(1, size - off + 1))
        fault = NONE
        if name.startswith("chk") and rng.random() < 0.2:
            fault = {"type": "from_write", "w": rng.choice([1, 1, 2, 3]), "mode": rng.choice(["raise", "disconnect"])}
        tr = w.web_read(name, rr, random_client(rng), fault, rng.choice(["fifo", "random"]), rng, i)
        if tr["consts"]["read_called"]:
            traces.append(tr)
        else:
            k = "%s:%s" % (name, tr["consts"]["status"])
            skipped[k] = skipped.get(k, 0) + 1
    w.g.close()
    shutil.rmtree(work, ignore_errors=True)
    with open(a.out, "w") as f:
        json.dump({"traces": traces, "web_without_read": skipped, "files": {k: {"kind": v["kind"], "size": len(v["data"]), "segsize": v["segsize"]}
                                                for k, v in w.files.items()}}, f)


if __name__ == "__main__":
    main()
