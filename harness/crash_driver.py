"""Crash driver for C29: run storage operations of a real StorageServer with a
crash layer that numbers every low-level, state-changing file system step of
allmydata.storage.immutable / mutable / server (file creation, each write(2) that
reaches the OS, truncate, rename, unlink, mkdir, rmdir) and can kill the "process"
right after the n-th one (a BaseException; every later step is dropped, as after
SIGKILL).  For every operation of a seeded workload and EVERY crash index the
driver restarts a new StorageServer on the directory and records what the real
code reads back.  Output: one trace per (operation, crash index) for
spec/storage/TraceShareFileDisk.tla: the files before the operation (bytes),
the recorded steps up to the crash, and the real post-restart observation.
The invariants are decided by TLC on the Spec's own recovery of the bytes.
"""
import argparse, builtins, hashlib, io, json, os, random, shutil, struct, sys, tempfile

from vreactor import vr
import allmydata.storage.immutable as imm_mod
import allmydata.storage.mutable as mut_mod
import allmydata.storage.server as srv_mod
from allmydata.util import fileutil
from allmydata.storage.server import StorageServer
from allmydata.storage.immutable import ShareFile
from allmydata.storage.mutable import MutableShareFile
from allmydata.storage.common import storage_index_to_dir, si_b2a

SI = {"iA": b"\x11" * 16, "iB": b"\x6c" * 16, "mA": b"\x83" * 16, "mB": b"\xd5" * 16}
KIND = {"iA": "imm", "iB": "imm", "mA": "mut", "mB": "mut"}
BIG = 10 ** 6


class Crash(BaseException):
    pass


class Layer:
    """Numbers the steps; crash_at = n kills right after the n-th step (0 = before the first)."""
    def __init__(self):
        self.active = False
        self.dead = False
        self.steps = []
        self.crash_at = None
        self.root = None
        self.bufsize = None      # None: what open() would choose; an int: that buffer size

    def start(self, root, crash_at):
        self.active, self.dead, self.steps, self.crash_at, self.root = True, False, [], crash_at, root
        if crash_at == 0:
            self.dead = True
            raise Crash()

    def stop(self):
        self.active = False

    def rel(self, p):
        return os.path.relpath(os.path.abspath(p), self.root)

    def step(self, **kw):
        self.steps.append(kw)
        if self.crash_at is not None and len(self.steps) == self.crash_at:
            self.dead = True
            raise Crash()


L = Layer()
_real_open = builtins.open


class RawRec(io.FileIO):
    """The raw file under Python's buffering: one write() here is one write(2)."""
    def write(self, b):
        if not L.active:
            return io.FileIO.write(self, b)
        if L.dead:
            return len(b)
        off = self.tell()
        data = bytes(b)
        n = io.FileIO.write(self, data)
        L.step(k="write", p=L.rel(self.name), off=off, data=list(data[:n]))
        return n

    def truncate(self, size=None):
        if not L.active:
            return io.FileIO.truncate(self, size)
        if L.dead:
            return size
        if size is None:
            size = self.tell()
        r = io.FileIO.truncate(self, size)
        L.step(k="truncate", p=L.rel(self.name), n=size)
        return r


def rec_open(path, mode="r", *a, **kw):
    if not L.active or "b" not in mode or mode == "rb":
        return _real_open(path, mode, *a, **kw)
    if L.dead:
        # the process is gone: nothing may reach the disk any more
        if not os.path.exists(path):
            raise Crash()
        return _real_open(path, "rb")
    m = mode.replace("b", "")
    existed = os.path.exists(path)
    raw = RawRec(path, m)
    if "w" in m:
        try:
            L.step(k="create", p=L.rel(path))
        except Crash:
            raw.close()
            raise
    bs = L.bufsize
    if bs is None:
        # builtins.open(): the device block size, else io.DEFAULT_BUFFER_SIZE
        bs = getattr(raw, "_blksize", 0)
        if sys.version_info >= (3, 13):
            bs = max(min(bs, 8 * 1024 * 1024), io.DEFAULT_BUFFER_SIZE)
        if bs <= 1:
            bs = io.DEFAULT_BUFFER_SIZE
    return io.BufferedRandom(raw, buffer_size=bs) if "+" in m else io.BufferedWriter(raw, buffer_size=bs)


class OsProxy:
    """os as seen by the storage modules: the mutating calls are steps."""
    def __init__(self, real):
        self._real = real

    def __getattr__(self, name):
        return getattr(self._real, name)

    def _do(self, kind, fn, *args):
        if not L.active:
            return fn(*args)
        if L.dead:
            return None
        r = fn(*args)
        if kind == "rename":
            L.step(k="rename", p=L.rel(args[0]), q=L.rel(args[1]))
        else:
            L.step(k=kind, p=L.rel(args[0]))
        return r

    def unlink(self, p):
        return self._do("unlink", self._real.unlink, p)

    def remove(self, p):
        return self._do("unlink", self._real.remove, p)

    def rmdir(self, p):
        return self._do("rmdir", self._real.rmdir, p)

    def rename(self, a, b):
        return self._do("rename", self._real.rename, a, b)


_real_make_dirs = fileutil.make_dirs
_real_rename = fileutil.rename


def rec_make_dirs(dirname, mode=0o777):
    if not L.active:
        return _real_make_dirs(dirname, mode)
    if L.dead:
        return None
    if os.path.isdir(dirname):
        return _real_make_dirs(dirname, mode)
    r = _real_make_dirs(dirname, mode)
    L.step(k="mkdir", p=L.rel(dirname))
    return r


def rec_rename(src, dst, *a, **kw):
    if not L.active:
        return _real_rename(src, dst, *a, **kw)
    if L.dead:
        return None
    r = _real_rename(src, dst, *a, **kw)
    L.step(k="rename", p=L.rel(src), q=L.rel(dst))
    return r


def install():
    imm_mod.open = rec_open
    mut_mod.open = rec_open
    imm_mod.os = OsProxy(os)
    mut_mod.os = OsProxy(os)
    srv_mod.os = OsProxy(os)
    fileutil.make_dirs = rec_make_dirs
    fileutil.rename = rec_rename


# ------------------------------------------------------------------ names
def share_rel(name, shnum, incoming=False):
    d = storage_index_to_dir(SI[name])
    return os.path.join("shares", "incoming", d, str(shnum)) if incoming else os.path.join("shares", d, str(shnum))


def build_names():
    m = {}
    for name in SI:
        for sh in (0, 1):
            m[share_rel(name, sh)] = "final/%s/%d" % (name, sh)
            m[share_rel(name, sh, True)] = "incoming/%s/%d" % (name, sh)
    return m


NAMES = build_names()
PATHS = {v: {"area": v.split("/")[0], "kind": KIND[v.split("/")[1]]} for v in NAMES.values()}


def secrets(tag):
    h = hashlib.sha256(tag.encode()).digest()
    return h, hashlib.sha256(h).digest()


def new_server(root):
    return StorageServer(root, b"\x05" * 20, clock=vr)


# ------------------------------------------------------------------ observation through the real code
def raw_lease(l, kind):
    li = getattr(l, "_lease_info", l)
    return list(li.to_immutable_data() if kind == "imm" else li.to_mutable_data())


def observe(ss, root):
    obs = {}
    for rel, pid in NAMES.items():
        p = os.path.join(root, rel)
        kind = PATHS[pid]["kind"]
        o = {"present": os.path.exists(p), "dok": False, "data": [], "lok": False, "leases": []}
        if o["present"] and PATHS[pid]["area"] == "final":
            name, sh = pid.split("/")[1], int(pid.split("/")[2])
            try:
                if kind == "imm":
                    o["data"] = list(ss.get_buckets(SI[name])[sh].read(0, BIG))
                else:
                    o["data"] = list(ss.slot_readv(SI[name], [sh], [(0, BIG)])[sh][0])
                o["dok"] = True
            except Exception as e:
                o["derr"] = type(e).__name__
            try:
                sf = ShareFile(p) if kind == "imm" else MutableShareFile(p)
                o["leases"] = [raw_lease(l, kind) for l in sf.get_leases()]
                o["lok"] = True
            except Exception as e:
                o["lerr"] = type(e).__name__
                o["leases"] = []
        obs[pid] = o
    return obs


def snapshot(root):
    fs = {}
    for rel, pid in NAMES.items():
        p = os.path.join(root, rel)
        if os.path.exists(p):
            with _real_open(p, "rb") as f:
                fs[pid] = list(f.read())
    return fs


# ------------------------------------------------------------------ workload
def upload(ss, name, shares, tag, close=True):
    """shares: {shnum: bytes}"""
    rs, cs = secrets(tag)
    size = max(len(d) for d in shares.values())
    already, writers = ss.allocate_buckets(SI[name], rs, cs, set(shares), size)
    for sh, d in shares.items():
        writers[sh].write(0, d)
        if close:
            writers[sh].close()
    return writers


def mwrite(ss, name, tw, tag="m0"):
    we = hashlib.sha256(("we" + name).encode()).digest()
    rs, cs = secrets(tag)
    ok, _ = ss.slot_testv_and_readv_and_writev(SI[name], (we, rs, cs), tw, [])
    assert ok
    return ok


def tick(dt=1000):
    vr.rightNow += dt


def rbytes(rng, n):
    return bytes(rng.randrange(1, 256) for _ in range(n))


def scenarios(rng, tier):
    """Yield (kind, lease_only, targets, expect, setup(ss), op(ss))."""
    out = []
    quick = tier == "quick"

    # ---- immutable upload: two shares allocated, share 0 written in chunks and closed, share 1 left in progress
    for rep in range(1 if quick else 6):
        size = rng.randint(6, 24)
        d0, d1, other = rbytes(rng, size), rbytes(rng, size), rbytes(rng, rng.randint(3, 12))
        cuts = sorted(rng.sample(range(1, size), min(size - 1, rng.randint(1, 3))))
        chunks = [(a, d0[a:b]) for a, b in zip([0] + cuts, cuts + [size])]
        if rng.random() < 0.5:
            rng.shuffle(chunks)
        partial = rng.randint(0, size - 1)

        def setup(ss, other=other):
            upload(ss, "iB", {0: other}, "iB-up")

        def op(ss, d1=d1, chunks=chunks, size=size, partial=partial):
            rs, cs = secrets("iA-up")
            already, writers = ss.allocate_buckets(SI["iA"], rs, cs, {0, 1}, size)
            if partial:
                writers[1].write(0, d1[:partial])
            for off, c in chunks:
                writers[0].write(off, c)
            writers[0].close()
        out.append(("imm_upload", False, ["final/iA/0", "final/iA/1"], {"final/iA/0": list(d0), "final/iA/1": list(d1)}, setup, op))

    # ---- allocate_buckets on a bucket that already holds a share: the existing share only receives the new lease
    for rep in range(1 if quick else 4):
        size = rng.randint(5, 16)
        d0, d1, other = rbytes(rng, size), rbytes(rng, size), rbytes(rng, 7)
        nl = rng.randint(1, 3)

        def setup(ss, d0=d0, other=other, nl=nl):
            upload(ss, "iB", {0: other}, "iB-up")
            upload(ss, "iA", {0: d0}, "lease0")
            for k in range(1, nl):
                tick()
                ss.add_lease(SI["iA"], *secrets("lease%d" % k))
            tick()

        def op(ss, d1=d1, size=size):
            rs, cs = secrets("second-uploader")
            already, writers = ss.allocate_buckets(SI["iA"], rs, cs, {0, 1}, size)
            assert already == {0} and set(writers) == {1}
            writers[1].write(0, d1)
            writers[1].close()
        out.append(("imm_allocate_existing", False, ["final/iA/1"], {"final/iA/1": list(d1)}, setup, op))

    # ---- immutable add_lease / renew_lease on shares holding n leases
    for n in ([1, 2, 3, 5] if quick else [1, 2, 3, 4, 5, 1, 3, 5]):
        d0, d1, other = rbytes(rng, rng.randint(4, 16)), rbytes(rng, rng.randint(4, 16)), rbytes(rng, 5)
        two = rng.random() < 0.6

        def setup(ss, n=n, d0=d0, d1=d1, other=other, two=two):
            upload(ss, "iB", {0: other}, "iB-up")
            upload(ss, "iA", {0: d0, 1: d1} if two else {0: d0}, "lease0")
            for k in range(1, n):
                tick()
                ss.add_lease(SI["iA"], *secrets("lease%d" % k))
            tick()

        def op_add(ss):
            ss.add_lease(SI["iA"], *secrets("lease-new"))
        out.append(("imm_add_lease", True, ["final/iA/0", "final/iA/1"], {}, setup, op_add))
        k = rng.randrange(n)

        def op_renew(ss, k=k):
            ss.renew_lease(SI["iA"], secrets("lease%d" % k)[0])
        out.append(("imm_renew_lease", True, ["final/iA/0", "final/iA/1"], {}, setup, op_renew))

    # ---- the lease checker's primitive (expirer.py process_share -> cancel_lease): one lease of a share holding n
    # ---- leases is cancelled; the leases stored behind it are the ones a crash must not lose
    for n in ([1, 2, 3, 5] if quick else [1, 2, 3, 4, 5, 2, 3, 5]):
        d0, d1, other = rbytes(rng, rng.randint(4, 16)), rbytes(rng, rng.randint(4, 16)), rbytes(rng, 5)

        def setup(ss, n=n, d0=d0, d1=d1, other=other):
            upload(ss, "iB", {0: other}, "iB-up")
            upload(ss, "iA", {0: d0, 1: d1}, "lease0")
            for k in range(1, n):
                tick()
                ss.add_lease(SI["iA"], *secrets("lease%d" % k))
            tick()
        k = 0 if rng.random() < 0.6 else rng.randrange(n)

        def op_cancel(ss, k=k):
            from allmydata.storage.shares import get_share_file
            get_share_file(os.path.join(ss.sharedir, storage_index_to_dir(SI["iA"]), "0")).cancel_lease(secrets("lease%d" % k)[1])
        op_cancel.cancel = ("iA", "lease%d" % k)
        out.append(("imm_cancel_lease", False, ["final/iA/0"], {}, setup, op_cancel))

    # ---- the same on a share larger than Python's file buffer (default buffering only)
    for rep in range(1 if quick else 2):
        big = rbytes(rng, 4200 + rng.randint(0, 300))

        def setup(ss, big=big):
            upload(ss, "iB", {0: b"other"}, "iB-up")
            upload(ss, "iA", {0: big}, "lease0")
            tick()

        def op_add(ss):
            ss.add_lease(SI["iA"], *secrets("lease-new"))
        out.append(("imm_add_lease", True, ["final/iA/0", "final/iA/1"], {}, setup, op_add, "os"))

    # ---- mutable: creation of two shares
    for rep in range(1 if quick else 3):
        d0, d1, other = rbytes(rng, rng.randint(5, 30)), rbytes(rng, rng.randint(5, 30)), rbytes(rng, 9)

        def setup(ss, other=other):
            mwrite(ss, "mB", {0: ([], [(0, other)], None)})

        def op(ss, d0=d0, d1=d1):
            mwrite(ss, "mA", {0: ([], [(0, d0)], None), 1: ([], [(0, d1[:3]), (3, d1[3:])], None)})
        out.append(("mut_create", False, ["final/mA/0", "final/mA/1"], {}, setup, op))

    # ---- mutable lease operations and writes on a share holding n leases (n > 4: extra lease area in use)
    def msetup(n, d0, d1, other):
        def setup(ss):
            mwrite(ss, "mB", {0: ([], [(0, other)], None)})
            mwrite(ss, "mA", {0: ([], [(0, d0)], None), 1: ([], [(0, d1)], None)}, tag="mlease0")
            for k in range(1, n):
                tick()
                ss.add_lease(SI["mA"], *secrets("mlease%d" % k))
            tick()
        return setup

    for n in ([1, 3, 4, 5] if quick else [1, 2, 3, 4, 5, 6, 4, 5]):
        d0, d1, other = rbytes(rng, rng.randint(5, 30)), rbytes(rng, rng.randint(5, 30)), rbytes(rng, 9)
        setup = msetup(n, d0, d1, other)

        def op_add(ss):
            ss.add_lease(SI["mA"], *secrets("mlease-new"))
        out.append(("mut_add_lease", True, ["final/mA/0", "final/mA/1"], {}, setup, op_add))
        k = rng.randrange(n)

        def op_renew(ss, k=k):
            ss.renew_lease(SI["mA"], secrets("mlease%d" % k)[0])
        out.append(("mut_renew_lease", True, ["final/mA/0", "final/mA/1"], {}, setup, op_renew))

    for n in ([1, 3, 5, 6] if quick else [1, 2, 3, 4, 5, 6, 7, 5]):
        d0, d1, other = rbytes(rng, rng.randint(5, 30)), rbytes(rng, rng.randint(5, 30)), rbytes(rng, 9)
        setup = msetup(n, d0, d1, other)
        k = 0 if rng.random() < 0.6 else rng.randrange(n)

        def op_mcancel(ss, k=k):
            from allmydata.storage.shares import get_share_file
            get_share_file(os.path.join(ss.sharedir, storage_index_to_dir(SI["mA"]), "0")).cancel_lease(secrets("mlease%d" % k)[1])
        op_mcancel.cancel = ("mA", "mlease%d" % k)
        out.append(("mut_cancel_lease", False, ["final/mA/0"], {}, setup, op_mcancel))

    for n in ([6, 5] if quick else [5, 6, 7, 1, 6]):
        L0 = rng.randint(8, 30)
        d0, d1, other = rbytes(rng, L0), rbytes(rng, rng.randint(5, 30)), rbytes(rng, 9)
        setup = msetup(n, d0, d1, other)
        grow = rbytes(rng, rng.randint(3, 12))
        goff = L0 + rng.choice([0, 0, 3, 200])

        def op_grow(ss, grow=grow, goff=goff):
            mwrite(ss, "mA", {0: ([], [(goff, grow)], None)}, tag="mlease0")
        out.append(("mut_grow", False, ["final/mA/0"], {}, setup, op_grow))
        ioff = rng.randint(0, L0 - 3)
        patch = rbytes(rng, rng.randint(1, L0 - ioff))

        def op_inplace(ss, ioff=ioff, patch=patch):
            mwrite(ss, "mA", {0: ([], [(ioff, patch)], None)}, tag="mlease0")
        out.append(("mut_write_inplace", False, ["final/mA/0"], {}, setup, op_inplace))
        nl = rng.randint(1, L0 - 1)

        def op_trunc(ss, nl=nl):
            mwrite(ss, "mA", {0: ([], [], nl)}, tag="mlease0")
        out.append(("mut_truncate", False, ["final/mA/0"], {}, setup, op_trunc))

        def op_delete(ss):
            mwrite(ss, "mA", {0: ([], [], 0)}, tag="mlease0")
        out.append(("mut_delete", False, ["final/mA/0"], {}, setup, op_delete))

        def op_delete_all(ss):
            mwrite(ss, "mA", {0: ([], [], 0), 1: ([], [], 0)}, tag="mlease0")
        out.append(("mut_delete_bucket", False, ["final/mA/0", "final/mA/1"], {}, setup, op_delete_all))
    return out


def abstract_steps(steps):
    out = []
    for s in steps:
        t = dict(s)
        t["p"] = NAMES.get(s["p"], "dir:" + s["p"])
        if "q" in t:
            t["q"] = NAMES.get(s["q"], "dir:" + s["q"])
        for k, dflt in (("off", 0), ("data", []), ("n", 0), ("q", "")):
            t.setdefault(k, dflt)
        out.append(t)
    return out


def run_with_crash(base, work, op, crash_at):
    root = tempfile.mkdtemp(prefix="c", dir=work)
    os.rmdir(root)
    shutil.copytree(base, root)
    vr0 = vr.rightNow
    ss = new_server(root)
    completed = False
    try:
        try:
            L.start(root, crash_at)
            op(ss)
            completed = True
        except Crash:
            pass
    finally:
        L.stop()
    steps = abstract_steps(L.steps)
    for dc in vr.getDelayedCalls():
        dc.cancel()
    del ss
    ss2 = new_server(root)          # the restart: _clean_incomplete etc.
    obs = observe(ss2, root)
    for dc in vr.getDelayedCalls():
        dc.cancel()
    vr.rightNow = vr0
    shutil.rmtree(root, ignore_errors=True)
    return steps, obs, completed


def main():
    # a container whose length fields were overwritten can make a reader ask for terabytes: let that surface as a
    # MemoryError of the scenario (an observation) instead of the kernel killing the whole driver
    import resource
    resource.setrlimit(resource.RLIMIT_AS, (3 << 30, 3 << 30))
    ap = argparse.ArgumentParser()
    ap.add_argument("--out"); ap.add_argument("--seed", type=int, default=0); ap.add_argument("--tier", default="quick")
    ap.add_argument("--in", dest="inp")
    a = ap.parse_args()
    rng = random.Random(1000 + a.seed)
    install()
    work = tempfile.mkdtemp(prefix="crashrun")
    traces = []
    try:
        runs = []
        scs = []
        for rnd in range(1 if a.tier == "quick" else 4):
            scs += scenarios(rng, a.tier)
        for sc in scs:
            if len(sc) == 7:
                runs.append(sc)
            elif sc[0] in ("imm_add_lease", "imm_renew_lease", "imm_allocate_existing", "mut_add_lease", "mut_grow", "imm_cancel_lease", "mut_cancel_lease"):
                runs.append(sc + ("os",))
                runs.append(sc + ("small",))
            else:
                runs.append(sc + (rng.choice(["os", "small"]),))
        for sn, (kind, lease_only, targets, expect, setup, op, bufmode) in enumerate(runs):
            # "small": a 64-byte buffer stands for shares much larger than the buffer (seeks leave it);
            # "os": the buffer open() would use (whole small containers fit, consecutive writes coalesce)
            L.bufsize = 64 if bufmode == "small" else None
            vr.rightNow = 1000000.0 + 5000 * sn
            base = tempfile.mkdtemp(prefix="base", dir=work)
            ss = new_server(base)
            try:
                setup(ss)
            except Exception as e:      # building the state the operation starts from (uploads, writes, leases: no crash) raised
                import traceback
                traces.append({"consts": {"op": kind, "scenario": sn, "bufmode": bufmode, "phase": "setup"}, "events": [],
                               "exception": "%s: %s" % (type(e).__name__, str(e)[:200]),
                               "where": traceback.format_exc().strip().splitlines()[-3].strip()[:200]})
                shutil.rmtree(base, ignore_errors=True)
                continue
            for dc in vr.getDelayedCalls():
                dc.cancel()
            del ss
            t_op = vr.rightNow
            fs0 = snapshot(base)
            extra = {}
            if hasattr(op, "cancel"):
                # the lease records that the operation is asked to remove (every record carrying that cancel secret)
                name, tag = op.cancel
                p0 = os.path.join(base, share_rel(name, 0))
                try:
                    sf0 = ShareFile(p0) if KIND[name] == "imm" else MutableShareFile(p0)
                    extra["cancel"] = [raw_lease(l, KIND[name]) for l in sf0.get_leases() if l.is_cancel_secret(secrets(tag)[1])]
                except Exception as e:  # the container that setup built cannot be read back
                    import traceback
                    traces.append({"consts": {"op": kind, "scenario": sn, "bufmode": bufmode, "phase": "setup"}, "events": [],
                                   "exception": "%s: %s" % (type(e).__name__, str(e)[:200]),
                                   "where": traceback.format_exc().strip().splitlines()[-3].strip()[:200]})
                    shutil.rmtree(base, ignore_errors=True)
                    continue
            try:
                steps_full, obs_full, completed = run_with_crash(base, work, op, None)
            except Exception as e:      # the operation (or the restart after it) raised without any crash injected
                import traceback
                traces.append({"consts": {"op": kind, "scenario": sn, "bufmode": bufmode}, "events": [],
                               "exception": "%s: %s" % (type(e).__name__, str(e)[:200]),
                               "where": traceback.format_exc().strip().splitlines()[-3].strip()[:200]})
                shutil.rmtree(base, ignore_errors=True)
                continue
            assert completed
            n = len(steps_full)
            for i in range(0, n + 1):
                vr.rightNow = t_op
                try:
                    steps, obs, completed = run_with_crash(base, work, op, i)
                except Exception as e:  # the restart after a crash at step i raised
                    import traceback
                    traces.append({"consts": {"op": kind, "scenario": sn, "bufmode": bufmode, "crash_at": i}, "events": [],
                                   "exception": "%s: %s" % (type(e).__name__, str(e)[:200]),
                                   "where": traceback.format_exc().strip().splitlines()[-3].strip()[:200]})
                    continue
                if steps != steps_full[:i]:
                    raise SystemExit("non-deterministic step sequence in %s at %d" % (kind, i))
                traces.append({"consts": {"op": kind, "scenario": sn, "lease_only": lease_only, "targets": targets, "paths": PATHS,
                                          "fs0": fs0, "steps": steps, "expect": expect,
                                          "lease_targets": ["final/iA/0"] if kind == "imm_allocate_existing" else [], "crash_at": i, "nsteps": n, "bufmode": bufmode,
                                          "completed": bool(completed), **extra},
                               "events": [{"obs": obs}]})
            shutil.rmtree(base, ignore_errors=True)
    finally:
        shutil.rmtree(work, ignore_errors=True)
    json.dump(traces, open(a.out, "w"))


if __name__ == "__main__":
    main()
