"""Drive real StorageFarmBrokers ("two clients") and record what
get_servers_for_psi answers, for TraceServerOrder.tla.

Per scenario: seeded storage servers (real ed25519 ids, announcements with or
without an explicit permutation seed, grid-manager certificates made by the
real _GridManager.sign and tampered to abstract flags as in C33), one
configuration (preferred peers, grid-manager keys) given to two independently
constructed brokers, either directly (StorageClientConfig(...)) or through the
production path (tahoe.cfg text -> config_from_string ->
StorageClientConfig.from_node_config).  Client A learns servers through
_got_announcement (what the introducer client calls) and connections through
NativeStorageServer._got_versioned_service / _lost; client B through
test_add_rref; the insertion orders differ.  The servers' grid-manager
verifiers are the real ones built by _make_storage_server; the only clock they
see is allmydata.grid_manager.current_datetime_with_zone, rebound to the
scenario clock.

`rank` is computed here, independently of permute_server_hash and of the
server objects: position of SHA1(psi + seed) among the scenario's servers, with
seed = explicit permutation-seed-base32, else the 32 key bytes of the id.
"""
from vreactor import vr  # noqa: F401
import argparse, base64, hashlib, json, os, random

from twisted.application import service
from allmydata.crypto import ed25519
from allmydata.util import base32, jsonbytes
import allmydata.grid_manager as gm
from allmydata.storage_client import StorageFarmBroker, StorageClientConfig
from allmydata.node import config_from_string
from allmydata import client as client_mod

from gridmanager_driver import World, seeded_private

SIGNERS = ["g1", "g2", "g3"]


class StubReconnector:
    def stopConnecting(self):
        pass

    def reset(self):
        pass


class StubTub(service.MultiService):
    def connectTo(self, furl, cb):
        return StubReconnector()


class StubRref:
    version = {}

    def __init__(self):
        self.cbs = []

    def notifyOnDisconnect(self, cb, *a, **kw):
        self.cbs.append((cb, a, kw))

    def getDataLastReceivedAt(self):
        return None

    def lose(self):
        cbs, self.cbs = self.cbs, []
        for cb, a, kw in cbs:
            cb(*a, **kw)


def b32dec(s):
    """independent base32 decoding (python's base64 module)"""
    s = s.upper()
    s += b"=" * ((8 - len(s) % 8) % 8)
    return base64.b32decode(s)


class Scenario:
    def __init__(self, rng, cfgmode):
        self.rng = rng
        self.cfgmode = cfgmode
        n = rng.randint(3, 7)
        self.sids = ["s%d" % (i + 1) for i in range(n)]
        self.world = World(rng, SIGNERS, self.sids)
        self.now = [5]
        self.keys = rng.choice([[], [], ["g1"], ["g1"], ["g2"], ["g1", "g2"]])
        self.server_id = {}
        self.ann = {}
        self.seed = {}
        self.certs = {}
        for s in self.sids:
            pub = self.world.pub(s)                       # b"pub-v0-..."
            sid = pub[len(b"pub-"):]
            self.server_id[s] = sid
            tubid = base32.b2a(bytes(rng.getrandbits(8) for _ in range(20))).decode("ascii")
            ann = {"anonymous-storage-FURL": "pb://%s@tcp:127.0.0.1:%d/swiss%s" % (tubid, 1000 + len(self.ann), s),
                   "nickname": "node-" + s, "service-name": "storage"}
            if rng.random() < 0.5:
                raw = bytes(rng.getrandbits(8) for _ in range(rng.choice([20, 32])))
                ann["permutation-seed-base32"] = base32.b2a(raw).decode("ascii")
                self.seed[s] = raw
            else:
                self.seed[s] = b32dec(sid[3:])
            kinds = self.cert_kinds(s, malformed=0.04)
            self.certs[s] = kinds
            real = self.real_certs(s, kinds)
            if real or rng.random() < 0.5:
                ann["grid-manager-certificates"] = real
            self.ann[s] = ann
        k = rng.choice([0, 0, 1, 2, 3])
        self.preferred = rng.sample(self.sids, min(k, n))
        # tahoe.cfg mode: some or all of the configured grid-manager keys are damaged
        self.damaged = []
        if cfgmode == "cfg" and self.keys and rng.random() < 0.25:
            self.damaged = list(self.keys) if rng.random() < 0.6 else [rng.choice(self.keys)]
        self.config_refused = False
        self.events = []
        self.clients = {}
        self.rrefs = {"A": {}, "B": {}}

    def cert_kinds(self, s, malformed=0.0):
        rng = self.rng
        kinds = []
        for _ in range(rng.choice([0, 1, 1, 1, 2])):
            c = {"signer": rng.choice(SIGNERS), "subject": s if rng.random() < 0.8 else rng.choice([o for o in self.sids if o != s]),
                 "expires": rng.choice([10, 20]), "tamper": rng.choices(["none", "cert", "sig"], weights=[7, 1, 1])[0]}
            if c not in kinds:
                kinds.append(c)
        if rng.random() < 0.3 and len(self.sids) > 1:
            # the combination that separates "some valid certificate names this server" from "this server's
            # certificate is valid": an own certificate that expires early next to a later one issued to another server
            sg = rng.choice(self.keys) if self.keys and rng.random() < 0.8 else rng.choice(SIGNERS)
            kinds = [{"signer": sg, "subject": s, "expires": 10, "tamper": "none"},
                     {"signer": sg, "subject": rng.choice([o for o in self.sids if o != s]), "expires": 20, "tamper": "none"}]
            if rng.random() < 0.5:
                kinds.reverse()
        if rng.random() < malformed:
            # an entry that is not a well-formed certificate at all (it names this server and would not have expired)
            sg = rng.choice(self.keys) if self.keys and rng.random() < 0.5 else rng.choice(SIGNERS)
            kinds.insert(rng.randrange(len(kinds) + 1), {"signer": sg, "subject": s, "expires": 20, "tamper": "malformed"})
        return kinds

    def real_certs(self, s, kinds):
        rng = self.rng
        real = []
        for c in kinds:
            if c["tamper"] == "malformed":
                d = json.loads(jsonbytes.dumps(self.world.cert(dict(c, tamper="none"), 0, target=s).marshal()))
                how = rng.randrange(4)
                if how == 0:
                    d["signature"] = d["signature"][:-1]
                elif how == 1:
                    d["signature"] = "!!" + d["signature"][2:]
                elif how == 2:
                    del d["signature"]
                else:
                    d = "certificate"
                real.append(d)
                continue
            sc = self.world.cert(c, rng.randrange(2), target=s)
            real.append(json.loads(jsonbytes.dumps(sc.marshal())))
        return real

    def make_broker(self, basedir):
        gmkeys = [self.world.gms[k]._public_key for k in self.keys]
        pref_ids = [self.server_id[s] for s in self.preferred]
        text = "[node]\nnickname = x\n[client]\n"
        if pref_ids:
            text += "peers.preferred = %s\n" % ",".join(p.decode("ascii") for p in pref_ids)
        if self.keys:
            text += "[grid_managers]\n"
            for k in self.keys:
                ident = self.world.gms[k].public_identity().decode("ascii")
                if k in self.damaged:
                    # a key that lost a character when it was pasted: configured, but not a key
                    ident = ident[:len(ident) // 2] + ident[len(ident) // 2 + 1:]
                text += "%s = %s\n" % (k, ident)
        config = config_from_string(basedir, "client.port", text, _valid_config=client_mod._valid_config())
        if self.cfgmode == "cfg":
            scc = StorageClientConfig.from_node_config(config)
        else:
            scc = StorageClientConfig(preferred_peers=tuple(pref_ids), grid_manager_keys=gmkeys)
        return StorageFarmBroker(True, lambda h=None: StubTub(), config, scc)

    # ---- operations on the real brokers ----
    def announce(self, c, s):
        """hand the client's current announcement of s to the broker (A: as the introducer client does; B: test_add_rref, which
        connects at once); what the broker made of it is part of the event"""
        b = self.clients[c]
        sid = self.server_id[s]
        ann, kinds = self.cur[c][s]
        err = ""
        try:
            if c == "A":
                b._got_announcement(sid, json.loads(json.dumps(ann)))
            else:
                b.test_add_rref(sid, StubRref(), json.loads(json.dumps(ann)))
        except Exception as e:
            err = "%s: %s" % (type(e).__name__, str(e)[:120])
        conn = sid in b.servers and bool(b.servers[sid].is_connected())
        self.events.append({"ev": "Announce", "client": c, "sid": s, "certs": kinds, "accepted": err == "", "known": sid in b.servers,
                            "connected": conn, "err": err})

    def reannounce(self, c, s):
        """the server publishes again: other certificates (and sometimes nothing else), or the identical announcement"""
        rng = self.rng
        ann, kinds = self.cur[c][s]
        ann = dict(ann)
        r = rng.random()
        if r < 0.75:
            kinds = self.cert_kinds(s, malformed=0.15)
            real = self.real_certs(s, kinds)
            if real or rng.random() < 0.5:
                ann["grid-manager-certificates"] = real
            else:
                ann.pop("grid-manager-certificates", None)
        if 0.6 < r < 0.85:
            ann["my-version"] = "tahoe-lafs/1.%d" % rng.randrange(20)
        self.cur[c][s] = (ann, kinds)
        self.announce(c, s)

    def set(self, c, s, connected):
        b = self.clients[c]
        sid = self.server_id[s]
        if c == "A":
            if sid not in b.servers:
                self.announce(c, s)
                if sid not in b.servers:
                    return               # the broker refused the announcement: the server stays unknown to this client
            srv = b.servers[sid]
            if connected and not srv.is_connected():
                r = StubRref()
                self.rrefs[c][s] = r
                srv._got_versioned_service(r, None)
            elif not connected and srv.is_connected():
                self.rrefs[c][s].lose()
        else:
            if connected:
                if sid not in b.servers or not b.servers[sid].is_connected():
                    self.announce(c, s)
                    return
            elif sid in b.servers and b.servers[sid].is_connected():
                b.servers[sid]._lost()
        self.events.append({"ev": "Set", "client": c, "sid": s, "connected": bool(connected)})

    def permits(self, c):
        """upload_permitted() of every server object the client holds, at the current time"""
        b = self.clients[c]
        out = {}
        for s in self.sids:
            sid = self.server_id[s]
            if sid in b.servers:
                out[s] = bool(b.servers[sid].upload_permitted())
        self.events.append({"ev": "Permits", "client": c, "now": self.now[0], "res": out})

    def rank(self, psi):
        order = sorted(self.sids, key=lambda s: hashlib.sha1(psi + self.seed[s]).digest())
        return {s: i for i, s in enumerate(order)}

    def ask(self, c, psi, for_upload):
        back = {v: k for k, v in self.server_id.items()}
        res = self.clients[c].get_servers_for_psi(psi, for_upload=for_upload)
        return [back.get(srv.get_serverid(), "?") for srv in res]

    def run(self, basedir, nevents):
        rng = self.rng
        saved = gm.current_datetime_with_zone
        gm.current_datetime_with_zone = lambda: self.world.t(self.now[0])
        try:
            try:
                self.clients = {"A": self.make_broker(basedir), "B": self.make_broker(basedir)}
            except Exception as e:
                if not self.damaged:
                    raise
                # the node refuses to start with such a configuration: nothing is uploaded anywhere
                self.config_refused = True
                self.events.append({"ev": "ConfigRefused", "error": type(e).__name__})
                return
            self.cur = {c: {s_: (self.ann[s_], self.certs[s_]) for s_ in self.sids} for c in ("A", "B")}
            for c in ("A", "B"):
                order = list(self.sids)
                rng.shuffle(order)
                for s in order:
                    if rng.random() < 0.9:
                        self.set(c, s, True)
            for _ in range(nevents):
                r = rng.random()
                psi = bytes(rng.getrandbits(8) for _ in range(16))
                self.now[0] = rng.choice([5, 15, 25, 3, 12, 19, 21])      # never the instants 10 / 20 (see C33)
                fu = rng.random() < 0.6
                if r < 0.12:
                    self.reannounce(rng.choice("AB"), rng.choice(self.sids))
                elif r < 0.2:
                    self.permits(rng.choice("AB"))
                elif r < 0.3:
                    c = rng.choice("AB")
                    s = rng.choice(self.sids)
                    b = self.clients[c]
                    sid = self.server_id[s]
                    cur = sid in b.servers and b.servers[sid].is_connected()
                    self.set(c, s, not cur)
                elif r < 0.5:
                    c = rng.choice("AB")
                    self.events.append({"ev": "Query", "client": c, "psi": base32.b2a(psi).decode("ascii"), "forUpload": fu, "now": self.now[0],
                                        "rank": self.rank(psi), "res": self.ask(c, psi, fu)})
                else:
                    if rng.random() < 0.6:
                        # bring the two clients to the same announcements and the same connected set first
                        for s in self.sids:
                            if self.cur["A"][s] is not self.cur["B"][s] and self.cur["A"][s] != self.cur["B"][s]:
                                self.cur["B"][s] = self.cur["A"][s]
                                self.announce("B", s)
                        for s in self.sids:
                            sid = self.server_id[s]
                            a = sid in self.clients["A"].servers and self.clients["A"].servers[sid].is_connected()
                            b = sid in self.clients["B"].servers and self.clients["B"].servers[sid].is_connected()
                            if a != b:
                                self.set("B", s, a)
                    self.events.append({"ev": "QueryBoth", "psi": base32.b2a(psi).decode("ascii"), "forUpload": fu, "now": self.now[0],
                                        "rank": self.rank(psi), "resA": self.ask("A", psi, fu), "resB": self.ask("B", psi, fu)})
        finally:
            gm.current_datetime_with_zone = saved

    def trace(self):
        good = [k_ for k_ in self.keys if k_ not in self.damaged]
        return {"consts": {"servers": self.sids, "keys": good, "configured": len(self.keys), "damaged": self.damaged, "preferred": self.preferred,
                           "certs": self.certs, "cfgmode": self.cfgmode,
                           "explicit_seed": sorted(s for s in self.sids if "permutation-seed-base32" in self.ann[s])},
                "events": self.events}


def main():
    ap = argparse.ArgumentParser()
    ap.add_argument("--out")
    ap.add_argument("--seed", type=int, default=0)
    ap.add_argument("--tier", default="quick")
    ap.add_argument("--in", dest="inp")
    ap.add_argument("--cfgmode", default="direct")
    ap.add_argument("--n", type=int, default=50)
    ap.add_argument("--events", type=int, default=10)
    a = ap.parse_args()
    traces = []
    basedir = os.path.join(os.getcwd(), "sob")
    os.makedirs(basedir, exist_ok=True)
    for i in range(a.n):
        rng = random.Random("C32/%s/%d/%d" % (a.cfgmode, a.seed, i))
        sc = Scenario(rng, a.cfgmode)
        sc.run(basedir, a.events)
        traces.append(sc.trace())
    with open(a.out, "w") as f:
        json.dump(traces, f)


if __name__ == "__main__":
    main()
