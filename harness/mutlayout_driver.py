"""Drive the real share proxies of allmydata/mutable/layout.py (extra `mutable_layout`).

SDMFSlotWriteProxy / MDMFSlotWriteProxy / pack_share write, MDMFSlotReadProxy / unpack_share read, one slot of a
real StorageServer per trace.  The proxies talk to `Recorder`, an IStorageServer that notes every
slot_testv_and_readv_and_writev / slot_readv (vectors, answer) and hands it to the real server; after every event
that may change the slot the container is read directly (MutableShareFile.readv) - the *image*.

Byte strings leave this file as run lists [[byte, count], ...] (images: [[byte, offset, count], ...]); every field
put into a share is filled with its own tag byte.  No rule about offsets, orders or checkstrings lives here: the
traces are judged by spec/mutable/TraceMutableLayout.tla.

Trace kinds
  case    one share of the Spec-enumerated parameter table (GenMutableLayout.tla, passed via --in): documented
          call order, then three readers (no prefetch, some prefetch, data_is_everything) run every get_* call
  order   seeded call sequences: out of order, wrong sizes, repeated puts, early finish_publishing
  cs      checkstrings: writers meet an existing share with no / the right / a wrong / the empty checkstring, a
          second finish_publishing, an intruder between two writes
  damage  truncated containers, poked offset tables, unknown version byte, then readers and unpack_share
"""
import argparse, json, os, random, shutil, struct, sys, tempfile

from vreactor import vr
from twisted.internet import defer
from twisted.python.failure import Failure

from allmydata.storage.server import StorageServer
from allmydata.storage.common import storage_index_to_dir
from allmydata.storage.mutable import MutableShareFile
from allmydata.mutable import layout as L
from allmydata.mutable.common import BadShareError

SECRETS = (b"w" * 32, b"r" * 32, b"c" * 32)
HASH, SALT = 32, 16


def runs(b):
    out = []
    for x in bytes(b):
        if out and out[-1][0] == x:
            out[-1][1] += 1
        else:
            out.append([x, 1])
    return out


def image_of(b):
    if b is None:
        return {"exists": False, "runs": []}
    out, off = [], 0
    for x, n in runs(b):
        out.append([x, off, n])
        off += n
    return {"exists": True, "runs": out}


class Recorder:
    """IStorageServer as far as the proxies use it; every call is noted and passed to the real StorageServer."""
    def __init__(self, ss):
        self.ss = ss
        self.calls = []

    def slot_testv_and_readv_and_writev(self, si, secrets, tw_vectors, r_vector):
        rec = {"kind": "w", "shnums": sorted(tw_vectors), "readv": [list(x) for x in r_vector]}
        self.calls.append(rec)
        wire = {k: ([(o, l, b"eq", s) for (o, l, s) in v[0]], v[1], v[2]) for k, v in tw_vectors.items()}
        if len(tw_vectors) == 1:
            (tv, dv, nl), = tw_vectors.values()
            rec["testv"] = [[o, l, runs(s)] for (o, l, s) in tv]
            rec["new_length"] = -1 if nl is None else nl
        d = defer.maybeDeferred(self.ss.slot_testv_and_readv_and_writev, si, secrets, wire, r_vector)

        def _done(res):
            if not isinstance(res, Failure):
                rec["wrote"] = bool(res[0])
            return res
        d.addBoth(_done)
        return d

    def slot_readv(self, si, shares, readv):
        self.calls.append({"kind": "r", "shnums": list(shares), "readv": [list(x) for x in readv]})
        return defer.maybeDeferred(self.ss.slot_readv, si, shares, readv)


def fired(d):
    out = []
    d.addBoth(out.append)
    vr.pump0()
    if not out:
        raise RuntimeError("deferred did not fire")
    return out[0]


class Tags:
    """tag bytes: consecutive allocations differ, none below 0x20 (small numbers are left to the header and the ids)"""
    def __init__(self, rng):
        self.x = rng.randrange(0x20, 0x100)

    def __call__(self):
        self.x += 1
        if self.x > 0xff:
            self.x = 0x20
        return self.x


class Slot:
    """one trace: one storage index on the shared server"""
    def __init__(self, env, rng):
        self.env, self.rng = env, rng
        env.count += 1
        self.si = struct.pack(">QQ", env.seed & 0xffffffff, env.count)
        self.events = []
        self.tag = Tags(rng)
        self.writers = {}
        self.readers = {}
        self.shnum = 0
        self.nw = self.nr = 0

    # ---- observation ----
    def path(self):
        return os.path.join(self.env.ss.sharedir, storage_index_to_dir(self.si), "%d" % self.shnum)

    def content(self):
        p = self.path()
        if not os.path.exists(p):
            return None
        return MutableShareFile(p).readv([(0, 10 ** 7)])[0]

    def image(self):
        return image_of(self.content())

    def ev(self, e):
        self.events.append(e)
        return e

    # ---- writers ----
    def new_writer(self, P, via="proxy"):
        self.nw += 1
        wid = "w%d" % self.nw
        self.shnum = P.get("shnum", 0)
        e = {"ev": "NewWriter", "w": wid, "fmt": P["fmt"], "shnum": self.shnum, "seqnum": P["seqnum"], "k": P["k"], "n": P["n"],
             "segsize": P["segsize"], "datalen": P["datalen"], "via": via, "res": "ok"}
        cls = L.SDMFSlotWriteProxy if P["fmt"] == "sdmf" else L.MDMFSlotWriteProxy
        if via == "pack":
            self.writers[wid] = {"P": P, "pieces": {}}
        else:
            try:
                self.writers[wid] = cls(self.shnum, self.env.rec, self.si, SECRETS, P["seqnum"], P["k"], P["n"], P["segsize"], P["datalen"])
            except Exception as x:
                e["res"] = "exc:" + type(x).__name__
        self.ev(e)
        return wid

    def put(self, wid, what, **kw):
        """kw as in the event; builds the bytes from tags and lengths"""
        w = self.writers[wid]
        e = dict(ev="Put", w=wid, what=what, **kw)
        if what == "block":
            args = (bytes([kw["dtag"]]) * kw["dlen"], kw["seg"], bytes([kw["stag"]]) * kw["slen"])
            meth = "put_block"
        elif what == "salt":
            args = (bytes([kw["stag"]]) * kw["slen"],)
            meth = "put_salt"
        elif what == "blockhashes":
            args = ([bytes([t]) * HASH for t in kw["tags"]],)
            meth = "put_blockhashes"
        elif what == "sharehashes":
            args = ({i: bytes([t]) * HASH for (i, t) in kw["entries"]},)
            meth = "put_sharehashes"
        else:
            args = (bytes([kw["tag"]]) * kw["len"],)
            meth = "put_" + what
        if isinstance(w, dict):        # pack_share: the pieces are kept for Pack
            w["pieces"][what] = args
            e["res"], e["ncalls"] = "ok", 0
            return self.ev(e)
        n0 = len(self.env.rec.calls)
        try:
            r = getattr(w, meth)(*args)
            if isinstance(r, defer.Deferred):
                r = fired(r)
                if isinstance(r, Failure):
                    r.raiseException()
            e["res"] = "ok"
        except L.LayoutInvalid:
            e["res"] = "LayoutInvalid"
        except Exception as x:
            e["res"] = "exc:" + type(x).__name__
        e["ncalls"] = len(self.env.rec.calls) - n0
        return self.ev(e)

    def set_cs(self, wid, mode, **kw):
        w = self.writers[wid]
        e = dict(ev="SetCS", w=wid, mode=mode, res="ok")
        try:
            if mode == "lit":
                e["bytes"] = runs(kw["bytes"])
                w.set_checkstring(kw["bytes"])
            else:
                e.update(seqnum=kw["seqnum"], rtag=kw["rtag"], stag=kw.get("stag", 0))
                if isinstance(w, L.SDMFSlotWriteProxy):
                    w.set_checkstring(kw["seqnum"], bytes([kw["rtag"]]) * HASH, bytes([kw["stag"]]) * SALT)
                else:
                    w.set_checkstring(kw["seqnum"], bytes([kw["rtag"]]) * HASH)
        except Exception as x:
            e["res"] = "exc:" + type(x).__name__
        return self.ev(e)

    def get_cs(self, wid):
        return self.ev({"ev": "GetCS", "w": wid, "val": runs(self.writers[wid].get_checkstring())})

    def finish(self, wid):
        w = self.writers[wid]
        e = {"ev": "Finish", "w": wid}
        n0 = len(self.env.rec.calls)
        try:
            r = fired(w.finish_publishing())
            if isinstance(r, Failure):
                r.raiseException()
            e["res"] = "ok"
        except L.LayoutInvalid:
            e["res"] = "LayoutInvalid"
        except Exception as x:
            e["res"] = "exc:" + type(x).__name__
        e["calls"] = [{"shnums": c["shnums"], "testv": c.get("testv", []), "readv": c["readv"], "wrote": c.get("wrote", False),
                       "kind": c["kind"]} for c in self.env.rec.calls[n0:]]
        e["img"] = self.image()
        self.readers = {}
        return self.ev(e)

    def pack(self, wid):
        """pack_prefix + pack_share from the pieces; the string is stored in the slot with a plain server write"""
        w = self.writers[wid]
        P, pc = w["P"], w["pieces"]
        e = {"ev": "Pack", "w": wid}
        try:
            block = pc["block"][0] if "block" in pc else b""
            salt = pc["block"][2] if "block" in pc else pc["salt"][0]
            prefix = L.pack_prefix(P["seqnum"], pc["root_hash"][0], salt, P["k"], P["n"], P["segsize"], P["datalen"])
            s = L.pack_share(prefix, pc["verification_key"][0], pc["signature"][0], pc["sharehashes"][0], pc["blockhashes"][0],
                             block, pc["encprivkey"][0])
            self.raw_write(s)
            e["res"] = "ok"
        except Exception as x:
            e["res"] = "exc:" + type(x).__name__
        e["img"] = self.image()
        self.readers = {}
        return self.ev(e)

    def raw_write(self, data, new_length=None, off=0):
        self.env.ss.slot_testv_and_readv_and_writev(self.si, SECRETS, {self.shnum: ([], [(off, data)] if data else [], new_length)}, [])

    def damage(self, kind, **kw):
        if kind == "truncate":
            self.raw_write(b"", new_length=kw["at"])
        elif kind == "poke":
            self.raw_write(struct.pack(">Q" if kw["width"] == 8 else (">L" if kw["width"] == 4 else ">B"), kw["value"]), off=kw["pos"])
        self.readers = {}
        return self.ev(dict(ev="Damage", kind=kind, img=self.image(), **kw))

    # ---- readers ----
    def read(self, rid, get, pre=0, everything=False, seg=0, needed="all", force=False):
        e = {"ev": "Read", "r": rid, "new": rid not in self.readers, "pre": pre, "everything": everything, "get": get, "seg": seg,
             "needed": needed, "force": force}
        if e["new"]:
            data = (self.content() or b"")[:pre]
            self.readers[rid] = (L.MDMFSlotReadProxy(self.env.rec, self.si, self.shnum, data=data, data_is_everything=everything),
                                 len(data), everything)
        r, e["pre"], e["everything"] = self.readers[rid]
        n0 = len(self.env.rec.calls)
        try:
            if get == "block":
                d = r.get_block_and_salt(seg)
            elif get in ("blockhashes", "sharehashes"):
                nd = None if needed == "all" else (set() if needed == "empty" else set([1]))
                d = getattr(r, "get_" + get)(nd, force_remote=True) if force else getattr(r, "get_" + get)(nd)
            elif get == "prefix":
                d = r.get_prefix(force)
            elif get == "is_sdmf":
                d = r.is_sdmf()
            else:
                d = getattr(r, "get_" + get)()
            v = fired(d)
            if isinstance(v, Failure):
                v.raiseException()
            e["res"] = {"st": "ok", "val": self.abstract(get, v)}
        except BadShareError:
            e["res"] = {"st": "bad"}
        except Exception as x:
            e["res"] = {"st": "exc:" + type(x).__name__}
        e["remote"] = [c["readv"] for c in self.env.rec.calls[n0:]]
        return self.ev(e)

    @staticmethod
    def abstract(get, v):
        if get in ("seqnum", "is_sdmf"):
            return v
        if get == "encoding_parameters":
            return list(v)
        if get == "block":
            return [runs(v[0]), runs(v[1])]
        if get == "blockhashes":
            return [runs(h) for h in v]
        if get == "sharehashes":
            return [[i, runs(h)] for (i, h) in sorted(dict(v).items())]
        if get == "verinfo":
            (seqnum, root, salt, segsize, datalen, k, n, prefix, offs) = v
            return {"seqnum": seqnum, "root": runs(root), "salt": runs(salt or b""), "segsize": segsize, "datalen": datalen, "k": k, "n": n,
                    "prefix": runs(prefix), "offs": {str(a): b for (a, b) in dict(offs).items()}}
        return runs(v)

    def unpack(self):
        data = self.content() or b""
        e = {"ev": "Unpack", "fn": "unpack_share"}
        try:
            (seqnum, root, IV, k, N, segsize, datalen, pubkey, sig, chain, tree, sdata, epk) = L.unpack_share(data)
            e["res"] = {"st": "ok", "val": {"seqnum": seqnum, "root": runs(root), "salt": runs(IV), "k": k, "n": N, "segsize": segsize,
                                            "datalen": datalen, "pubkey": runs(pubkey), "signature": runs(sig),
                                            "share_hash_chain": [[i, runs(h)] for (i, h) in sorted(chain.items())],
                                            "block_hash_tree": [runs(h) for h in tree], "share_data": runs(sdata), "enc_privkey": runs(epk)}}
        except BadShareError:
            e["res"] = {"st": "bad"}
        except Exception as x:
            e["res"] = {"st": "exc:" + type(x).__name__}
        return self.ev(e)


    def unpack_small(self):
        """unpack_header (SDMF) and the checkstring helpers on the first bytes of a complete header"""
        data = self.content() or b""
        if len(data) < 123 or data[:1] not in (b"\x00", b"\x01"):
            return
        try:
            ver = L.get_version_from_checkstring(data[:57])
            if ver == 0:
                (seqnum, root, iv) = L.unpack_sdmf_checkstring(data[:57])
            else:
                (seqnum, root), iv = L.unpack_mdmf_checkstring(data[:41]), b""
            v = {"version": ver, "seqnum": seqnum, "root": runs(root), "salt": runs(iv)}
            if ver == 0:
                (version, seqnum, root, iv, k, n, segsize, datalen, o) = L.unpack_header(data)
                v["hdr"] = {"version": version, "seqnum": seqnum, "root": runs(root), "salt": runs(iv), "k": k, "n": n, "segsize": segsize,
                            "datalen": datalen, "offs": {str(a): b for a, b in o.items()}}
            self.ev({"ev": "UnpackSmall", "res": {"st": "ok", "val": v}})
        except Exception as x:
            self.ev({"ev": "UnpackSmall", "res": {"st": "exc:" + type(x).__name__}})


class Env:
    def __init__(self, workdir, seed):
        self.dir = tempfile.mkdtemp(prefix="mutlayout", dir=workdir)
        self.ss = StorageServer(self.dir, b"\x07" * 20, clock=vr)
        self.rec = Recorder(self.ss)
        self.seed = seed
        self.count = 0


# --------------------------------------------------------------------------------------------
# building blocks of the scenarios
# --------------------------------------------------------------------------------------------
def geometry(P):
    """the arguments a caller of the proxies has to know (its own encoding parameters), not the layout"""
    k, seg, dl = P["k"], P["segsize"], P["datalen"]
    if dl == 0 or seg == 0:
        return 0, 0, 0
    nseg = 1 if P["fmt"] == "sdmf" else -(-dl // seg)
    bs = seg // k
    t = dl % seg
    tail = bs if t == 0 else -(-t // k)
    return nseg, bs, tail


def chain_ids(rng, cnt, n):
    ids = sorted(rng.sample(range(1, 31), cnt))
    return ids


def documented_puts(s, wid, P, Ln, skip=(), order=None):
    """the puts of a whole share in the order of the layout comment ("expected write flow")"""
    nseg, bs, tail = geometry(P)
    todo = order or ["blocks", "encprivkey", "blockhashes", "sharehashes", "root_hash", "signature", "verification_key"]
    for what in todo:
        if what in skip:
            continue
        if what == "blocks":
            if nseg == 0 and P["fmt"] == "sdmf":
                s.put(wid, "salt", slen=SALT, stag=s.tag())
            for i in range(nseg):
                s.put(wid, "block", seg=i, dlen=(tail if i + 1 == nseg else bs), dtag=s.tag(), slen=SALT, stag=s.tag())
        elif what == "blockhashes":
            s.put(wid, "blockhashes", tags=[s.tag() for _ in range(Ln["nbh"])])
        elif what == "sharehashes":
            s.put(wid, "sharehashes", entries=[[i, s.tag()] for i in chain_ids(s.rng, Ln["nsh"], P["n"])])
        elif what == "root_hash":
            s.put(wid, "root_hash", len=HASH, tag=s.tag())
        else:
            s.put(wid, what, len=Ln[{"encprivkey": "epk", "signature": "sig", "verification_key": "vk"}[what]], tag=s.tag())


GETS = ["encprivkey", "signature", "verification_key", "blockhashes", "sharehashes", "seqnum", "root_hash", "encoding_parameters",
        "checkstring", "verinfo", "is_sdmf", "prefix"]


def read_everything(s, rid, pre, everything, nseg, rng, some=None, force=False):
    gets = [(g, {}) for g in GETS] + [("block", {"seg": i}) for i in range(nseg + 1)]
    gets += [("blockhashes", {"needed": "empty"}), ("sharehashes", {"needed": "some"}), ("sharehashes", {"needed": "empty"})]
    rng.shuffle(gets)
    if some is not None:
        gets = gets[:some]
    for g, kw in gets:
        s.read(rid, g, pre=pre, everything=everything, force=(force and g in ("blockhashes", "sharehashes", "prefix")), **kw)


def small_lens(rng):
    return {"vk": rng.randint(1, 12), "sig": rng.randint(1, 12), "nsh": rng.randint(0, 4), "nbh": rng.randint(0, 4), "epk": rng.randint(1, 12)}


def random_params(rng, fmt=None, seqnum=None):
    fmt = fmt or rng.choice(["sdmf", "mdmf"])
    k = rng.randint(1, 4)
    n = k + rng.randint(0, 6)
    if fmt == "sdmf":
        dl = rng.choice([0, 1, k, k + 1, 2 * k + 1, 9])
        seg = -(-dl // k) * k
    else:
        bs = rng.randint(1, 3)
        seg = k * bs
        nseg = rng.randint(0, 4)
        dl = 0 if nseg == 0 else (nseg - 1) * seg + rng.randint(1, seg)
    return {"fmt": fmt, "k": k, "n": n, "segsize": seg, "datalen": dl, "seqnum": seqnum or rng.randint(1, 200), "shnum": rng.randrange(n)}


def build_share(s, P, Ln, via=None):
    via = via or "proxy"
    wid = s.new_writer(P, via)
    documented_puts(s, wid, P, Ln)
    if via == "pack":
        s.pack(wid)
    else:
        s.finish(wid)
    return wid


# --------------------------------------------------------------------------------------------
# trace kinds
# --------------------------------------------------------------------------------------------
def trace_case(env, rng, case, idx, reads):
    s = Slot(env, rng)
    P = dict(case["P"])
    P["shnum"] = rng.randrange(P["n"])
    Ln = case["Ln"]
    via = "pack" if (P["fmt"] == "sdmf" and idx % 3 == 2) else "proxy"
    wid = s.new_writer(P, via)
    documented_puts(s, wid, P, Ln)
    if via == "pack":
        s.pack(wid)
    else:
        s.get_cs(wid)
        s.finish(wid)
    size = len(s.content() or b"")
    nseg = geometry(P)[0]
    read_everything(s, "r1", 0, False, nseg, rng, some=reads)
    read_everything(s, "r2", rng.choice([1, 60, 107, 122, 123, 124, rng.randint(1, size), rng.randint(1, size), size]), False, nseg, rng, some=reads,
                    force=rng.random() < 0.3)
    read_everything(s, "r3", rng.choice([size, size, rng.randint(123, max(123, size))]), True, nseg, rng, some=reads)
    if P["fmt"] == "sdmf":
        s.unpack()
    s.unpack_small()
    # the same share cut short somewhere behind the header
    hl = 107 if P["fmt"] == "sdmf" else 123
    if size > hl + 1:
        s.damage("truncate", at=rng.randint(hl, size - 1))
        read_everything(s, "r4", rng.choice([0, 0, hl]), False, nseg, rng, some=5)
        if P["fmt"] == "sdmf":
            s.unpack()
    return {"consts": {"kind": "case", "fmt": P["fmt"], "via": via}, "events": s.events}


def trace_order(env, rng):
    """call sequences nobody promised to be sensible"""
    s = Slot(env, rng)
    P = random_params(rng, fmt=("mdmf" if rng.random() < 0.8 else "sdmf"))
    Ln = small_lens(rng)
    nseg, bs, tail = geometry(P)
    wid = s.new_writer(P)
    if rng.random() < 0.12:
        # everything but the block hash tree, in order; finish; then the tree; finish
        documented_puts(s, wid, P, Ln, skip=("blockhashes",))
        s.finish(wid)
        documented_puts(s, wid, P, Ln, order=["blockhashes"])
        s.finish(wid)
        read_everything(s, "r1", 0, False, nseg, rng, some=8)
        return {"consts": {"kind": "order", "fmt": P["fmt"], "via": "proxy"}, "events": s.events}
    names = ["block", "encprivkey", "blockhashes", "sharehashes", "root_hash", "signature", "verification_key", "finish", "badblock", "badroot"]
    nbh_fixed = Ln["nbh"]
    if rng.random() < 0.55:
        # the documented order with stray calls of every kind in between (each guard is met from both sides)
        plan = []
        for what in ["block"] * max(1, nseg) + ["encprivkey", "blockhashes", "sharehashes", "root_hash", "signature", "verification_key"]:
            while rng.random() < 0.3:
                plan.append(rng.choice(names))
            plan.append(what)
        while rng.random() < 0.4:
            plan.append(rng.choice(names))
    else:
        plan = [rng.choice(names) for _ in range(rng.randint(3, 14))]
    for what in plan:
        if what == "finish":
            e = s.finish(wid)
            if e["res"] == "ok":
                break
        elif what == "block":
            if nseg:
                i = rng.randrange(nseg)
                s.put(wid, "block", seg=i, dlen=(tail if i + 1 == nseg else bs), dtag=s.tag(), slen=SALT, stag=s.tag())
            elif P["fmt"] == "sdmf":
                s.put(wid, "salt", slen=SALT, stag=s.tag())
        elif what == "badblock":
            kind = rng.choice(["seg", "len", "salt"])
            i = rng.randrange(nseg) if nseg else 0
            dlen = (tail if i + 1 == nseg else bs) if nseg else 1
            if kind == "seg":
                s.put(wid, "block", seg=nseg + rng.randint(0, 2), dlen=dlen, dtag=s.tag(), slen=SALT, stag=s.tag())
            elif kind == "len":
                s.put(wid, "block", seg=i, dlen=dlen + rng.choice([1, 2]), dtag=s.tag(), slen=SALT, stag=s.tag())
            else:
                s.put(wid, "block", seg=i, dlen=dlen, dtag=s.tag(), slen=SALT - 1, stag=s.tag())
        elif what == "badroot":
            s.put(wid, "root_hash", len=rng.choice([HASH - 1, HASH + 1, 0]), tag=s.tag())
        elif what == "blockhashes":
            s.put(wid, "blockhashes", tags=[s.tag() for _ in range(nbh_fixed)])     # same size every time: the tree is the end of the share
        elif what == "sharehashes":
            s.put(wid, "sharehashes", entries=[[i, s.tag()] for i in chain_ids(rng, rng.randint(0, 4), P["n"])])
        elif what == "root_hash":
            s.put(wid, "root_hash", len=HASH, tag=s.tag())
        else:
            s.put(wid, what, len=rng.randint(1, 12), tag=s.tag())
    else:
        # complete what is missing in the documented order, unless this trace is one of those that stop early
        if rng.random() < 0.85:
            w = s.writers[wid]
            have = set(e["what"] for e in s.events if e["ev"] == "Put" and e["res"] == "ok" and e["w"] == wid)
            have_blocks = set(e["seg"] for e in s.events if e["ev"] == "Put" and e["res"] == "ok" and e["what"] == "block")
            if P["fmt"] == "mdmf":
                # the puts that were accepted fix what can still be put: go on from the first field that is missing or that a later one needs
                order = ["encprivkey", "blockhashes", "sharehashes", "root_hash", "signature", "verification_key"]
                for i in range(nseg):
                    if i not in have_blocks:
                        s.put(wid, "block", seg=i, dlen=(tail if i + 1 == nseg else bs), dtag=s.tag(), slen=SALT, stag=s.tag())
                for what in order:
                    if what not in have:
                        documented_puts(s, wid, P, dict(Ln, nbh=nbh_fixed), order=[what])
            else:
                if "block" not in have and "salt" not in have:
                    documented_puts(s, wid, P, Ln, order=["blocks"])
                for what in ["encprivkey", "blockhashes", "sharehashes", "root_hash", "signature", "verification_key"]:
                    if what not in have:
                        documented_puts(s, wid, P, dict(Ln, nbh=nbh_fixed), order=[what])
        s.get_cs(wid)
        s.finish(wid)
    if s.content() is not None:
        read_everything(s, "r1", rng.choice([0, 0, 123, 500]), False, nseg, rng, some=10)
    return {"consts": {"kind": "order", "fmt": P["fmt"], "via": "proxy"}, "events": s.events}


def trace_cs(env, rng):
    s = Slot(env, rng)
    P1 = random_params(rng, seqnum=rng.randint(1, 100))
    shnum = P1["shnum"]
    first = rng.choice(["share", "share", "share", "absent"])
    if first == "share":
        build_share(s, P1, small_lens(rng))
    old = s.content()
    P2 = random_params(rng, fmt=(P1["fmt"] if rng.random() < 0.6 else None), seqnum=P1["seqnum"] + rng.randint(0, 2))
    P2["shnum"] = shnum
    P2["n"] = max(P2["n"], shnum + 1)
    wid = s.new_writer(P2)
    documented_puts(s, wid, P2, small_lens(rng))
    hdr = None
    if old is not None:
        # what a careful writer knows about the share: its checkstring, through a reader
        e = s.read("r0", "checkstring")
        hdr = old[:57] if old[:1] == b"\x00" else old[:41]
    how = rng.choice(["none", "right-lit", "right-parts", "right-parts", "wrong-seq", "wrong-root", "wrong-tail", "empty", "stale-lit"])
    if how == "right-lit" and hdr is not None:
        s.set_cs(wid, "lit", bytes=hdr)
    elif how == "right-parts" and hdr is not None and (P2["fmt"] == "sdmf") == (old[:1] == b"\x00"):
        s.set_cs(wid, "parts", seqnum=old[8], rtag=old[9], stag=old[41])
    elif how == "wrong-seq" and hdr is not None:
        s.set_cs(wid, "lit", bytes=hdr[:8] + bytes([(hdr[8] + 1) % 256]) + hdr[9:])
    elif how == "wrong-root" and hdr is not None:
        s.set_cs(wid, "lit", bytes=hdr[:20] + bytes([hdr[20] ^ 1]) + hdr[21:])
    elif how == "wrong-tail" and hdr is not None:
        s.set_cs(wid, "lit", bytes=hdr[:-1] + bytes([hdr[-1] ^ 1]))          # SDMF: the IV; MDMF: the end of the root hash
    elif how == "empty":
        s.set_cs(wid, "lit", bytes=b"")
    elif how == "stale-lit":
        s.set_cs(wid, "lit", bytes=bytes([0 if P2["fmt"] == "sdmf" else 1]) + b"\x00" * 7 + bytes([rng.randint(1, 255)]) + bytes([s.tag()]) * 32)
    if rng.random() < 0.5:
        s.get_cs(wid)
    e = s.finish(wid)
    wrote = e["res"] == "ok" and e["calls"] and e["calls"][-1]["wrote"]
    if P2["fmt"] == "mdmf" and rng.random() < 0.7:
        # "keep track of what it should be after updates ourselves": the same writer writes again, perhaps after an intruder
        if rng.random() < 0.4 and s.content() is not None:
            c = s.content()
            s.damage("poke", pos=8, width=1, value=(c[8] + 1) % 256)       # somebody else bumped the sequence number
        s.finish(wid)
    if s.content() is not None:
        read_everything(s, "r1", rng.choice([0, 130]), False, 2, rng, some=6)
    return {"consts": {"kind": "cs", "fmt": P2["fmt"], "via": "proxy", "how": how, "first": first}, "events": s.events}


def trace_damage(env, rng):
    s = Slot(env, rng)
    P = random_params(rng)
    Ln = small_lens(rng)
    build_share(s, P, Ln, via=("pack" if P["fmt"] == "sdmf" and rng.random() < 0.3 else "proxy"))
    full = s.content()
    size = len(full)
    hl = 107 if P["fmt"] == "sdmf" else 123
    nseg = geometry(P)[0]
    kind = rng.choice(["truncate", "truncate", "poke", "poke", "version", "delete"])
    if kind == "truncate":
        at = rng.choice([1, 40, hl - 1, hl, hl + 1, rng.randint(1, size - 1), rng.randint(hl, size - 1), size - 1])
        s.damage("truncate", at=min(at, size - 1))
    elif kind == "delete":
        s.damage("truncate", at=0)
    elif kind == "version":
        s.damage("poke", pos=0, width=1, value=rng.choice([2, 3, 255]))
    else:
        if P["fmt"] == "sdmf":
            entries = [(75, 4), (79, 4), (83, 4), (87, 4), (91, 8), (99, 8)]
        else:
            entries = [(59 + 8 * i, 8) for i in range(8)]
        pos, width = rng.choice(entries)
        cur = struct.unpack(">Q" if width == 8 else ">L", full[pos:pos + width])[0]
        value = rng.choice([0, 5, hl, cur - 1, cur + 1, cur - 34, cur + 32, cur + 34, rng.randint(0, size), size, size + 7, 100000])
        s.damage("poke", pos=pos, width=width, value=max(0, value))
    read_everything(s, "r1", 0, False, nseg, rng, some=12)
    if rng.random() < 0.5:
        pre = rng.choice([hl, 123, 300, size])
        read_everything(s, "r2", pre, rng.random() < 0.3, nseg, rng, some=8)
    c = s.content()
    if c is not None and len(c) >= 107 and (c[:1] == b"\x00" or rng.random() < 0.2):
        s.unpack()
    s.unpack_small()
    return {"consts": {"kind": "damage", "fmt": P["fmt"], "via": "proxy", "damage": kind}, "events": s.events}


def trace_fixed(env, rng, which):
    """three scenarios that every run contains (the inputs of the recorded findings)"""
    s = Slot(env, rng)
    Ln = {"vk": 5, "sig": 4, "nsh": 2, "nbh": 2, "epk": 7}
    if which == 0:        # an SDMF writer that was told "no share there" meets a share
        build_share(s, {"fmt": "mdmf", "k": 2, "n": 3, "segsize": 4, "datalen": 7, "seqnum": 3, "shnum": 1}, Ln)
        P = {"fmt": "sdmf", "k": 2, "n": 3, "segsize": 4, "datalen": 3, "seqnum": 4, "shnum": 1}
        wid = s.new_writer(P)
        documented_puts(s, wid, P, Ln)
        s.set_cs(wid, "lit", bytes=b"")
        s.get_cs(wid)
        s.finish(wid)
        read_everything(s, "r1", 0, False, 1, rng, some=6)
    elif which == 1:      # finish_publishing before the block hash tree
        P = {"fmt": "mdmf", "k": 3, "n": 5, "segsize": 6, "datalen": 14, "seqnum": 1, "shnum": 4}
        wid = s.new_writer(P)
        documented_puts(s, wid, P, Ln, skip=("blockhashes",))
        s.finish(wid)
        documented_puts(s, wid, P, Ln, order=["blockhashes"])
        s.finish(wid)
        read_everything(s, "r1", 0, False, 3, rng, some=8)
    else:                 # offset tables that run backwards
        fmt = "mdmf" if which == 2 else "sdmf"
        P = {"fmt": fmt, "k": 2, "n": 4, "segsize": 4, "datalen": 4 if fmt == "sdmf" else 9, "seqnum": 9, "shnum": 0}
        build_share(s, P, Ln)
        if fmt == "mdmf":
            s.damage("poke", pos=67, width=8, value=5)        # share_hash_chain in front of enc_privkey
        else:
            s.damage("poke", pos=79, width=4, value=5)        # share_hash_chain in front of signature
        for g in ("encprivkey", "signature", "sharehashes", "verification_key", "blockhashes", "verinfo"):
            s.read("r1", g)
        if fmt == "sdmf":
            s.unpack()
    return {"consts": {"kind": "fixed", "fmt": "mixed", "via": "proxy", "which": which}, "events": s.events}


def main():
    ap = argparse.ArgumentParser()
    ap.add_argument("--out"); ap.add_argument("--seed", type=int, default=0); ap.add_argument("--tier", default="quick")
    ap.add_argument("--in", dest="inp")
    ap.add_argument("--n", type=int, default=120)
    ap.add_argument("--reads", type=int, default=9)
    a = ap.parse_args()
    rng = random.Random("mutlayout-%d" % a.seed)
    vr.advance(1000000000)
    workdir = tempfile.mkdtemp(prefix="mutlayout-")
    env = Env(workdir, a.seed)
    traces = []
    try:
        cases = json.load(open(a.inp))["cases"] if a.inp else []
        for idx, case in enumerate(cases):
            traces.append(guard(trace_case, env, rng, case, idx, a.reads))
        for which in range(4):
            traces.append(guard(trace_fixed, env, rng, which))
        kinds = [trace_order, trace_cs, trace_damage]
        for i in range(a.n):
            traces.append(guard(kinds[i % 3], env, rng))
    finally:
        shutil.rmtree(workdir, ignore_errors=True)
    with open(a.out, "w") as f:
        json.dump(traces, f)


def guard(fn, env, rng, *args):
    try:
        return fn(env, rng, *args)
    except Exception as x:
        import traceback
        traceback.print_exc()
        return {"consts": {"kind": fn.__name__, "fmt": "?", "via": "?"}, "events": [{"ev": "Crash", "exc": type(x).__name__}]}


if __name__ == "__main__":
    main()
