"""Driver of the extra `node_misc`: node start-up rules outside tahoe.cfg value parsing.

  --mode traces     = priv + pid + blacklist in one process (what the extra runs)
  --mode gen        replays the cases of spec/node/GenNodeStartup.tla (--in {"cases": [...]}) into the real
                    allmydata.node functions: _tub_portlocation + create_main_tub (real foolscap Tub whose public
                    listenOn / setLocation / setOption / addConnectionHintHandler calls are recorded),
                    create_connection_handlers + create_tub, create_tub_options, _Config.get_config_path /
                    get_private_path, read_config's refusal of pre-1.3 files through create_client / create_introducer.
  --mode priv       seeded histories of the private-file helpers of _Config and of create_node_dir on a real directory
  --mode pid        seeded histories of util.pid.check_pid_process / cleanup_pidfile with a scripted process table
  --mode blacklist  seeded histories of access.blacklist edits and accesses on a real gateway (WebGrid)

Everything the code under test raises becomes part of the observation; the verdicts are TLC's.
"""
from vreactor import vr, settle          # noqa: F401  (must be first: installs the virtual reactor)

import argparse
import json
import os
import random
import shutil
import sys
import tempfile
import traceback

HERE = os.path.dirname(os.path.abspath(__file__))


# ====================================================================================== helpers
def make_pem():
    """A self-signed certificate + key in the form foolscap's Tub(certFile=) loads (Tub's own generator needs
    OpenSSL.crypto.X509Req, which this environment's pyOpenSSL no longer has)."""
    import datetime
    from cryptography import x509
    from cryptography.x509.oid import NameOID
    from cryptography.hazmat.primitives import hashes, serialization
    from cryptography.hazmat.primitives.asymmetric import rsa
    key = rsa.generate_private_key(public_exponent=65537, key_size=2048)
    name = x509.Name([x509.NameAttribute(NameOID.COMMON_NAME, u"newpb_thingy")])
    cert = (x509.CertificateBuilder().subject_name(name).issuer_name(name).public_key(key.public_key())
            .serial_number(1).not_valid_before(datetime.datetime(2020, 1, 1)).not_valid_after(datetime.datetime(2120, 1, 1))
            .sign(key, hashes.SHA256()))
    return cert.public_bytes(serialization.Encoding.PEM) + key.private_bytes(
        serialization.Encoding.PEM, serialization.PrivateFormat.TraditionalOpenSSL, serialization.NoEncryption())


class TubRecorder:
    """Records the public configuration calls made on foolscap Tubs (the calls go through to the real Tub)."""
    NAMES = ("listenOn", "setLocation", "setOption", "addConnectionHintHandler", "removeAllConnectionHintHandlers")

    def __init__(self):
        from foolscap.api import Tub
        self.calls = []
        self.orig = {}
        for nm in self.NAMES:
            self.orig[nm] = getattr(Tub, nm)
            setattr(Tub, nm, self._wrap(nm, self.orig[nm]))

    def _wrap(self, nm, f):
        rec = self

        def w(tub, *a, **kw):
            rec.calls.append((nm, a))
            return f(tub, *a, **kw)
        return w

    def take(self):
        c, self.calls = self.calls, []
        return c


def errname(e):
    return type(e).__name__


class Dirs:
    def __init__(self, root):
        self.root = root
        self.n = 0

    def new(self, private=True):
        self.n += 1
        d = os.path.join(self.root, "n%d" % self.n)
        os.makedirs(os.path.join(d, "private") if private else d)
        return d


# ====================================================================================== GEN replay
LISTENERS = {"tor": "tcp:29212:interface=127.0.0.1", "i2p": "tcp:29213:interface=127.0.0.1"}


def cfg_text(node=(), connections=()):
    t = "[node]\n" + "".join("%s = %s\n" % kv for kv in node)
    if connections:
        t += "[connections]\n" + "".join("%s = %s\n" % kv for kv in connections)
    return t


class GenReplay:
    def __init__(self, root):
        from zope.interface import implementer
        from foolscap.ipb import IConnectionHintHandler
        self.dirs = Dirs(root)
        self.pem = make_pem()
        self.rec = TubRecorder()

        @implementer(IConnectionHintHandler)
        class Marker:
            def __init__(self, name):
                self.name = name
        self.Marker = Marker

    def basedir(self, text, pem=True):
        d = self.dirs.new()
        with open(os.path.join(d, "tahoe.cfg"), "w") as f:
            f.write(text)
        if pem:
            with open(os.path.join(d, "private", "node.pem"), "wb") as f:
                f.write(self.pem)
        return d

    class Provider:
        def __init__(self, name, handler):
            self.name, self.handler = name, handler

        def get_client_endpoint(self):
            return self.handler

        def get_listener(self):
            return LISTENERS[self.name]

    # ------------------------------------------------------------------ tub.port / tub.location
    def port_cfg(self, c):
        items = []
        if c["port"]["given"]:
            items.append(("tub.port", c["port"]["txt"]))
        if c["loc"]["given"]:
            items.append(("tub.location", c["loc"]["txt"]))
        if c["reveal"]["given"]:
            items.append(("reveal-IP-address", "true" if c["reveal"]["v"] else "false"))
        return cfg_text(items)

    def port_dir(self, c):
        d = self.basedir(self.port_cfg(c))
        if c["pfile"]["given"]:
            with open(os.path.join(d, "client.port"), "w") as f:
                f.write(c["pfile"]["txt"] + "\n")
        return d

    @staticmethod
    def pfile_after(d):
        p = os.path.join(d, "client.port")
        if not os.path.exists(p):
            return {"given": False, "txt": ""}
        with open(p) as f:
            return {"given": True, "txt": f.read().strip()}

    def port(self, c):
        from allmydata import node
        from allmydata.client import read_config
        from allmydata.util import iputil
        out = {}
        # leg 1: the decision function with injected probes
        d = self.port_dir(c)
        counts = {"alloc": 0, "probe": 0}

        def addrs():
            counts["probe"] += 1
            return list(c["addrs"])

        def alloc():
            counts["alloc"] += 1
            return c["alloc"]
        try:
            config = read_config(d, "client.port")
            r = node._tub_portlocation(config, addrs, alloc)
            if r is None:
                out["res"] = "none"
            else:
                port, loc = r
                if isinstance(loc, bytes):
                    loc = loc.decode("utf-8")
                out.update(res="listen", port=port, loc=loc.split(",") if loc else [])
        except Exception as e:
            out.update(res="refuse", err=errname(e), msg=str(e)[:200])
        out.update(pfile=self.pfile_after(d), alloc=counts["alloc"], probe=counts["probe"])
        # leg 2: create_main_tub on a fresh copy of the same directory, the probes replaced inside iputil
        d2 = self.port_dir(c)
        counts2 = {"alloc": 0, "probe": 0}

        def addrs2():
            counts2["probe"] += 1
            return list(c["addrs"])

        def alloc2():
            counts2["alloc"] += 1
            return c["alloc"]
        saved = iputil.get_local_addresses_sync, iputil.allocate_tcp_port
        iputil.get_local_addresses_sync, iputil.allocate_tcp_port = addrs2, alloc2
        tor, i2p = self.Provider("tor", None), self.Provider("i2p", None)
        self.rec.take()
        m = {}
        try:
            config = read_config(d2, "client.port")
            # (the connection-handler table is replayed separately: fixed handlers here)
            dch = {"tcp": "tcp", "tor": "tor", "i2p": "i2p"}
            fch = {"tcp": node._make_tcp_handler(), "tor": None, "i2p": None}
            tub = node.create_main_tub(config, node.create_tub_options(config), dch, fch, i2p, tor)
            calls = self.rec.take()
            listens = [a[0] for nm, a in calls if nm == "listenOn"]
            back = {v: "listen:" + k for k, v in LISTENERS.items()}
            locs = [a[0] for nm, a in calls if nm == "setLocation"]
            locs = [x.decode("utf-8") if isinstance(x, bytes) else x for x in locs]
            m.update(res="listen" if listens or locs else "none",
                     port=",".join(back.get(x, x) if isinstance(x, str) else repr(x) for x in listens),
                     nlisteners=len(tub.getListeners()), setloc=locs,
                     loc=(locs[-1].split(",") if locs and locs[-1] else []))
        except Exception as e:
            self.rec.take()
            m.update(res="refuse", err=errname(e), msg=str(e)[:200])
        finally:
            iputil.get_local_addresses_sync, iputil.allocate_tcp_port = saved
        m.update(pfile=self.pfile_after(d2), alloc=counts2["alloc"], probe=counts2["probe"])
        out["main_tub"] = m
        return out

    # ------------------------------------------------------------------ [connections] tcp
    def conn(self, c):
        from allmydata import node
        from allmydata.client import read_config
        from foolscap.connections.tcp import DefaultTCP
        items, conns = [], []
        if c["reveal"]["given"]:
            items.append(("reveal-IP-address", c["reveal"]["txt"]))
        if c["tcp"]["given"]:
            conns.append(("tcp", c["tcp"]["txt"]))
        d = self.basedir(cfg_text(items, conns))
        torh = self.Marker("tor") if c["tor"] else None
        i2ph = self.Marker("i2p") if c["i2p"] else None
        out = {}
        self.rec.take()
        try:
            config = read_config(d, "client.port")
            dch, fch = node.create_connection_handlers(config, self.Provider("i2p", i2ph), self.Provider("tor", torh))
            node.create_tub(node.create_tub_options(config), dch, fch, certFile=os.path.join(d, "private", "node.pem"))
            calls = self.rec.take()
            # a new Tub serves tcp hints with foolscap's default TCP handler until the handlers are removed
            served = {"tcp": "tcp", "tor": "none", "i2p": "none"}
            cleared = False
            for nm, a in calls:
                if nm == "removeAllConnectionHintHandlers":
                    cleared = True
                    served = {k: "none" for k in served}
                elif nm == "addConnectionHintHandler":
                    h = a[1]
                    served[a[0]] = "tcp" if isinstance(h, DefaultTCP) else getattr(h, "name", "?")
            out.update(res="ok", cleared=cleared, **served)
        except Exception as e:
            self.rec.take()
            out.update(res="refuse", err=errname(e), msg=str(e)[:200])
        return out

    # ------------------------------------------------------------------ timeouts
    def opts(self, c):
        from allmydata import node
        from allmydata.client import read_config
        items = []
        if c["ka"]["given"]:
            items.append(("timeout.keepalive", c["ka"]["txt"]))
        if c["dc"]["given"]:
            items.append(("timeout.disconnect", c["dc"]["txt"]))
        d = self.basedir(cfg_text(items))
        out = {}
        try:
            config = read_config(d, "client.port")
            o = node.create_tub_options(config)
            tub = node.create_tub(o, {}, {}, certFile=os.path.join(d, "private", "node.pem"))
            self.rec.take()
            out.update(res="ok", ka=tub.keepaliveTimeout, dc=tub.disconnectTimeout or 0,
                       kaset="keepaliveTimeout" in o, dcset="disconnectTimeout" in o,
                       options={k: v for k, v in o.items() if isinstance(v, (bool, int, str))})
        except Exception as e:
            self.rec.take()
            out.update(res="refuse", err=errname(e), msg=str(e)[:200])
        return out

    # ------------------------------------------------------------------ paths
    def path(self, c):
        from allmydata.client import read_config
        if not hasattr(self, "_pathcfg"):
            self._pathdir = self.basedir("[node]\n", pem=False)
            # two levels of room above BASEDIR would not be enough for three "..": the scratch root is deep enough
            self._pathcfg = read_config(self._pathdir, "client.port")
        base = self._pathdir

        def rel(p):
            r = os.path.relpath(p, base)
            parts = [] if r == "." else r.split(os.sep)
            up = len([x for x in parts if x == ".."])
            return {"up": up, "comps": parts[up:], "abs": os.path.isabs(p)}
        out = {}
        try:
            out["config"] = rel(self._pathcfg.get_config_path(*c["args"]))
            out["private"] = rel(self._pathcfg.get_private_path(*c["args"]))
            out["res"] = "ok"
        except Exception as e:
            out.update(res="refuse", err=errname(e), msg=str(e)[:200])
        return out

    # ------------------------------------------------------------------ old configuration files
    def old(self, c):
        from allmydata import node
        import allmydata.client as client_mod
        import allmydata.introducer.server as intro_mod
        d = self.basedir("[node]\n", pem=False)
        for fn in c["present"]:
            with open(os.path.join(d, fn), "w") as f:
                f.write("tcp:45679\n" if fn.endswith(".port") else "x\n")
        before = set(os.listdir(d))
        seen = {}

        class Stop(Exception):
            pass

        def stop_after_port(config, *a, **kw):
            # the node has read its configuration: let it settle its port, then stop before any network object is made
            seen["r"] = node._tub_portlocation(config, lambda: ["127.0.0.1"], lambda: 45678)
            raise Stop()
        out = {}
        try:
            if c["nodetype"] == "client":
                saved = client_mod.create_client_from_config
                client_mod.create_client_from_config = stop_after_port
                try:
                    r = client_mod.create_client(d)
                finally:
                    client_mod.create_client_from_config = saved
            else:
                names = ("create_main_tub", "create_i2p_provider", "create_tor_provider", "create_connection_handlers")
                saved = {n: getattr(intro_mod, n) for n in names}
                intro_mod.create_i2p_provider = intro_mod.create_tor_provider = lambda reactor, config: None
                intro_mod.create_connection_handlers = lambda config, i, t: ({}, {})
                intro_mod.create_main_tub = stop_after_port
                try:
                    r = intro_mod.create_introducer(d)
                finally:
                    for n, v in saved.items():
                        setattr(intro_mod, n, v)
            from twisted.python.failure import Failure
            from twisted.internet.defer import Deferred
            if isinstance(r, Deferred):
                got = []
                r.addBoth(got.append)
                settle()
                r = got[0] if got else None
            if isinstance(r, Failure):
                e = r.value
                if isinstance(e, Stop):
                    out["res"] = "ok"
                elif isinstance(e, node.OldConfigError):
                    out.update(res="refuse", err=errname(e), files=sorted(os.path.basename(x) for x in e.args[0]), msg=str(e)[:300])
                else:
                    out.update(res="refuse", err=errname(e), files=[], msg=str(e)[:300])
            else:
                out.update(res="?", msg=repr(r)[:200])
        except Exception as e:
            out.update(res="crash", err=errname(e), msg=traceback.format_exc()[-400:])
        out["new_files"] = sorted(set(os.listdir(d)) - before)
        return out

    def run(self, cases):
        res = []
        for c in cases:
            try:
                r = getattr(self, c["table"])(c)
            except Exception as e:       # the adapter itself failed: visible, never silently dropped
                r = {"res": "adapter-error", "err": errname(e), "msg": traceback.format_exc()[-600:]}
            res.append(r)
        return res



# ====================================================================================== private files
PADS = {(False, False): "%s", (True, False): "  %s", (False, True): "%s\n", (True, True): " \t%s\n"}


def render(c):
    return PADS[(c["lead"], c["trail"])] % c["core"]


def abstract(text):
    core = text.strip()
    return {"core": core, "lead": text[:1].isspace() if text else False, "trail": text.endswith("\n")}


def snapshot(base):
    out = {"base": os.path.isdir(base), "priv": os.path.isdir(os.path.join(base, "private")), "f": {}}
    if out["base"]:
        for fn in sorted(os.listdir(base)):
            p = os.path.join(base, fn)
            if os.path.isfile(p) and fn != "tahoe.cfg":
                out["f"][fn] = abstract(open(p).read())
    if out["priv"]:
        for fn in sorted(os.listdir(os.path.join(base, "private"))):
            p = os.path.join(base, "private", fn)
            if os.path.isfile(p):
                out["f"]["private/" + fn] = abstract(open(p).read())
    return out


def priv_traces(root, seed, ntraces, nevents):
    from allmydata import node
    from allmydata.node import MissingConfigEntry
    rng = random.Random(seed * 7919 + 17)
    names = ["api_auth_token", "convergence", "secret", "my_nodeid", "storage.furl"]
    texts = ["v1", "urn:x-y", "abc def", "pb://key@tcp:host:1/swiss", "0123456789abcdef"]
    traces = []

    def content():
        return {"core": rng.choice(texts), "lead": rng.random() < 0.3, "trail": rng.random() < 0.5}
    for t in range(ntraces):
        base = os.path.join(root, "p%d" % t, "node")
        os.makedirs(os.path.dirname(base))
        events = []
        config = None
        pre = rng.choice(["nothing", "nothing", "base", "both"])          # what exists before create_node_dir
        if pre in ("base", "both"):
            os.makedirs(base)
            events.append({"op": "ext_mkdir", "which": "base"})
        if pre == "both":
            os.makedirs(os.path.join(base, "private"))
            events.append({"op": "ext_mkdir", "which": "priv"})
        for i in range(nevents):
            if i == 0 or (rng.random() < 0.08):
                e = {"op": "create_node_dir", "name": "README", "c": {"core": "readme %d" % i, "lead": False, "trail": rng.random() < 0.5}}
            else:
                op = rng.choice(["write_private", "get_private", "get_private", "get_or_create", "get_or_create", "get_or_create",
                                 "write_config_file", "get_config_from_file", "get_config_from_file", "ext_write", "ext_remove"])
                nm = rng.choice(names[:3] if op != "write_config_file" and op != "get_config_from_file" else names[2:])
                e = {"op": op, "name": nm}
                if op in ("write_private", "write_config_file"):
                    e["c"] = content()
                elif op == "get_private":
                    e["dflt"] = rng.choice([{"given": False, "v": ""}, {"given": True, "v": "dflt-" + rng.choice(texts)}])
                elif op == "get_or_create":
                    e["gdflt"] = {"kind": rng.choice(["none", "str", "call", "call"]), "c": content()}
                elif op == "get_config_from_file":
                    e["required"] = rng.random() < 0.4
                elif op == "ext_write":
                    e["name"] = rng.choice(["private/" + nm, names[3], names[4]])
                    e["c"] = content()
                elif op == "ext_remove":
                    have = sorted(snapshot(base)["f"])
                    e["name"] = rng.choice(have) if have and rng.random() < 0.8 else "private/" + nm
            called = [0]
            st, v = "ok", ""
            try:
                if e["op"] == "create_node_dir":
                    node.create_node_dir(base, render(e["c"]))
                    if config is None:
                        config = node.config_from_string(base, "client.port", "[node]\n")
                elif e["op"] == "write_private":
                    config.write_private_config(e["name"], render(e["c"]) if rng.random() < 0.5 else render(e["c"]).encode("utf-8"))
                elif e["op"] == "get_private":
                    v = config.get_private_config(e["name"], e["dflt"]["v"]) if e["dflt"]["given"] else config.get_private_config(e["name"])
                elif e["op"] == "get_or_create":
                    k = e["gdflt"]["kind"]
                    if k == "none":
                        v = config.get_or_create_private_config(e["name"])
                    elif k == "str":
                        v = config.get_or_create_private_config(e["name"], render(e["gdflt"]["c"]))
                    else:
                        def factory(e=e):
                            called[0] += 1
                            return render(e["gdflt"]["c"])
                        v = config.get_or_create_private_config(e["name"], factory)
                elif e["op"] == "write_config_file":
                    config.write_config_file(e["name"], render(e["c"]))
                elif e["op"] == "get_config_from_file":
                    v = config.get_config_from_file(e["name"], required=e["required"])
                    if v is None:
                        st, v = "none", ""
                elif e["op"] == "ext_write":
                    with open(os.path.join(base, e["name"]), "w") as f:
                        f.write(render(e["c"]))
                elif e["op"] == "ext_remove":
                    p = os.path.join(base, e["name"])
                    if os.path.exists(p):
                        os.remove(p)
            except MissingConfigEntry:
                st, v = "MissingConfigEntry", ""
            except EnvironmentError as x:
                st, v = ("error" if e["op"] == "get_config_from_file" else "EnvironmentError:" + errname(x)), ""
            except Exception as x:
                st, v = "raised:" + errname(x), ""
            vtype = type(v).__name__
            if isinstance(v, bytes):             # get_config_from_file hands out bytes ("(string) contents"): same text
                v = v.decode("utf-8", "replace")
            if not isinstance(v, str):
                v = "nonstring:%r" % (v,)
            e.update(st=st, v=v, vtype=vtype, called=called[0], dir=snapshot(base))
            events.append(e)
        # events before the first create_node_dir are only the outside mkdirs: fold them into the initial directory
        init = {"base": pre in ("base", "both"), "priv": pre == "both"}
        traces.append({"consts": {"init": init, "seed": seed, "t": t}, "events": [e for e in events if e["op"] != "ext_mkdir"]})
    return traces


# ====================================================================================== pid file
def pid_traces(root, seed, ntraces, nevents):
    sys.path.insert(0, os.path.join(HERE, "nodemisc_shims"))
    import filelock
    from twisted.python.filepath import FilePath
    from allmydata.util import pid as pidmod
    assert pidmod.FileLock is filelock.FileLock

    class _NoSuchProcess(Exception):
        pass

    class FakePsutil:
        """the two things util.pid asks psutil: is there a process at this pid / who am I"""
        NoSuchProcess = _NoSuchProcess

        def __init__(self):
            self.table = {}
            self.me = None

        def Process(self, pid=None):
            ps = self
            if pid is None:
                pid = self.me
            if pid not in self.table:
                raise _NoSuchProcess(pid)

            class Proc:
                def __init__(s):
                    s.pid = pid

                def create_time(s):
                    return float(ps.table[pid])
            return Proc()
    fake = FakePsutil()
    pidmod.psutil = fake
    rng = random.Random(seed * 104729 + 5)
    traces = []

    def parse(path):
        if not os.path.exists(path):
            return {"ex": False, "valid": False, "pid": 0, "start": 0}
        txt = open(path).read()
        parts = txt.split()
        try:
            if len(parts) != 2:
                raise ValueError()
            return {"ex": True, "valid": True, "pid": int(parts[0]), "start": int(float(parts[1]))}
        except ValueError:
            return {"ex": True, "valid": False, "pid": 0, "start": 0}
    for t in range(ntraces):
        d = os.path.join(root, "pid%d" % t)
        os.makedirs(d)
        path = os.path.join(d, "running.process")
        lockpath = path + ".lock"
        fake.table = {}
        filelock.HELD.clear()
        now = [10]
        events = []
        for i in range(nevents):
            kind = rng.choice(["spawn", "spawn", "die", "lock", "putfile", "rmfile", "check", "check", "check", "cleanup"])
            e = {"ev": kind, "res": ""}
            try:
                if kind == "spawn":
                    free = [p for p in range(1, 6) if p not in fake.table]
                    if not free:
                        continue
                    now[0] += 1
                    e.update(pid=rng.choice(free), start=now[0])
                    fake.table[e["pid"]] = e["start"]
                elif kind == "die":
                    if not fake.table:
                        continue
                    e["pid"] = rng.choice(sorted(fake.table))
                    del fake.table[e["pid"]]
                elif kind == "lock":
                    e["held"] = rng.random() < 0.5
                    (filelock.HELD.add if e["held"] else filelock.HELD.discard)(lockpath)
                elif kind == "putfile":
                    r = rng.random()
                    if r < 0.6:
                        now[0] += 1
                        p = rng.randrange(1, 6)
                        st = fake.table[p] if p in fake.table and rng.random() < 0.5 else rng.randrange(1, now[0])
                        e["put"] = {"ex": True, "valid": True, "pid": p, "start": st}
                        text = "%d %s\n" % (p, float(st))
                    else:
                        e["put"] = {"ex": True, "valid": False, "pid": 0, "start": 0}
                        text = rng.choice(["", "garbage\n", "12\n", "12 abc\n", "1 2 3\n", "x 1.5\n"])
                    with open(path, "w") as f:
                        f.write(text)
                elif kind == "rmfile":
                    if os.path.exists(path):
                        os.remove(path)
                elif kind == "check":
                    if not fake.table:
                        continue
                    fake.me = rng.choice(sorted(fake.table))
                    e["me"] = {"pid": fake.me, "start": fake.table[fake.me]}
                    try:
                        pidmod.check_pid_process(FilePath(path))       # a fresh FilePath, as every `tahoe run` makes one
                        e["res"] = "ok"
                    except (pidmod.ProcessInTheWay, pidmod.InvalidPidFile) as x:
                        e["res"] = errname(x)
                elif kind == "cleanup":
                    if lockpath in filelock.HELD:
                        continue                    # would wait for the lock: not driven
                    try:
                        pidmod.cleanup_pidfile(FilePath(path))
                        e["res"] = "ok"
                    except pidmod.CannotRemovePidFile as x:
                        e["res"] = errname(x)
            except Exception as x:
                e["res"] = "raised:" + errname(x)
                e["msg"] = str(x)[:200]
            e["file"] = parse(path)
            events.append(e)
        if events:
            traces.append({"consts": {"seed": seed, "t": t}, "events": events})
    return traces


# ====================================================================================== access blacklist on a real gateway
# (control characters in a reason are shown escaped and quoted by quote_output: a presentation choice, not driven)
REASONS = ["my puppy told me to", "why", "see http://example.org/blocked?case=17 for details", "raison: bloqué",
           "DMCA  takedown #4711", "x"]
SEPS = [" ", "   ", "\t", " \t "]


def render_line(ln, si):
    if ln["k"] == "blank":
        return ""
    if ln["k"] == "comment":
        return "#" + ln["txt"]
    return si[ln["o"]] + ln["sep"] + ln["why"]


def blacklist_traces(seed, ntraces, nevents):
    import html
    import re
    from webgrid import WebGrid, q
    from grid import Hang
    from allmydata.util import base32
    from allmydata.blacklist import ProhibitedNode, FileProhibited
    from allmydata.interfaces import IDirectoryNode
    rng = random.Random(seed * 15485863 + 3)
    traces = []
    BODY = {"o2": b"contents of f: a CHK file has more than 55 bytes, which this sentence has. " * 2,
            "o5": b"contents of g: another immutable file, also longer than the LIT limit of 55 bytes",
            "o3": b"mutable m", "o7": b"contents of h: long enough to be a CHK file if it is immutable, else SDMF."}
    for t in range(ntraces):
        w = WebGrid(num_servers=2, k=1, n=2, happy=1, max_segment_size=32, seed=seed * 1000 + t)
        try:
            c = w.client
            caps, types = {}, {}

            def ok(r, what):
                if r.code not in (200, 201):
                    raise RuntimeError("building the tree: %s -> %d %r" % (what, r.code, r.body[:200]))
                return r.body.decode("ascii").strip()
            hmut = rng.random() < 0.5
            caps["o1"] = ok(w.request("POST", "/uri?t=mkdir"), "mkdir")
            caps["o2"] = ok(w.request("PUT", "/uri/%s/f" % q(caps["o1"]), body=BODY["o2"]), "f")
            caps["o3"] = ok(w.request("PUT", "/uri/%s/m?format=sdmf" % q(caps["o1"]), body=BODY["o3"]), "m")
            caps["o4"] = ok(w.request("POST", "/uri/%s/sub?t=mkdir" % q(caps["o1"])), "sub")
            caps["o5"] = ok(w.request("PUT", "/uri/%s/sub/g" % q(caps["o1"]), body=BODY["o5"]), "g")
            caps["o6"] = ok(w.request("POST", "/uri/%s/sub/deep?t=mkdir" % q(caps["o1"])), "deep")
            caps["o7"] = ok(w.request("PUT", "/uri/%s/sub/deep/h%s" % (q(caps["o1"]), "?format=sdmf" if hmut else ""), body=BODY["o7"]), "h")
            caps["o8"] = ok(w.request("POST", "/uri/%s/imm?t=mkdir-immutable" % q(caps["o1"]),
                                      body=json.dumps({"x": ["filenode", {"ro_uri": caps["o5"]}]}).encode()), "imm")
            types = {"o1": "dir", "o2": "file", "o3": "mfile", "o4": "dir", "o5": "file", "o6": "dir",
                     "o7": "mfile" if hmut else "file", "o8": "idir"}
            link = lambda o: {"to": o, "lvl": "w"}
            kids = {"o1": {"f": link("o2"), "m": link("o3"), "sub": link("o4"), "imm": link("o8")},
                    "o4": {"g": link("o5"), "deep": link("o6")}, "o6": {"h": link("o7")}, "o8": {"x": link("o5")},
                    "o2": {}, "o3": {}, "o5": {}, "o7": {}}
            si = {o: base32.b2a(c.create_node_from_uri(cap.encode("ascii")).get_storage_index()).decode("ascii") for o, cap in caps.items()}
            fn = c.blacklist.blacklist_fn
            targets = [("o1", []), ("o1", ["f"]), ("o1", ["m"]), ("o1", ["sub"]), ("o1", ["sub", "g"]), ("o1", ["sub", "deep"]),
                       ("o1", ["sub", "deep", "h"]), ("o1", ["imm"]), ("o1", ["imm", "x"]), ("o1", ["nope"]), ("o1", ["sub", "nope"]),
                       ("o4", []), ("o4", ["g"]), ("o4", ["deep", "h"]), ("o6", []), ("o6", ["h"]), ("o8", []), ("o8", ["x"]),
                       ("o2", []), ("o3", []), ("o5", []), ("o7", [])]
            lines, mt, events = [], 0, []

            def resolve(o, path):
                for nm in path:
                    o = kids.get(o, {}).get(nm, {}).get("to")
                    if o is None:
                        return None
                return o
            # the first traces start with a scripted prefix, so that every run meets the documentation's own example, a
            # listing with a prohibited immutable child and a listing with a prohibited mutable child
            SCRIPTS = {0: [("w", [("o2", "my puppy told me to", " ")]), ("g", "o2", [], ""), ("g", "o1", [], "json"), ("g", "o1", ["f"], "")],
                       1: [("w", [("o3", "why", " ")]), ("g", "o1", ["m"], ""), ("g", "o1", [], "json")],
                       2: [("w", [("o4", "raison: bloqué", "\t")]), ("g", "o1", ["sub", "g"], ""), ("g", "o4", [], "json"), ("g", "o5", [], ""), ("g", "o1", [], "json")]}
            script = list(SCRIPTS.get(t, []))
            for i in range(len(script) if t in (1, 2) else nevents):       # (1, 2 end on the listing that is a known finding)
                r = rng.random()
                forced = script.pop(0) if script else None
                if forced and forced[0] == "w":
                    r = 0.0
                elif forced:
                    r = 0.5
                if i == 0 or r < 0.30:
                    # the operator edits the file
                    listed = {ln["o"] for ln in lines if ln["k"] == "entry"}
                    free = [o for o in caps if o not in listed]
                    ed = rng.random()
                    new = [dict(x) for x in lines]
                    if forced:
                        new = [{"k": "entry", "o": o, "why": why, "sep": sep} for o, why, sep in forced[1]]
                    elif (ed < 0.5 or not new) and free:
                        new.insert(rng.randrange(len(new) + 1), {"k": "entry", "o": rng.choice(free), "why": rng.choice(REASONS), "sep": rng.choice(SEPS)})
                    elif ed < 0.62:
                        new.insert(rng.randrange(len(new) + 1), {"k": "comment", "txt": rng.choice(["", " a remark", " " + si["o2"] + " not this one", "#"])})
                    elif ed < 0.72:
                        new.insert(rng.randrange(len(new) + 1), {"k": "blank"})
                    elif ed < 0.86 and listed:
                        j = rng.choice([k for k, ln in enumerate(new) if ln["k"] == "entry"])
                        new[j] = {"k": "comment", "txt": render_line(new[j], si)}           # commented out
                    elif new:
                        del new[rng.randrange(len(new))]
                    lines = new
                    d = rng.random()
                    mt = mt + 1 if (d < 0.75 or mt == 0 or forced) else mt if d < 0.9 else max(1, mt - 1)
                    text = "".join(render_line(ln, si) + "\n" for ln in lines)
                    if text.endswith("\n") and rng.random() < 0.2:
                        text = text[:-1]                                  # no newline at the end of the file
                    with open(fn, "wb") as f:
                        f.write(text.encode("utf-8"))
                    os.utime(fn, (1000000000 + mt, 1000000000 + mt))
                    events.append({"ev": "write", "lines": lines, "mt": mt})
                elif r < 0.34:
                    if os.path.exists(fn):
                        os.remove(fn)
                    lines = []
                    events.append({"ev": "remove"})
                elif r < 0.86:
                    o, path = rng.choice(targets)
                    tgt = resolve(o, path)
                    tq = "json" if tgt is not None and types[tgt] in ("dir", "idir") and rng.random() < 0.6 else ""
                    if forced:
                        o, path, tq = forced[1], forced[2], forced[3]
                        tgt = resolve(o, path)
                    url = "/uri/" + q(caps[o]) + "".join("/" + q(nm) for nm in path) + ("?t=json" if tq else "")
                    e = {"ev": "get", "o": o, "path": path, "t": tq, "code": 0, "msg": "", "body_ok": False, "names": [], "kind": ""}
                    try:
                        resp = w.request("GET", url)
                        e["code"] = resp.code
                        ctype = resp.header("content-type") or ""
                        body = resp.body
                        if resp.code == 403:
                            txt = body.decode("utf-8", "replace")
                            if "html" in ctype:
                                m = re.search(r"<p>(.*?)</p>", txt, re.S)
                                txt = html.unescape(m.group(1)) if m else txt
                            e["msg"] = txt
                        elif resp.code == 200 and tq == "json":
                            try:
                                j = json.loads(body)
                                e["kind"] = j[0]
                                e["names"] = sorted(j[1].get("children", {})) if j[0] == "dirnode" else []
                            except Exception:
                                e["kind"] = "not-json"
                        elif resp.code == 200 and tgt in BODY:
                            e["body_ok"] = body == BODY[tgt]
                        if resp.error:
                            e["code"], e["note"] = 0, "body transfer failed: " + resp.error
                    except Hang as x:
                        e["note"] = "no response: " + str(x)[:120]
                    except Exception as x:
                        e["code"], e["note"] = -1, "request failed: %s %s" % (errname(x), str(x)[:160])
                    events.append(e)
                else:
                    o = rng.choice(sorted(caps))
                    e = {"ev": "api", "o": o, "proh": False, "isdir": False, "read": "", "msg": ""}
                    try:
                        n = c.create_node_from_uri(caps[o].encode("ascii"))
                        e["proh"] = isinstance(n, ProhibitedNode)
                        e["isdir"] = bool(IDirectoryNode.providedBy(n))
                        try:
                            if e["isdir"]:
                                d = n.list()
                            else:
                                d = n.download_best_version() if n.is_mutable() else n.get_best_readable_version()
                            w.g.run(d)
                            e["read"] = "ok"
                        except FileProhibited as x:
                            e["read"], e["msg"] = "FileProhibited", str(x)
                        except Exception as x:
                            e["read"], e["msg"] = errname(x), str(x)[:160]
                    except Exception as x:
                        e["read"], e["msg"] = "create_node_from_uri:" + errname(x), str(x)[:160]
                    events.append(e)
            traces.append({"consts": {"G": {"type": types, "kids": kids}, "seed": seed, "t": t, "hmut": hmut}, "events": events})
        finally:
            w.close()
    return traces

# ====================================================================================== main
def main():
    ap = argparse.ArgumentParser()
    ap.add_argument("--out", required=True)
    ap.add_argument("--seed", type=int, default=0)
    ap.add_argument("--tier", default="quick")
    ap.add_argument("--in", dest="inp")
    ap.add_argument("--mode", required=True)
    ap.add_argument("--plan", default="{}")
    a = ap.parse_args()
    inp = json.load(open(a.inp)) if a.inp else {}
    plan = json.loads(a.plan)
    root = tempfile.mkdtemp(prefix="nodemisc_")
    try:
        if a.mode == "traces":       # the three history legs in one process (the imports are the expensive part)
            out = {"priv": priv_traces(root, a.seed, plan["priv"]["traces"], plan["priv"]["events"]),
                   "pid": pid_traces(root, a.seed, plan["pid"]["traces"], plan["pid"]["events"]),
                   "blacklist": blacklist_traces(a.seed, plan["blacklist"]["traces"], plan["blacklist"]["events"])}
        elif a.mode == "gen":
            out = {"results": GenReplay(root).run(inp["cases"])}
        elif a.mode == "priv":
            out = {"traces": priv_traces(root, a.seed, plan.get("traces", 40), plan.get("events", 14))}
        elif a.mode == "blacklist":
            out = {"traces": blacklist_traces(a.seed, plan.get("traces", 12), plan.get("events", 24))}
        elif a.mode == "pid":
            out = {"traces": pid_traces(root, a.seed, plan.get("traces", 60), plan.get("events", 14))}
        else:
            raise SystemExit("unknown mode %r" % a.mode)
    finally:
        shutil.rmtree(root, ignore_errors=True)
    with open(a.out, "w") as f:
        json.dump(out, f)


if __name__ == "__main__":
    main()
