"""Drive the real servers-of-happiness code (C08, C07).

  --mode c08cases   replay Spec-generated relations (--in: list of {"rows": [[shares]...]}) into
                    allmydata.util.happinessutil.servers_of_happiness under several dict/set
                    constructions; output per case the list of values observed.
  --mode c08random  seeded random relations (up to 30 x 30); output traces for TraceHappiness.tla.
  --mode c07cases   replay Spec-generated layouts (--in: list of {"nw","nr","n","ex"}) into
                    allmydata.immutable.happiness_upload.share_placement under several
                    namings / insertion orders; output traces for TracePlacement.tla.
  --mode c07random  seeded random layouts (up to 20 servers, 30 shares); traces as above.
  --mode c07canon   enumerate every layout of the given size modulo renaming (harness side
                    enumeration only; the verdicts are TLC's) and replay it; traces as above.

The driver never decides anything: it builds inputs, calls the code, and records the results
(and, for C07, the intermediate results of the three matching phases, observed by wrapping the
module-level helpers of happiness_upload).
"""
import argparse, hashlib, itertools, json, random, signal, sys

from allmydata.util import happinessutil, dictutil
from allmydata.immutable import happiness_upload as hu


class CallTimeout(Exception):
    pass


def _alarm(signum, frame):
    raise CallTimeout()


signal.signal(signal.SIGALRM, _alarm)
CALL_LIMIT = 5.0   # seconds of wall clock per call of the code under test (a hang is recorded, not waited for)
TIMEOUTS = [0]


def limited(f, *a, **kw):
    if TIMEOUTS[0] >= 3:
        # the code under test hangs repeatedly: already recorded three times, do not wait for every further case
        raise CallTimeout()
    signal.setitimer(signal.ITIMER_REAL, CALL_LIMIT)
    try:
        return f(*a, **kw)
    except CallTimeout:
        TIMEOUTS[0] += 1
        raise
    finally:
        signal.setitimer(signal.ITIMER_REAL, 0)


# ----------------------------------------------------------------------------- namings
def name_str(i, salt):
    return "srv%02d" % i


def name_bytes(i, salt):
    return hashlib.sha1(b"%d:%d" % (salt, i)).digest()


def name_int(i, salt):
    return (i * 7919 + salt * 104729) % 1000003


def name_rstr(i, salt):
    return hashlib.md5(b"%d/%d" % (salt, i)).hexdigest()[:8]


NAMINGS = {"str": name_str, "bytes": name_bytes, "int": name_int, "rstr": name_rstr}


# ----------------------------------------------------------------------------- C08
def c08_variants(rows, rng, nvar):
    """rows: list (server index) of lists of share numbers.  Yields (label, sharemap)."""
    ns = len(rows)
    edges = [(s, t) for s in range(ns) for t in rows[s]]
    shares = sorted({t for _, t in edges})
    out = []

    def build(order_shares, naming, salt, share_f=lambda t: t, cls=dict, empties=()):
        nm = NAMINGS[naming]
        sm = cls()
        for t in order_shares:
            if t in empties:
                sm[share_f(t)] = set()
                continue
            srv = [s for s in range(ns) if t in rows[s]]
            rng.shuffle(srv)
            st = set()
            for s in srv:
                st.add(nm(s, salt))
            sm[share_f(t)] = st
        return sm

    out.append(("asc/str", build(shares, "str", 0)))
    out.append(("desc/bytes", build(list(reversed(shares)), "bytes", rng.randrange(1 << 30))))
    sh = list(shares)
    rng.shuffle(sh)
    out.append(("shuf/int", build(sh, "int", rng.randrange(1 << 20))))
    # DictOfSets filled edge by edge in random order (as get_sharemap_of_preexisting_shares does)
    ed = list(edges)
    rng.shuffle(ed)
    salt = rng.randrange(1 << 30)
    ds = dictutil.DictOfSets()
    for s, t in ed:
        ds.add(t, name_bytes(s, salt))
    out.append(("dictofsets/bytes", ds))
    # share numbers renamed to a sparse, non-monotone set, plus keys with no server at all
    sh = list(shares)
    rng.shuffle(sh)
    extra = [max(shares + [0]) + 1 + j for j in range(rng.randrange(0, 3))]
    order = sh + extra
    rng.shuffle(order)
    out.append(("sparse+empty/rstr", build(order, "rstr", rng.randrange(1 << 30),
                                            share_f=lambda t: (t * 37 + 11) % 101, empties=set(extra))))
    for j in range(max(0, nvar - len(out))):
        sh = list(shares)
        rng.shuffle(sh)
        out.append(("shuf%d/bytes" % j, build(sh, "bytes", rng.randrange(1 << 30))))
    return out[:max(nvar, 1)]


def c08_eval(sharemap):
    try:
        v = limited(happinessutil.servers_of_happiness, sharemap)
        if not isinstance(v, int) or isinstance(v, bool):
            return "type:%s" % type(v).__name__
        return v
    except Exception as e:  # recorded, judged by the check (never equals an integer)
        return "exc:%s" % type(e).__name__


def mode_c08cases(args, inp, rng):
    res = []
    for c in inp["cases"]:
        vs = c08_variants(c["rows"], rng, inp.get("nvar", 5))
        res.append({"got": [c08_eval(sm) for _, sm in vs], "variants": [l for l, _ in vs]})
    return {"results": res}


def random_relation(rng, maxs, maxt):
    ns = rng.randint(1, maxs)
    nt = rng.randint(1, maxt)
    kind = rng.choice(["sparse", "dense", "chain", "hub", "mixed", "perm+noise"])
    rows = [set() for _ in range(ns)]
    if kind == "sparse":
        p = rng.uniform(0.03, 0.15)
        for s in range(ns):
            for t in range(nt):
                if rng.random() < p:
                    rows[s].add(t)
    elif kind == "dense":
        p = rng.uniform(0.4, 0.95)
        for s in range(ns):
            for t in range(nt):
                if rng.random() < p:
                    rows[s].add(t)
    elif kind == "chain":
        # s_i -- t_i, t_{i+1}: greedy choices must be undone by augmenting paths
        for s in range(ns):
            rows[s].add(s % nt)
            if rng.random() < 0.9:
                rows[s].add((s + 1) % nt)
    elif kind == "hub":
        # a few servers hold everything, the others one share of a small set
        hubs = rng.sample(range(ns), max(1, ns // 5))
        few = rng.sample(range(nt), max(1, nt // 4))
        for s in range(ns):
            if s in hubs:
                rows[s] = set(range(nt))
            else:
                rows[s].add(rng.choice(few))
    elif kind == "perm+noise":
        perm = list(range(nt))
        rng.shuffle(perm)
        for s in range(ns):
            if rng.random() < 0.8:
                rows[s].add(perm[s % nt])
            for _ in range(rng.randrange(0, 3)):
                rows[s].add(rng.randrange(nt))
    else:
        for s in range(ns):
            d = rng.choice([0, 1, 1, 2, 3, nt])
            rows[s] = set(rng.sample(range(nt), min(nt, d)))
    return [sorted(r) for r in rows], kind


def mode_c08random(args, inp, rng):
    traces = []
    for i in range(args.n):
        rows, kind = random_relation(rng, args.maxs, args.maxt)
        vs = c08_variants(rows, rng, args.nvar)
        evs = [{"ev": "Happiness", "variant": l, "got": g if isinstance(g, int) else -1,
                "err": "" if isinstance(g, int) else g} for l, g in ((l, c08_eval(sm)) for l, sm in vs)]
        traces.append({"consts": {"adj": {"s%d" % s: r for s, r in enumerate(rows)}, "kind": kind,
                                  "ns": len(rows), "nt": 1 + max([t for r in rows for t in r] + [0])},
                       "events": evs})
    return {"traces": traces}


# ----------------------------------------------------------------------------- C07
class Phases:
    """Observe the intermediate results of share_placement by wrapping the helpers it calls."""

    def __init__(self):
        self.orig_calc = hu._calculate_mappings
        self.orig_graph = hu._servermap_flow_graph
        self.orig_homeless = hu._distribute_homeless_shares
        self.reset()

    def reset(self):
        self.calc = []       # (peers, shares, servermap, result)
        self.extra = []      # per _servermap_flow_graph call: edges in the graph that are not in the servermap
        self.homeless = []   # (homeless before, mappings after)

    def install(self):
        ph = self

        def calc(peers, shares, servermap=None):
            n0 = len(ph.extra)
            r = ph.orig_calc(peers, shares, servermap)
            ph.calc.append((set(peers), set(shares), None if servermap is None else {k: set(v) for k, v in servermap.items()},
                            {k: (None if v is None else set(v)) for k, v in r.items()}, ph.extra[n0:]))
            return r

        def graph(peers, shares, servermap):
            g = ph.orig_graph(peers, shares, servermap)
            extra = []
            if g:
                p2i, i2p = hu._reindex(peers, 1)
                s2i, i2s = hu._reindex(shares, len(peers) + 1)
                for p in peers:
                    for idx in g[p2i[p]]:
                        s = i2s.get(idx)
                        if s is None or s not in servermap.get(p, ()):
                            extra.append((p, s))
            ph.extra.append(extra)
            return g

        def homeless(mappings, homeless_shares, peers_to_shares):
            before = set(homeless_shares)
            r = ph.orig_homeless(mappings, homeless_shares, peers_to_shares)
            ph.homeless.append((before, {k: (None if v is None else set(v)) for k, v in mappings.items()}))
            return r

        hu._calculate_mappings = calc
        hu._servermap_flow_graph = graph
        hu._distribute_homeless_shares = homeless


PH = None


def layout_variants(lay, rng, nvar):
    """lay: {"nw", "nr", "n", "ex": [[shares] per server, writable first]} -> list of
    (label, peers, readonly, shares, peers_to_shares, name->canonical)."""
    nw, nr, n = lay["nw"], lay["nr"], lay["n"]
    ex = lay["ex"]
    out = []
    specs = [("str", 0, "asc"), ("bytes", rng.randrange(1 << 30), "desc"), ("rstr", rng.randrange(1 << 30), "shuf"),
             ("int", rng.randrange(1 << 20), "shuf")]
    while len(specs) < nvar:
        specs.append(("bytes", rng.randrange(1 << 30), "shuf"))
    for naming, salt, order in specs[:max(1, nvar)]:
        nm = NAMINGS[naming]
        if naming == "str":
            # readonly servers sort before / after the writable ones depending on the salt
            names = [("w%02d" % i) for i in range(nw)] + [("r%02d" % i) for i in range(nr)]
        else:
            names = [nm(i, salt) for i in range(nw + nr)]
        if len(set(names)) != len(names):
            continue
        canon = {names[i]: ("w%d" % i if i < nw else "r%d" % (i - nw)) for i in range(nw + nr)}
        idx = [i for i in range(nw + nr) if ex[i]]
        if order == "desc":
            idx.reverse()
        elif order == "shuf":
            rng.shuffle(idx)
        p2s = {}
        for i in idx:
            sh = list(ex[i])
            rng.shuffle(sh)
            p2s[names[i]] = set(sh)
        out.append(("%s/%s" % (naming, order), set(names[:nw]), set(names[nw:]), set(range(n)), p2s, canon))
    return out


def jmap(m, canon):
    """{share: peer|None|set} -> {"<share>": canonical peer name | "-"}"""
    r = {}
    for k, v in m.items():
        if isinstance(v, (set, frozenset)):
            v = sorted(v, key=repr)[0] if v else None
        r[str(k)] = "-" if v is None else canon.get(v, "?" + repr(v)[:12])
    return r


def run_layout(lay, rng, nvar):
    events = []
    seen = {}
    for label, peers, ro, shares, p2s, canon in layout_variants(lay, rng, nvar):
        PH.reset()
        ev = {"ev": "Place", "variants": [label]}
        try:
            if label.startswith("rstr"):
                # through the uploader's PeerSelector, in the order a real upload learns things: every server is first
                # known as writable; some of the servers that end up read-only report their shares BEFORE they are
                # demoted (a failed allocate_buckets after the survey), the others are demoted first
                from allmydata.immutable.upload import PeerSelector
                ps = PeerSelector(1, len(shares), 1, 1)
                allp = list(peers) + list(ro)
                rng.shuffle(allp)
                for pid in allp:
                    ps.add_peer(pid)
                late = {pid for pid in ro if rng.random() < 0.5}
                for pid in ro:
                    if pid not in late:
                        ps.mark_readonly_peer(pid)
                items = [(pid, sh) for pid, shs in p2s.items() for sh in shs]
                rng.shuffle(items)
                for pid, sh in items:
                    ps.add_peer_with_share(pid, sh)
                for pid in late:
                    ps.mark_readonly_peer(pid)
                ev["variants"] = [label + "/PeerSelector"]
                m = limited(ps.get_share_placements)
            else:
                m = limited(hu.share_placement, set(peers), set(ro), set(shares), {k: set(v) for k, v in p2s.items()})
            ev["err"] = ""
            if not isinstance(m, dict):
                ev["err"] = "type:%s" % type(m).__name__
                m = {}
            ev["m"] = jmap(m, canon)
        except Exception as e:
            ev["err"] = "exc:%s" % type(e).__name__
            ev["m"] = {}
        # phases: 1 = read-only matching, 2 = existing allocations, 3 = fresh peers
        phs = []
        for (cp, cs, csm, cr, extra) in PH.calc[:3]:
            phs.append({"m": jmap(cr, canon),
                        "extra": sorted([canon.get(p, "?"), -1 if s is None else s] for e in extra for (p, s) in e)})
        while len(phs) < 3:
            phs.append({"m": {}, "extra": []})
        ev["ph"] = phs
        key = json.dumps({k: v for k, v in ev.items() if k != "variants"}, sort_keys=True)
        if key in seen:
            seen[key]["variants"].append(label)
        else:
            seen[key] = ev
            events.append(ev)
    consts = {"W": ["w%d" % i for i in range(lay["nw"])], "R": ["r%d" % i for i in range(lay["nr"])], "n": lay["n"],
              "ex": {("w%d" % i if i < lay["nw"] else "r%d" % (i - lay["nw"])): sorted(lay["ex"][i])
                     for i in range(lay["nw"] + lay["nr"])}}
    if "best" in lay:
        consts["genbest"] = lay["best"]
    return {"consts": consts, "events": events}


def mode_c07cases(args, inp, rng):
    return {"traces": [run_layout(l, rng, inp.get("nvar", 3)) for l in inp["cases"]]}


def random_layout(rng, maxsrv, maxsh):
    n = rng.randint(1, maxsh)
    nsrv = rng.randint(1, maxsrv)
    nw = rng.randint(1, nsrv)
    nr = nsrv - nw
    kind = rng.choice(["fresh", "sparse", "reupload", "ro-heavy", "dense", "dup"])
    ex = [set() for _ in range(nsrv)]
    if kind == "sparse":
        for i in range(nsrv):
            for t in range(n):
                if rng.random() < 0.1:
                    ex[i].add(t)
    elif kind == "dense":
        p = rng.uniform(0.3, 0.9)
        for i in range(nsrv):
            for t in range(n):
                if rng.random() < p:
                    ex[i].add(t)
    elif kind == "reupload":
        # an earlier upload spread the shares round-robin over some of the servers
        holders = rng.sample(range(nsrv), rng.randint(1, nsrv))
        for t in range(n):
            if rng.random() < 0.9:
                ex[holders[t % len(holders)]].add(t)
    elif kind == "ro-heavy":
        for i in range(nw, nsrv):
            for t in rng.sample(range(n), rng.randint(0, min(n, 3))):
                ex[i].add(t)
        for i in range(nw):
            if rng.random() < 0.3:
                ex[i].add(rng.randrange(n))
    elif kind == "dup":
        few = rng.sample(range(n), max(1, n // 3))
        for i in range(nsrv):
            for t in few:
                if rng.random() < 0.6:
                    ex[i].add(t)
    return {"nw": nw, "nr": nr, "n": n, "ex": [sorted(e) for e in ex], "kind": kind}


def mode_c07random(args, inp, rng):
    traces = []
    for i in range(args.n):
        lay = random_layout(rng, args.maxs, args.maxt)
        tr = run_layout(lay, rng, args.nvar)
        tr["consts"]["kind"] = lay["kind"]
        traces.append(tr)
    return {"traces": traces}


def canon_layouts(nsrv, n):
    """Every layout with nsrv servers (>= 1 writable) and n shares, modulo renaming of servers within
    their class and renaming of shares: the smallest (rows sorted per class) form over all share
    permutations is kept."""
    perms = list(itertools.permutations(range(n)))
    masks = range(1 << n)

    def permute(mask, p):
        r = 0
        for t in range(n):
            if mask >> t & 1:
                r |= 1 << p[t]
        return r
    ptab = [[permute(m, p) for m in masks] for p in perms]
    for nw in range(1, nsrv + 1):
        nr = nsrv - nw
        for wrows in itertools.combinations_with_replacement(masks, nw):
            for rrows in itertools.combinations_with_replacement(masks, nr):
                me = (wrows, rrows)
                ok = True
                for pt in ptab[1:]:
                    other = (tuple(sorted(pt[m] for m in wrows)), tuple(sorted(pt[m] for m in rrows)))
                    if other < me:
                        ok = False
                        break
                if ok:
                    yield {"nw": nw, "nr": nr, "n": n,
                           "ex": [[t for t in range(n) if m >> t & 1] for m in wrows + rrows]}


def mode_c07canon(args, inp, rng):
    traces = []
    for lay in canon_layouts(args.maxs, args.maxt):
        traces.append(run_layout(lay, rng, args.nvar))
    return {"traces": traces}


def main():
    global PH
    ap = argparse.ArgumentParser()
    ap.add_argument("--out", required=True)
    ap.add_argument("--in", dest="inp")
    ap.add_argument("--seed", type=int, default=0)
    ap.add_argument("--tier", default="quick")
    ap.add_argument("--mode", required=True)
    ap.add_argument("--n", type=int, default=100)
    ap.add_argument("--maxs", type=int, default=30)
    ap.add_argument("--maxt", type=int, default=30)
    ap.add_argument("--nvar", type=int, default=5)
    args = ap.parse_args()
    inp = json.load(open(args.inp)) if args.inp else {}
    rng = random.Random("%s:%d" % (args.mode, args.seed))
    if args.mode.startswith("c07"):
        PH = Phases()
        PH.install()
    res = {"c08cases": mode_c08cases, "c08random": mode_c08random, "c07cases": mode_c07cases,
           "c07random": mode_c07random, "c07canon": mode_c07canon}[args.mode](args, inp, rng)
    with open(args.out, "w") as f:
        json.dump(res, f)


if __name__ == "__main__":
    main()
