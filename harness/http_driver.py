"""Drive the real HTTP storage server (allmydata.storage.http_server.HTTPServer over
a real StorageServer, reached through treq.testing.StubTreq) and record one event per
request for spec/storage/TraceStorageHTTP.tla.

--mode authz (C30): raw requests built here (so that missing / wrong / malformed /
    duplicated / non-UTF-8 Authorization and X-Tahoe-Authorization headers and broken
    bodies are possible), systematic over route x header class and seeded, interleaved
    with a legitimate client's uploads.  Recorded: status, abstracted body, whether the
    raw body contains stored share bytes, whether the digest of the storage directory
    changed, the share files of the touched storage index.
--mode twin (C31): one seeded history executed twice, through the real
    StorageClientImmutables / StorageClientMutables / StorageClientGeneral classes over
    StubTreq, and directly on a twin StorageServer at the same virtual instant.  Recorded
    per operation: the HTTP status and the client's return value, the direct result, the
    share files of both servers; at the end of each history the two share trees are
    compared byte by byte.

The driver abstracts values and compares nothing with an oracle: every verdict is TLC's.
"""
from twisted.python.failure import Failure
import argparse, hashlib, json, os, random, shutil, sys, tempfile
from base64 import b64encode

from vreactor import vr
from twisted.internet import task as _task
# the twisted.web cooperator runs on zero-delay timers: an HTTP exchange completes without virtual time
# passing, so both servers of a twin act at the same instant (identical lease expiry, identical timeouts)
_task._theCooperator = _task.Cooperator(scheduler=lambda c: vr.callLater(0, c))

import cbor2
from hyperlink import DecodedURL
from treq.testing import StubTreq
from twisted.web.http_headers import Headers
from allmydata.storage.server import StorageServer
from allmydata.storage.http_server import HTTPServer
from allmydata.storage.http_client import (
    StorageClient, StorageClientImmutables, StorageClientMutables, StorageClientGeneral,
    ClientException, TestVector, WriteVector, ReadVector, TestWriteVectors,
)
from allmydata.storage.immutable import ShareFile
from allmydata.storage.mutable import MutableShareFile
from allmydata.storage.common import storage_index_to_dir, si_b2a
from allmydata.interfaces import ConflictingWriteError, DataTooLargeError, BadWriteEnablerError

SHNUMS = ["0", "1", "2"]
RS = {"r%d" % i: bytes([0x10 + i]) * 32 for i in range(3)}
CS = {"c%d" % i: bytes([0x20 + i]) * 32 for i in range(3)}
US = {"u%d" % i: bytes([0x30 + i]) * 20 for i in range(1, 4)}
WE = {"wA": b"A" * 32, "wB": b"B" * 32}
SECRETS = {}
for _d in (RS, CS, US, WE):
    SECRETS.update(_d)
SI = {"i0": b"\x01" * 16, "i1": b"\x5a" * 16, "m0": b"\x77" * 16, "m1": b"\xe3" * 16}
SISI, SISM = ["i0", "i1"], ["m0", "m1"]
KIND_NAME = {"rs": b"lease-renew-secret", "cs": b"lease-cancel-secret", "us": b"upload-secret", "we": b"write-enabler"}
KIND_VALS = {"rs": list(RS), "cs": list(CS), "us": list(US), "we": list(WE)}
REQUIRED = {"alloc": ["rs", "cs", "us"], "write": ["us"], "abort": ["us"], "lease": ["rs", "cs"], "rtw": ["rs", "cs", "we"]}
ENDPOINTS = ["version", "alloc", "write", "abort", "ilist", "iread", "lease", "icorrupt", "rtw", "mread", "mlist", "mcorrupt"]
HDR_CLASSES = ["missing", "bad", "wrong", "dup_wrong_last", "dup_wrong_first", "dup_bad", "extra", "unknown", "nonutf8", "none"]
AUTH_CLASSES = [[], ["wrong"], ["malformed"], ["nonutf8"], ["correct", "wrong"], ["wrong", "correct"], ["correct", "nonutf8"],
                ["wrong", "wrong"], ["malformed", "correct"], ["correct", "correct"]]
SWISSNUM = b"c3dpc3NudW0tdmVyaWY"
NODEID = b"\x00" * 20


def b2l(b):
    return list(b)


def l2b(l):
    return bytes(l)


class RecordingTreq:
    """What StorageClient sees as treq: StubTreq plus a note of the last response code."""
    def __init__(self, stub):
        self.stub = stub
        self.codes = []

    lose = 0        # how many of the next responses are lost on the way back (the server has handled the request)
    nreq = 0

    def request(self, method, url, **kw):
        self.nreq += 1
        d = self.stub.request(method, url, **kw)
        drop = self.lose > 0
        if drop:
            self.lose -= 1

        def note(resp):
            self.codes.append(resp.code)
            if drop:
                from twisted.web._newclient import ResponseNeverReceived
                from twisted.internet.error import ConnectionLost
                raise ResponseNeverReceived([Failure(ConnectionLost("connection dropped before the response arrived"))])
            return resp
        d.addCallback(note)
        return d


class Server:
    """A real StorageServer in its own directory, optionally behind a real HTTPServer."""
    def __init__(self, workdir, http, expiring=False):
        self.dir = tempfile.mkdtemp(prefix="srv", dir=workdir)
        self.raised = []
        self.t0 = vr.seconds()
        if expiring:
            # lease expiration enabled (mode "age", the leases' own duration); the crawler is not started as a
            # service: expire_event() runs one cycle when the history says so
            self.ss = StorageServer(self.dir, NODEID, clock=vr, expiration_enabled=True)
        else:
            self.ss = StorageServer(self.dir, NODEID, clock=vr)
        if http:
            self.http = HTTPServer(vr, self.ss, SWISSNUM)
            self.stub = StubTreq(self.http.get_resource())
            self.rec = RecordingTreq(self.stub)
            self.client = StorageClient(DecodedURL.from_text("http://127.0.0.1"), SWISSNUM, treq=self.rec, pool=None, clock=vr)
            self.imm = StorageClientImmutables(self.client)
            self.mut = StorageClientMutables(self.client)
            self.gen = StorageClientGeneral(self.client)

    # ---- pump: everything runs on zero-delay timers ----
    def run(self, d):
        out = []
        d.addBoth(out.append)
        n = 0
        while not out:
            try:
                vr.advance(0)
            except Exception as ex:     # a zero-delay call of the code under test raised: an observation of this request
                self.raised.append(type(ex).__name__)
            self.stub.flush()
            n += 1
            if n > 20000:
                raise RuntimeError("HTTP exchange does not complete")
        return out[0]

    def raw(self, method, path, headers, body):
        h = Headers()
        for k, v in headers:
            h.addRawHeader(k, v)
        resp = self.run(self.stub.request(method, "http://127.0.0.1" + path, headers=h, data=body))
        if not hasattr(resp, "code"):
            raise RuntimeError("request failed: %r" % (resp,))
        content = self.run(resp.content())
        return resp.code, content

    # ---- one persistent HTTP/1.1 connection (keep-alive): several requests through the same server-side channel ----
    def open_conn(self):
        from twisted.web.server import Site
        from twisted.internet.address import IPv4Address
        from twisted.internet.testing import StringTransportWithDisconnection
        site = Site(self.http.get_resource())
        proto = site.buildProtocol(IPv4Address("TCP", "127.0.0.1", 40001))
        tr = StringTransportWithDisconnection()
        tr.protocol = proto
        proto.makeConnection(tr)
        return (proto, tr)

    def raw_conn(self, conn, method, path, headers, body):
        from http.client import HTTPResponse, IncompleteRead
        from io import BytesIO
        proto, tr = conn
        if isinstance(method, str):
            method = method.encode()
        body = body or b""
        req = method + b" " + path.encode() + b" HTTP/1.1\r\nHost: 127.0.0.1\r\n"
        for k, v in headers:
            req += (k if isinstance(k, bytes) else k.encode()) + b": " + (v if isinstance(v, bytes) else v.encode()) + b"\r\n"
        req += b"Content-Length: %d\r\n\r\n" % len(body) + body
        tr.clear()
        proto.dataReceived(req)

        class _Sock:
            def __init__(self, b):
                self.f = BytesIO(b)

            def makefile(self, *a, **kw):
                return self.f
        for _ in range(20000):
            try:
                vr.advance(0)
            except Exception as ex:
                self.raised.append(type(ex).__name__)
            data = tr.value()
            if b"\r\n\r\n" in data:
                try:
                    resp = HTTPResponse(_Sock(data), method=method.decode())
                    resp.begin()
                    content = resp.read()
                    if resp.length in (None, 0):
                        return resp.status, content
                except (IncompleteRead, ValueError):
                    pass
        raise RuntimeError("no complete response on the persistent connection")

    # ---- observation of the share files ----
    def lease_ids(self, leases):
        out = []
        for l in leases:
            rs = [k for k, v in RS.items() if l.is_renew_secret(v)]
            cs = [k for k, v in CS.items() if l.is_cancel_secret(v)]
            out.append({"rs": rs[0] if rs else "unknown", "cs": cs[0] if cs else "unknown",
                        "exp": int(l.get_expiration_time() - self.t0)})
        return sorted(out, key=lambda x: x["rs"])

    def obs(self, si):
        d = os.path.join(self.ss.sharedir, storage_index_to_dir(SI[si]))
        o = {}
        if si in SISI:
            inc = os.path.join(self.ss.incomingdir, storage_index_to_dir(SI[si]))
            for sh in SHNUMS:
                fp, ip = os.path.join(d, sh), os.path.join(inc, sh)
                if os.path.exists(fp):
                    sf = ShareFile(fp)
                    o[sh] = {"st": "final", "data": b2l(sf.read_share_data(0, 10 ** 6)), "leases": self.lease_ids(sf.get_leases())}
                elif os.path.exists(ip):
                    o[sh] = {"st": "incoming", "data": [], "leases": []}
                else:
                    o[sh] = {"st": "absent", "data": [], "leases": []}
        else:
            for sh in SHNUMS:
                fp = os.path.join(d, sh)
                if os.path.exists(fp):
                    m = MutableShareFile(fp, self.ss)
                    with open(fp, "rb") as f:
                        we, _ = m._read_write_enabler_and_nodeid(f)
                    wid = [k for k, v in WE.items() if v == we]
                    o[sh] = {"present": True, "data": b2l(m.readv([(0, 10 ** 6)])[0]), "we": wid[0] if wid else "unknown",
                             "leases": self.lease_ids(m.get_leases())}
                else:
                    o[sh] = {"present": False, "data": [], "we": "none", "leases": []}
        return o

    def obsall(self):
        return {si: self.obs(si) for si in SISI + SISM}

    def files(self):
        """relative path -> bytes, for every file below the storage directory."""
        res = {}
        for root, ds, fs in os.walk(self.dir):
            for fn in fs:
                p = os.path.join(root, fn)
                with open(p, "rb") as f:
                    res[os.path.relpath(p, self.dir)] = f.read()
        return res

    def digest(self):
        h = hashlib.sha256()
        for k, v in sorted(self.files().items()):
            h.update(k.encode() + b"\0" + hashlib.sha256(v).digest())
        return h.hexdigest()

    def cleanup(self):
        shutil.rmtree(self.dir, ignore_errors=True)


# --------------------------------------------------------------------------------------------
# concretisation of abstract requests
# --------------------------------------------------------------------------------------------
def auth_value(rng, cls):
    good = b"Tahoe-LAFS " + b64encode(SWISSNUM)
    if cls == "correct":
        return good
    if cls == "nonutf8":
        return rng.choice([b"Tahoe-LAFS \xff\xfe", b"\xc3\x28", good + b"\xff"])
    if cls == "wrong":
        other = bytes(rng.randrange(33, 127) for _ in range(rng.randint(1, 24)))
        return b"Tahoe-LAFS " + b64encode(rng.choice([other, SWISSNUM[:-1], SWISSNUM + b"x", SWISSNUM[::-1], SWISSNUM.lower(), b"\x00" + SWISSNUM]))
    if cls == "malformed":
        e = b64encode(SWISSNUM)
        return rng.choice([b"Tahoe-LAFS", b"Basic " + e, e, good + b"=", b"Tahoe-LAFS " + SWISSNUM, b"Tahoe-LAFS " + e[:-1],
                           b"Tahoe-LAFS\t" + e, good + b" x", b"tahoe-lafs " + e, b"Tahoe-LAFS  " + e, b"Bearer " + e,
                           b"Tahoe-LAFS " + b64encode(SWISSNUM + b"\n"), b"", b"Tahoe-LAFS " + e + b"," + e])
    raise ValueError(cls)


def secret_header(rng, h):
    kind, val = h["kind"], h["val"]
    name = KIND_NAME.get(kind, b"frobnicate-secret")
    if val == "nonutf8":
        return name + b" \xff\xfe"
    if val == "bad":
        opts = [name, name + b" ", name + b" ====", name + b" !!!!", name + b" abc", name.title() + b" " + b64encode(b"x" * 32),
                name + b"\t" + b64encode(b"x" * 32), name + b"=" + b64encode(b"x" * 32)]
        if kind in ("rs", "cs"):
            opts += [name + b" " + b64encode(b"x" * 31), name + b" " + b64encode(b"x" * 33), name + b" " + b64encode(b"x")]
        return rng.choice(opts)
    return name + b" " + b64encode(SECRETS[val])


def cbor_set(xs):
    return cbor2.CBORTag(258, list(xs))


def bad_body(rng, ep):
    good = {"alloc": {"share-numbers": cbor_set([0, 1]), "allocated-size": 4},
            "rtw": {"test-write-vectors": {}, "read-vector": []},
            "icorrupt": {"reason": "x"}, "mcorrupt": {"reason": "x"}}[ep]
    enc = cbor2.dumps(good)
    opts = [b"", b"\xff\x00garbage", enc[:-2], cbor2.dumps({"x": 1}), cbor2.dumps([1, 2, 3]), cbor2.dumps(dict(good, extra=1)), b"{}"]
    if ep == "alloc":
        opts += [cbor2.dumps({"share-numbers": [0, 1], "allocated-size": 4}),
                 cbor2.dumps({"share-numbers": cbor_set([0]), "allocated-size": -1}),
                 cbor2.dumps({"share-numbers": cbor_set(["0"]), "allocated-size": 4})]
    if ep == "rtw":
        opts += [cbor2.dumps({"test-write-vectors": {0: {"test": [], "write": [{"offset": 0, "data": "text"}], "new-length": None}}, "read-vector": []}),
                 cbor2.dumps({"test-write-vectors": {0: {"test": [], "write": []}}, "read-vector": []})]
        # (a text share number such as {"0": ...} passes the server's CDDL schema and then fails inside the storage server with a
        #  TypeError -> 500; a robustness matter outside C30/C31, not generated)
    if ep in ("icorrupt", "mcorrupt"):
        opts += [cbor2.dumps({"reason": b"bytes"}), cbor2.dumps({"reason": ""})]
    return rng.choice(opts)


def concretize(rng, r):
    """abstract request -> (method, path, [(header, value)], body)"""
    ep, a = r["ep"], r["a"]
    sis = si_b2a(SI[r["si"]]).decode() if r["si"] in SI else ""
    sh = r["sh"]
    headers = []      # the headers other than the two authorization ones
    body = None
    if ep == "version":
        m, p = "GET", "/storage/v1/version"
    elif ep == "alloc":
        m, p = "POST", "/storage/v1/immutable/" + sis
    elif ep == "write":
        m, p = "PATCH", "/storage/v1/immutable/%s/%s" % (sis, sh)
    elif ep == "abort":
        m, p = "PUT", "/storage/v1/immutable/%s/%s/abort" % (sis, sh)
    elif ep == "ilist":
        m, p = "GET", "/storage/v1/immutable/%s/shares" % sis
    elif ep == "iread":
        m, p = "GET", "/storage/v1/immutable/%s/%s" % (sis, sh)
    elif ep == "lease":
        m, p = "PUT", "/storage/v1/lease/" + sis
    elif ep == "icorrupt":
        m, p = "POST", "/storage/v1/immutable/%s/%s/corrupt" % (sis, sh)
    elif ep == "rtw":
        m, p = "POST", "/storage/v1/mutable/%s/read-test-write" % sis
    elif ep == "mread":
        m, p = "GET", "/storage/v1/mutable/%s/%s" % (sis, sh)
    elif ep == "mlist":
        m, p = "GET", "/storage/v1/mutable/%s/shares" % sis
    elif ep == "mcorrupt":
        m, p = "POST", "/storage/v1/mutable/%s/%s/corrupt" % (sis, sh)
    elif ep == "nosuch":
        if a["route"] == "nomethod":
            m, p = rng.choice([("DELETE", "/storage/v1/immutable/%s/0" % sis), ("POST", "/storage/v1/version"), ("GET", "/storage/v1/lease/" + sis),
                               ("PUT", "/storage/v1/mutable/%s/read-test-write" % sis)])
        else:
            m, p = rng.choice([("GET", "/storage/v1/immutable/zz/shares"), ("GET", "/storage/v2/version"), ("GET", "/storage/v1/immutable/%s/-1" % sis),
                               ("GET", "/"), ("POST", "/storage/v1/lease/" + sis[:-1]), ("GET", "/storage/v1/immutable/%s/shares/x" % sis)])
    else:
        raise ValueError(ep)
    if ep in ("alloc", "rtw", "icorrupt", "mcorrupt"):
        if a["body"] == "ok":
            if ep == "alloc":
                msg = {"share-numbers": cbor_set(int(s) for s in a["shnums"]), "allocated-size": a["size"]}
            elif ep == "rtw":
                msg = {"test-write-vectors": {int(s): {"test": [{"offset": t["off"], "size": t["len"], "specimen": l2b(t["spec"])} for t in v["test"]],
                                                       "write": [{"offset": w["off"], "data": l2b(w["data"])} for w in v["writes"]],
                                                       "new-length": None if v["newlen"] < 0 else v["newlen"]}
                                              for s, v in a["tw"].items()},
                       "read-vector": [{"offset": x["off"], "size": x["len"]} for x in a["rv"]]}
            else:
                msg = {"reason": "seeded advisory"}
            body = cbor2.dumps(msg)
            if rng.random() < 0.5:
                headers.append(("Content-Type", "application/cbor"))
        elif a["body"] == "ctype":
            body = cbor2.dumps({"reason": "x"})
            headers.append(("Content-Type", rng.choice(["text/plain", "application/json", "application/octet-stream"])))
        else:
            body = bad_body(rng, ep)
    if ep == "write":
        body = l2b(a["data"])
        if a["cr"] == "ok":
            headers.append(("Content-Range", "bytes %d-%d/*" % (a["off"], a["off"] + len(a["data"]) - 1)))
        elif a["cr"] == "bad":
            headers.append(("Content-Range", rng.choice(["bytes %d-%d/*" % (a["off"] + 1, a["off"]), "items 0-1/*", "junk", "bytes 0-1", "bytes=0-1", "bytes 0-/*", "bytes -1/*",
                                                          "bytes 0-1/*, bytes 2-3/*"])))
    if ep in ("iread", "mread"):
        if a["rng"] == "ok":
            headers.append(("Range", "bytes=%d-%d" % (a["off"], a["off"] + a["len"] - 1)))
        elif a["rng"] == "bad":
            headers.append(("Range", rng.choice(["bytes=2-", "bytes=-2", "items=0-1", "bytes=0-1,3-4", "junk", "bytes=3-2"])))
    return m, p, ordered_headers(rng, r, headers), body


def ordered_headers(rng, r, extra):
    """Authorization / X-Tahoe-Authorization headers in the recorded order, other headers interleaved at random."""
    hs = [("Authorization", auth_value(rng, c)) for c in r["auth"]]
    xs = [("X-Tahoe-Authorization", secret_header(rng, h)) for h in r["hdrs"]]
    # interleave the two groups and the extras without changing the order inside a group
    groups = [hs, xs] + [[e] for e in extra]
    out = []
    while any(groups):
        g = rng.choice([g for g in groups if g])
        out.append(g.pop(0))
    return out


def abstract_body(ep, status, content):
    """what the answer says, in the Spec's vocabulary (no judgement: undecodable -> 'other')"""
    if not (200 <= status < 300):
        return {"k": "none"}
    try:
        if ep == "version":
            v = cbor2.loads(content)
            return {"k": "version"} if b"http://allmydata.org/tahoe/protocols/storage/v1" in v else {"k": "other"}
        if ep == "alloc":
            v = cbor2.loads(content)
            return {"k": "alloc", "already": sorted(str(x) for x in v["already-have"]), "allocated": sorted(str(x) for x in v["allocated"])}
        if ep == "write":
            v = cbor2.loads(content)
            pos = []
            for c in v["required"]:
                pos += list(range(c["begin"], c["end"]))
            return {"k": "required", "req": pos}
        if ep in ("ilist", "mlist"):
            v = cbor2.loads(content)
            return {"k": "shares", "shares": sorted(str(x) for x in v)}
        if ep in ("iread", "mread"):
            return {"k": "bytes", "data": b2l(content)} if status in (200, 206) else {"k": "none"}
        if ep == "rtw":
            v = cbor2.loads(content)
            return {"k": "rtw", "success": bool(v["success"]), "reads": {str(k): [b2l(x) for x in xs] for k, xs in v["data"].items()}}
        if content:
            return {"k": "other"}
        return {"k": "none"}
    except Exception:
        return {"k": "other"}


# --------------------------------------------------------------------------------------------
# scenario state shared by both modes: what the driver knows in order to *generate* interesting requests
# --------------------------------------------------------------------------------------------
class Gen:
    def __init__(self, rng, base):
        self.rng = rng
        self.base = base          # byte alphabet base
        self.known = set()        # 3-byte windows of every share byte string ever sent
        self.uploads = {}         # (si, sh) -> (upload secret name, size)  as far as the generator knows

    def data(self, n):
        r = self.rng
        return [self.base + (r.choice([0, 1]) if r.random() < 0.85 else r.choice([2, 3])) for _ in range(n)]

    def note(self, data):
        for i in range(len(data) - 2):
            self.known.add(bytes(data[i:i + 3]))

    def hdr(self, kind, val):
        return {"kind": kind, "val": val}

    def good_hdrs(self, ep, us=None, we=None):
        r = self.rng
        out = []
        for k in REQUIRED.get(ep, []):
            if k == "us":
                out.append(self.hdr(k, us or r.choice(list(US))))
            elif k == "we":
                out.append(self.hdr(k, we or r.choice(list(WE))))
            else:
                out.append(self.hdr(k, r.choice(KIND_VALS[k])))
        r.shuffle(out)
        return out

    def mangle_hdrs(self, ep, hdrs, c=None):
        """one of the header classes: missing, malformed, wrong, duplicated (either order), extra kind, unknown kind, non-UTF-8"""
        r = self.rng
        hdrs = [dict(h) for h in hdrs]
        req = REQUIRED.get(ep, [])
        if c is None or (not req and c not in ("extra", "unknown", "bad", "nonutf8")):
            c = r.choice(HDR_CLASSES if req else ["extra", "unknown", "bad", "nonutf8", "extra"])
        if c == "none":
            return [], c
        if c == "extra":
            k = r.choice([k for k in KIND_NAME if k not in req])
            hdrs.insert(r.randint(0, len(hdrs)), self.hdr(k, r.choice(KIND_VALS[k])))
            return hdrs, c
        if c == "unknown":
            hdrs.insert(r.randint(0, len(hdrs)), self.hdr("unknown", "u1"))
            return hdrs, c
        if not req:
            k = r.choice(list(KIND_NAME))
            hdrs.append(self.hdr(k, "bad" if c == "bad" else "nonutf8"))
            return hdrs, c
        i = r.randrange(len(hdrs))
        k = hdrs[i]["kind"]
        others = [v for v in KIND_VALS[k] if v != hdrs[i]["val"]]
        if c == "missing":
            del hdrs[i]
        elif c == "bad":
            hdrs[i]["val"] = "bad"
        elif c == "nonutf8":
            hdrs[i]["val"] = "nonutf8"
        elif c == "wrong":
            hdrs[i]["val"] = r.choice(others)
        elif c == "dup_wrong_last":
            hdrs.insert(r.randint(i + 1, len(hdrs)), self.hdr(k, r.choice(others)))
        elif c == "dup_wrong_first":
            hdrs.insert(r.randint(0, i), self.hdr(k, r.choice(others)))
        elif c == "dup_bad":
            hdrs.insert(r.randint(0, len(hdrs)), self.hdr(k, "bad"))
        return hdrs, c

    def tw(self, cur):
        r = self.rng
        tw = {}
        for sh in r.sample(SHNUMS, r.choice([0, 1, 1, 1, 2, 2, 3])):
            data = cur[sh]["data"]
            test = []
            for _ in range(r.choice([0, 0, 1, 1, 2])):
                off = r.randint(0, max(1, len(data) + 1))
                ln = r.randint(0, 4)
                spec = data[off:off + ln] if r.random() < 0.8 else self.data(r.randint(0, 3))
                test.append({"off": off, "len": ln, "spec": spec})
            writes = []
            for _ in range(r.choice([0, 1, 1, 2, 3])):
                off = r.randint(0, len(data) + 3) if r.random() > 0.15 else r.randint(10, 40)
                writes.append({"off": off, "data": self.data(r.choice([0, 1, 2, 3, 5]))})
            newlen = r.choice([-1, -1, -1, 0, 1, 2, 4, 8, 50]) if r.random() < 0.5 else -1
            tw[sh] = {"test": test, "writes": writes, "newlen": newlen}
            for w in writes:
                self.note(w["data"])
        return tw

    def args(self, ep, srv, si, sh):
        """seeded arguments of a well-formed request"""
        r = self.rng
        if ep == "alloc":
            return {"body": "ok", "shnums": sorted(r.sample(SHNUMS, r.choice([0, 1, 1, 2, 2, 3]))), "size": r.randint(3, 6) if self.base else r.randint(1, 5)}
        if ep == "write":
            up = self.uploads.get((si, sh))
            size = up[1] if up else 4
            need = up[2] if up else list(range(size))
            x = r.random()
            if need and x < 0.6:
                # a chunk of what is still missing, anywhere in it (out of order), of random length
                off = r.choice(need)
                run = 1
                while off + run in need:
                    run += 1
                ln = r.randint(1, run)
            elif x < 0.9:
                off = r.randint(0, max(0, size - 1))          # overlapping / rewriting, inside the share
                ln = r.randint(1, max(1, size - off))
            else:
                off = r.randint(0, size + 1)                   # running past the end
                ln = r.choice([1, 2, size, size + 1])
            d = self.data(ln)
            self.note(d)
            return {"cr": "ok", "off": off, "data": d}
        if ep in ("iread", "mread"):
            return {"rng": "ok", "off": r.choice([0, 0, 1, 1, 2, 3, 4, 5, 7]), "len": r.randint(1, 8) if ep == "iread" else r.choice([1, 2, 3, 5, 9, 60])}
        if ep == "rtw":
            return {"body": "ok", "tw": self.tw(srv.obs(si)), "rv": [{"off": r.randint(0, 8), "len": r.randint(0, 9)} for _ in range(r.choice([0, 1, 2]))]}
        if ep in ("icorrupt", "mcorrupt"):
            return {"body": "ok"}
        return {"none": True}


def pick_target(g, srv, ep):
    """(si, sh) for a route, biased towards the interesting shares"""
    r = g.rng
    if ep in ("rtw", "mread", "mlist", "mcorrupt"):
        si = r.choice(SISM)
    elif ep == "lease":
        si = r.choice(SISI + SISM)
    elif ep == "version":
        return "", ""
    else:
        si = r.choice(SISI)
    sh = ""
    if ep in ("write", "abort"):
        live = sorted(g.uploads)
        if live and r.random() < 0.92:
            si, sh = r.choice(live)
        else:
            sh = r.choice(SHNUMS)
    elif ep in ("iread", "icorrupt", "mread", "mcorrupt"):
        have = []
        for s2 in (SISI if ep in ("iread", "icorrupt") else SISM):
            o = srv.obs(s2)
            have += [(s2, s) for s in SHNUMS if o[s].get("st") == "final" or o[s].get("present")]
        if have and r.random() < 0.85:
            si, sh = r.choice(have)
        else:
            sh = r.choice(SHNUMS)
    return si, sh


def correct_we(srv, si, rng):
    cur = srv.obs(si)
    ex = [s["we"] for s in cur.values() if s["present"]]
    return ex[0] if ex else rng.choice(list(WE))


def well_formed(g, srv, ep):
    """a request a legitimate client would send (right swissnum, right secrets)"""
    si, sh = pick_target(g, srv, ep)
    us = g.uploads.get((si, sh), (None,))[0] if ep in ("write", "abort") else None
    if ep in ("write", "abort") and not g.uploads and g.rng.random() < 0.9:
        return well_formed(g, srv, "alloc")          # nothing to write to: start an upload instead
    we = correct_we(srv, si, g.rng) if ep == "rtw" else None
    return {"ep": ep, "auth": ["correct"], "hdrs": g.good_hdrs(ep, us=us, we=we), "si": si, "sh": sh, "a": g.args(ep, srv, si, sh)}


def after(g, r, status, body):
    """keep the generator's picture of the uploads in progress (generation only)"""
    if r["ep"] == "alloc" and status == 200 and body.get("k") == "alloc":
        us = [h["val"] for h in r["hdrs"] if h["kind"] == "us"][-1]
        for sh in body["allocated"]:
            g.uploads[(r["si"], sh)] = [us, r["a"]["size"], list(range(r["a"]["size"]))]
    if r["ep"] == "write" and status == 201:
        g.uploads.pop((r["si"], r["sh"]), None)
    if r["ep"] == "write" and status == 200 and body.get("k") == "required" and (r["si"], r["sh"]) in g.uploads:
        g.uploads[(r["si"], r["sh"])][2] = list(body["req"])
    if r["ep"] == "abort" and status == 200:
        g.uploads.pop((r["si"], r["sh"]), None)



# --------------------------------------------------------------------------------------------
# mode authz (C30)
# --------------------------------------------------------------------------------------------
def exec_raw(g, srv, r, conn=None):
    m, p, headers, body = concretize(g.rng, r)
    before = srv.digest()
    status, content = srv.raw(m, p, headers, body) if conn is None else srv.raw_conn(conn, m, p, headers, body)
    same = srv.digest() == before
    ab = abstract_body(r["ep"], status, content)
    hasdata = any(content[i:i + 3] in g.known for i in range(len(content) - 2))
    e = {"ev": "Req", "r": r, "status": status, "body": ab, "hasdata": hasdata, "same": same}
    if srv.raised:
        e["raised"], srv.raised = list(srv.raised), []
    if r["si"] in SI and not same:
        e["obs"] = srv.obs(r["si"])      # (when no file changed the Spec must not expect an observable change either)
    after(g, r, status, ab)
    return e


LEGIT = [("alloc", 6), ("write", 16), ("abort", 2), ("ilist", 2), ("iread", 4), ("lease", 2), ("icorrupt", 1), ("rtw", 8), ("mread", 4),
         ("mlist", 2), ("mcorrupt", 1), ("version", 1)]
LEGIT_OPS = [o for o, w in LEGIT for _ in range(w)]


def vary_args(g, r):
    """sometimes break the non-authorization part of a request too (body, Range, Content-Range)"""
    rng, ep, a = g.rng, r["ep"], r["a"]
    if ep in ("alloc", "rtw", "icorrupt", "mcorrupt") and rng.random() < 0.2:
        a["body"] = rng.choice(["bad", "bad", "ctype"])
    if ep == "write" and rng.random() < 0.15:
        a["cr"] = rng.choice(["none", "bad"])
    if ep in ("iread", "mread") and rng.random() < 0.2:
        a["rng"] = rng.choice(["none", "bad"])


def advance_event(g, servers):
    dt = g.rng.choice([1, 60, 600, 900, 1200, 1800, 1801])
    crash = ""
    try:
        vr.advance(dt)
    except Exception as ex:      # a timer of the code under test (bucket-writer timeout) raised: an observation
        crash = type(ex).__name__
    for k in list(g.uploads):
        if servers[0].obs(k[0])[k[1]]["st"] != "incoming":
            del g.uploads[k]
    e = {"ev": "Advance", "dt": dt, "crash": crash, "obsall": servers[0].obsall()}
    if len(servers) > 1:
        e["dobsall"] = servers[1].obsall()
    return e


class _VirtualTime:
    """time.time() of the crawler, the lease checker and the lease records = the virtual clock of the server"""
    def time(self):
        return vr.seconds()


def expire_event(g, srv):
    """more than a lease duration passes, then the lease checker completes one cycle"""
    import allmydata.storage.crawler as crawler_mod, allmydata.storage.expirer as expirer_mod, allmydata.storage.lease as lease_mod
    dt = g.rng.choice([32, 33, 40, 62]) * 86400 + g.rng.randint(1, 3600)
    vr.advance(dt)
    for k in list(g.uploads):
        if srv.obs(k[0])[k[1]]["st"] != "incoming":
            del g.uploads[k]
    saved = [(m, m.time) for m in (crawler_mod, expirer_mod, lease_mod)]
    crash = ""
    try:
        for m, _ in saved:
            m.time = _VirtualTime()
        lc = srv.ss.lease_checker
        lc.start_slice()
        t = getattr(lc, "timer", None)
        if t is not None and t.active():
            t.cancel()
    except Exception as ex:
        import traceback
        crash = "%s: %s @ %s" % (type(ex).__name__, str(ex)[:120], " < ".join(x.strip()[:90] for x in traceback.format_exc().strip().splitlines()[-7:-1:2]))
    finally:
        for m, t in saved:
            m.time = t
    return {"ev": "Expire", "dt": dt, "crash": crash, "obsall": srv.obsall()}


def expiry_scenario(g, srv, events):
    """a mutable slot is written, expires and is deleted by the lease checker, is created again (half of the time
    under the other write enabler), and is then addressed with each write enabler in turn"""
    rng = g.rng
    for _ in range(rng.randint(1, 3)):
        events.append(exec_raw(g, srv, well_formed(g, srv, "rtw")))
    events.append(expire_event(g, srv))
    for _ in range(rng.randint(1, 2)):
        events.append(exec_raw(g, srv, well_formed(g, srv, "rtw")))
    for _ in range(rng.randint(2, 5)):
        r = well_formed(g, srv, "rtw")
        we = rng.choice(sorted(WE))
        r["hdrs"] = [dict(h, val=we) if h["kind"] == "we" else h for h in r["hdrs"]]
        events.append(exec_raw(g, srv, r))


def cross_upload_scenario(g, srv, events):
    """two clients upload different shares of one storage index, each with its own upload secret; then each secret is
    presented for the other client's share (write, abort) before the owners go on"""
    rng = g.rng
    si = rng.choice(SISI)
    free = [sh for sh in SHNUMS if srv.obs(si)[sh]["st"] == "absent"]
    if len(free) < 2:
        return
    a, b = rng.sample(free, 2)
    ua, ub = rng.sample(sorted(US), 2)
    size = rng.randint(3, 5)
    for sh, us in ((a, ua), (b, ub)):
        events.append(exec_raw(g, srv, {"ep": "alloc", "auth": ["correct"], "hdrs": g.good_hdrs("alloc", us=us), "si": si, "sh": "",
                                        "a": {"body": "ok", "shnums": [sh], "size": size}}))
    if (si, a) not in g.uploads or (si, b) not in g.uploads:
        return
    steps = [("write", a, ub), ("abort", b, ua), ("write", b, ua), ("write", a, ua), ("write", b, ub), ("abort", a, ub)]
    rng.shuffle(steps)
    for ep, sh, us in steps[:rng.randint(3, 6)]:
        if (si, sh) not in g.uploads:
            continue
        events.append(exec_raw(g, srv, {"ep": ep, "auth": ["correct"], "hdrs": g.good_hdrs(ep, us=us), "si": si, "sh": sh,
                                        "a": g.args(ep, srv, si, sh)}))


def keepalive_scenario(g, srv, events):
    """one persistent connection: a request with the right swissnum, then requests without it (or with a wrong one) through the
    same server-side channel - every request is authorised on its own"""
    rng = g.rng
    conn = srv.open_conn()
    events.append(exec_raw(g, srv, well_formed(g, srv, rng.choice(["version", "ilist", "mlist", "rtw", "alloc"])), conn=conn))
    for _ in range(rng.randint(2, 4)):
        r = well_formed(g, srv, rng.choice(LEGIT_OPS))
        if rng.random() < 0.8:
            r["auth"] = list(rng.choice([a for a in AUTH_CLASSES if a != ["correct"]]))
        events.append(exec_raw(g, srv, r, conn=conn))


def authz_trace(rng, work, combos, nrandom, expiring=False):
    srv = Server(work, True, expiring)
    g = Gen(rng, 0xE0)
    events = []
    try:
        # a legitimate client's work in progress
        for _ in range(rng.randint(3, 8)):
            events.append(exec_raw(g, srv, well_formed(g, srv, rng.choice(["alloc", "write", "write", "rtw", "write", "alloc"]))))
        todo = [("combo", c) for c in combos] + [("random", None)] * nrandom
        if expiring:
            todo += [("expiry", None)] * 2
        todo += [("cross", None), ("keepalive", None)]
        rng.shuffle(todo)
        for kind, c in todo:
            if kind == "expiry":
                expiry_scenario(g, srv, events)
                continue
            if kind == "cross":
                cross_upload_scenario(g, srv, events)
                continue
            if kind == "keepalive":
                keepalive_scenario(g, srv, events)
                continue
            if kind == "combo":
                ep, auth, hc = c
                if ep == "nosuch":
                    r = {"ep": "nosuch", "auth": list(auth), "hdrs": [], "si": "i0", "sh": "", "a": {"route": rng.choice(["nopath", "nomethod"])}}
                else:
                    r = well_formed(g, srv, ep)
                    r["auth"] = list(auth)
                    if hc != "good":
                        r["hdrs"], _ = g.mangle_hdrs(ep, r["hdrs"], hc)
            else:
                x = rng.random()
                if x < 0.06:
                    events.append(advance_event(g, [srv]))
                    continue
                r = well_formed(g, srv, rng.choice(LEGIT_OPS))
                if x < 0.45:
                    y = rng.random()
                    if y < 0.4:
                        r["auth"] = list(rng.choice(AUTH_CLASSES))
                    elif y < 0.9:
                        r["hdrs"], _ = g.mangle_hdrs(r["ep"], r["hdrs"])
                    else:
                        r["auth"] = list(rng.choice(AUTH_CLASSES))
                        r["hdrs"], _ = g.mangle_hdrs(r["ep"], r["hdrs"])
                vary_args(g, r)
            events.append(exec_raw(g, srv, r))
        return {"consts": {"sisI": SISI, "sisM": SISM, "shnums": SHNUMS, "readonly": False, "capacity0": 1000000, "reserved": 0, "mode": "authz"},
                "events": events}
    finally:
        for c in list(vr.getDelayedCalls()):
            c.cancel()
        srv.cleanup()


def all_combos():
    out = []
    for ep in ENDPOINTS + ["nosuch"]:
        for auth in AUTH_CLASSES:
            out.append((ep, auth, "good"))
            out.append((ep, auth, "none"))
        for hc in HDR_CLASSES:
            out.append((ep, ["correct"], hc))
            out.append((ep, ["correct", "wrong"], hc))
        out.append((ep, ["correct"], "good"))
    return out


# --------------------------------------------------------------------------------------------
# mode twin (C31)
# --------------------------------------------------------------------------------------------
def eff(r, kind):
    vals = [h["val"] for h in r["hdrs"] if h["kind"] == kind]
    return vals[-1] if vals else None


def client_call(h, r):
    """the operation through the real client classes; returns (status, abstract body)"""
    ep, a, si = r["ep"], r["a"], SI.get(r["si"])
    sh = int(r["sh"]) if r["sh"] != "" else None
    rs, cs, us, we = (SECRETS.get(eff(r, k)) for k in ("rs", "cs", "us", "we"))
    h.rec.codes[:] = []
    if ep == "version":
        d = h.gen.get_version()
    elif ep == "alloc":
        d = h.imm.create(si, set(int(s) for s in a["shnums"]), a["size"], us, rs, cs)
    elif ep == "write":
        d = h.imm.write_share_chunk(si, sh, us, a["off"], l2b(a["data"]))
    elif ep == "abort":
        d = h.imm.abort_upload(si, sh, us)
    elif ep == "ilist":
        d = h.imm.list_shares(si)
    elif ep == "iread":
        d = h.imm.read_share_chunk(si, sh, a["off"], a["len"])
    elif ep == "lease":
        d = h.gen.add_or_renew_lease(si, rs, cs)
    elif ep == "icorrupt":
        d = h.imm.advise_corrupt_share(si, sh, "seeded advisory")
    elif ep == "mcorrupt":
        d = h.mut.advise_corrupt_share(si, sh, "seeded advisory")
    elif ep == "rtw" and r.get("via") == "adapter":
        from allmydata.storage_client import _HTTPStorageServer
        twv = {int(s): ([(t["off"], t["len"], l2b(t["spec"])) for t in v["test"]], [(w["off"], l2b(w["data"])) for w in v["writes"]],
                        None if v["newlen"] < 0 else v["newlen"]) for s, v in a["tw"].items()}
        d = _HTTPStorageServer.from_http_client(h.client).slot_testv_and_readv_and_writev(si, (we, rs, cs), twv, [(x["off"], x["len"]) for x in a["rv"]])
    elif ep == "lease" and r.get("via") == "adapter":
        from allmydata.storage_client import _HTTPStorageServer
        d = _HTTPStorageServer.from_http_client(h.client).add_lease(si, rs, cs)
    elif ep == "rtw":
        twv = {int(s): TestWriteVectors(test_vectors=[TestVector(offset=t["off"], size=t["len"], specimen=l2b(t["spec"])) for t in v["test"]],
                                        write_vectors=[WriteVector(offset=w["off"], data=l2b(w["data"])) for w in v["writes"]],
                                        new_length=None if v["newlen"] < 0 else v["newlen"])
               for s, v in a["tw"].items()}
        d = h.mut.read_test_write_chunks(si, we, rs, cs, twv, [ReadVector(offset=x["off"], size=x["len"]) for x in a["rv"]])
    elif ep == "mread":
        d = h.mut.read_share_chunk(si, sh, a["off"], a["len"])
    elif ep == "mlist":
        d = h.mut.list_shares(si)
    else:
        raise ValueError(ep)
    res = h.run(d)
    status = h.rec.codes[-1] if h.rec.codes else 0
    if hasattr(res, "check"):       # a Failure
        if res.check(ClientException):
            return res.value.code, {"k": "none"}, type(res.value).__name__
        if r.get("via") == "adapter" and status == 401 and type(res.value).__name__ == "RemoteException":
            return 401, {"k": "none"}, "RemoteException"     # the adapter's spelling of a refused write enabler
        return status, {"k": "other"}, type(res.value).__name__
    if ep == "rtw" and r.get("via") == "adapter":
        ok, reads = res
        return status, {"k": "rtw", "success": bool(ok), "reads": {str(k): [b2l(x) for x in xs] for k, xs in reads.items()}}, "ok"
    if ep == "version":
        body = {"k": "version"} if b"http://allmydata.org/tahoe/protocols/storage/v1" in res else {"k": "other"}
    elif ep == "alloc":
        body = {"k": "alloc", "already": sorted(str(x) for x in res.already_have), "allocated": sorted(str(x) for x in res.allocated)}
    elif ep == "write":
        pos = []
        for mr in res.required.ranges():
            pos += list(range(mr[0], mr[1]))
        body = {"k": "required", "req": pos}
        if res.finished != (status == 201):
            body = {"k": "other"}
    elif ep in ("ilist", "mlist"):
        body = {"k": "shares", "shares": sorted(str(x) for x in res)}
    elif ep in ("iread", "mread"):
        body = {"k": "bytes", "data": b2l(res)} if status == 206 else ({"k": "none"} if res == b"" else {"k": "other"})
    elif ep == "rtw":
        body = {"k": "rtw", "success": bool(res.success), "reads": {str(k): [b2l(x) for x in xs] for k, xs in res.reads.items()}}
    else:
        body = {"k": "none"}
    return status, body, "ok"


def direct_call(d, writers, r):
    """the same operation on the twin StorageServer itself"""
    ep, a, si = r["ep"], r["a"], SI.get(r["si"])
    sh = int(r["sh"]) if r["sh"] != "" else None
    rs, cs, we = (SECRETS.get(eff(r, k)) for k in ("rs", "cs", "we"))
    ss = d.ss
    key = (r["si"], r["sh"])
    if ep == "alloc":
        already, ws = ss.allocate_buckets(si, rs, cs, set(int(s) for s in a["shnums"]), a["size"])
        for n, bw in ws.items():
            writers[(r["si"], str(n))] = bw
        return {"st": "ok", "already": sorted(str(x) for x in already), "allocated": sorted(str(x) for x in ws)}
    if ep == "write":
        bw = writers.get(key)
        if bw is None or bw.closed:
            return {"st": "nowriter"}
        try:
            fin = bw.write(a["off"], l2b(a["data"]))
        except ConflictingWriteError:
            return {"st": "conflict"}
        except DataTooLargeError:
            return {"st": "toolarge"}
        if fin:
            bw.close()
        return {"st": "ok", "finished": bool(fin)}
    if ep == "abort":
        bw = writers.get(key)
        if bw is None or bw.closed:
            return {"st": "nowriter"}
        bw.abort()
        return {"st": "ok"}
    if ep == "ilist":
        return {"st": "ok", "shares": sorted(str(x) for x in ss.get_buckets(si))}
    if ep == "iread":
        b = ss.get_buckets(si).get(sh)
        if b is None:
            return {"st": "noshare"}
        return {"st": "ok", "data": b2l(b.read(a["off"], a["len"]))}
    if ep == "mread":
        rd = ss.slot_readv(si, [sh], [(a["off"], a["len"])])
        if sh not in rd:
            return {"st": "noshare"}
        return {"st": "ok", "data": b2l(rd[sh][0])}
    if ep == "mlist":
        return {"st": "ok", "shares": sorted(str(x) for x in ss.slot_readv(si, [], []))}
    if ep == "lease":
        ss.add_lease(si, rs, cs)
        return {"st": "ok"}
    if ep == "icorrupt":
        b = ss.get_buckets(si).get(sh)
        if b is not None:
            b.advise_corrupt_share(b"seeded advisory")
        else:
            ss.advise_corrupt_share(b"immutable", si, sh, b"seeded advisory")
        return {"st": "ok"}
    if ep == "mcorrupt":
        ss.advise_corrupt_share(b"mutable", si, sh, b"seeded advisory")
        return {"st": "ok"}
    if ep == "rtw":
        twv = {int(s): ([(t["off"], t["len"], b"eq", l2b(t["spec"])) for t in v["test"]],
                        [(w["off"], l2b(w["data"])) for w in v["writes"]],
                        None if v["newlen"] < 0 else v["newlen"]) for s, v in a["tw"].items()}
        try:
            ok, rd = ss.slot_testv_and_readv_and_writev(si, (we, rs, cs), twv, [(x["off"], x["len"]) for x in a["rv"]])
        except BadWriteEnablerError:
            return {"st": "badwe"}
        return {"st": "ok", "success": bool(ok), "reads": {str(k): [b2l(x) for x in xs] for k, xs in rd.items()}}
    return {"st": "ok"}


def exec_twin(g, h, d, writers, r, with_direct, lose=False):
    before = h.digest()
    h.rec.nreq = 0
    h.rec.lose = 1 if lose else 0
    status, body, how = client_call(h, r)
    h.rec.lose = 0
    same = h.digest() == before
    e = {"ev": "Req", "r": r, "status": status, "body": body, "hasdata": False, "same": same, "how": how}
    if h.raised:
        e["raised"], h.raised = list(h.raised), []
    if lose:
        # the server handled the request, the answer never reached the client: the call either fails or reports the
        # answer of that one application; the servers' states are those of one application
        e["ev"], e["nreq"] = "ReqLost", h.rec.nreq
    if r["si"] in SI and not same:
        e["obs"] = h.obs(r["si"])
    if with_direct:
        dbefore = d.digest()
        res = direct_call(d, writers, r)
        e["d"] = {"res": res, "same": d.digest() == dbefore}
        if r["si"] in SI and not e["d"]["same"]:
            e["d"]["obs"] = d.obs(r["si"])
    if lose:
        if r["ep"] == "abort" and e.get("d", {}).get("res", {}).get("st") == "ok":
            g.uploads.pop((r["si"], r["sh"]), None)
    else:
        after(g, r, status, body)
    return e


VIA_RNG = random.Random(0)


def exec_areadv(g, h, d):
    """slot_readv through the IStorageServer adapter the client uses over HTTP (storage_client._HTTPStorageServer: one
    range read per (share, read vector), in parallel) next to slot_readv of the twin server"""
    from allmydata.storage_client import _HTTPStorageServer
    rng = g.rng
    cands = [si for si in SISM if any(s["present"] for s in h.obs(si).values())]
    if not cands:
        return None
    si = rng.choice(cands)
    present = sorted(sh for sh, s in h.obs(si).items() if s["present"])
    shares = [] if rng.random() < 0.4 else sorted(rng.sample(present, rng.randint(1, len(present))))
    nv = rng.choice([1, 2, 4, 5, 6, 11])
    rv = [{"off": rng.randint(0, 12), "len": rng.randint(1, 9)} for _ in range(nv)]
    adapter = _HTTPStorageServer.from_http_client(h.client)
    res = h.run(adapter.slot_readv(SI[si], [int(x) for x in shares], [(x["off"], x["len"]) for x in rv]))
    if hasattr(res, "check"):
        got, how = {}, type(res.value).__name__
    else:
        got, how = {str(k): [b2l(x) for x in v] for k, v in res.items()}, "ok"
    dres = d.ss.slot_readv(SI[si], [int(x) for x in shares], [(x["off"], x["len"]) for x in rv])
    return {"ev": "AReadv", "si": si, "shares": shares, "rv": rv, "how": how, "res": got,
            "d": {str(k): [b2l(x) for x in v] for k, v in dres.items()}}


def exec_big_rtw(g, h, d):
    """the last request of a history: ONE read-test-write call through the client's adapter that names two shares of a slot with
    3 MiB of new data each and carries a test on the second share that does not hold.  All or nothing: the call must report
    failure and neither server may change (the Spec's RTW: a failing test applies no write of the request)."""
    from allmydata.storage_client import _HTTPStorageServer
    rng = VIA_RNG
    si = rng.choice(SISM)
    a, b = sorted(rng.sample(SHNUMS, 2))
    cur = h.obs(si)
    first = cur[b]["data"][0] if cur[b]["present"] and cur[b]["data"] else 0
    spec = bytes([(first + 1) % 256])                      # differs from the byte at offset 0 (an absent share reads as empty)
    we = WE[correct_we(h, si, rng)]
    rs, cs = SECRETS["r1"], SECRETS["c1"]
    blob = bytes([7]) * (3 * 1024 * 1024)
    before, dbefore = h.digest(), d.digest()
    adapter = _HTTPStorageServer.from_http_client(h.client)
    res = h.run(adapter.slot_testv_and_readv_and_writev(SI[si], (we, rs, cs), {int(a): ([], [(0, blob)], None),
                                                                               int(b): ([(0, 1, spec)], [(0, blob)], None)}, []))
    if hasattr(res, "check"):
        success, how = False, type(res.value).__name__
    else:
        success, how = bool(res[0]), "ok"
    try:
        dok, _ = d.ss.slot_testv_and_readv_and_writev(SI[si], (we, rs, cs), {int(a): ([], [(0, blob)], None),
                                                                             int(b): ([(0, 1, b"eq", spec)], [(0, blob)], None)}, [])
    except Exception as ex:
        dok = type(ex).__name__
    return {"ev": "ABigRTW", "si": si, "shares": [a, b], "success": success, "how": how, "same": h.digest() == before,
            "dsuccess": dok, "dsame": d.digest() == dbefore}


def compare_trees(h, d):
    def norm(files):
        out, seen = {}, {}
        for k in sorted(files):
            if k.startswith("corruption-advisories" + os.sep) and "--" in k:
                suffix = k.split("--", 1)[1]
                seen[suffix] = seen.get(suffix, 0) + 1
                out["corruption-advisories/%s#%d" % (suffix, seen[suffix])] = files[k]
            else:
                out[k] = files[k]
        return out
    fh, fd = norm(h.files()), norm(d.files())
    diff = sorted(k for k in set(fh) | set(fd) if fh.get(k) != fd.get(k))
    return {"equal": not diff, "diff": diff[:10], "files": len(fh), "bytes": sum(len(v) for v in fh.values())}


TWIN = [("alloc", 12), ("write", 32), ("abort", 3), ("ilist", 4), ("iread", 10), ("lease", 6), ("icorrupt", 2), ("rtw", 18), ("mread", 8),
        ("mlist", 3), ("mcorrupt", 1), ("version", 1), ("advance", 5), ("wrongsecret", 3), ("wrongenabler", 2)]
TWIN_OPS = [o for o, w in TWIN for _ in range(w)]


TWIN_RTW = [("rtw", 40), ("mread", 8), ("mlist", 3), ("advance", 3), ("wrongenabler", 4), ("alloc", 3), ("write", 6), ("lease", 3)]
TWIN_RTW_OPS = [o for o, w in TWIN_RTW for _ in range(w)]


def twin_trace(rng, work, nevents, zero_read, focus="", big_rtw=False):
    h, d = Server(work, True), Server(work, False)
    g = Gen(rng, 0)
    writers = {}
    events = []
    try:
        while len(events) < nevents:
            op = rng.choice(TWIN_RTW_OPS if focus == "rtw" else TWIN_OPS)
            lose = False
            if op in ("mread", "mlist") and rng.random() < 0.5:
                e = exec_areadv(g, h, d)
                if e is not None:
                    events.append(e)
                    continue
            if op == "advance":
                events.append(advance_event(g, [h, d]))
                continue
            direct = True
            if op == "wrongsecret":
                if not g.uploads:
                    continue
                (si, sh), (us, size, _need) = rng.choice(sorted(g.uploads.items()))
                ep = rng.choice(["write", "abort"])
                r = {"ep": ep, "auth": ["correct"], "hdrs": [g.hdr("us", rng.choice([u for u in US if u != us]))], "si": si, "sh": sh,
                     "a": g.args(ep, h, si, sh)}
                direct = False
            elif op == "wrongenabler":
                r = well_formed(g, h, "rtw")
                cur = h.obs(r["si"])
                if not any(s["present"] for s in cur.values()):
                    continue
                good = correct_we(h, r["si"], rng)
                r["hdrs"] = [hh if hh["kind"] != "we" else g.hdr("we", [w for w in WE if w != good][0]) for hh in r["hdrs"]]
            else:
                r = well_formed(g, h, op)
                if op in ("write", "abort") and (r["si"], r["sh"]) in g.uploads and eff(r, "us") != g.uploads[(r["si"], r["sh"])][0]:
                    direct = False
                lose = direct and op == r["ep"] and op in ("rtw", "lease", "abort") and rng.random() < (0.3 if focus == "rtw" else 0.12)
            if r["ep"] in ("rtw", "lease") and not lose and VIA_RNG.random() < 0.35:
                # the same request through the IStorageServer adapter the client's publisher / checker uses over HTTP
                # (storage_client._HTTPStorageServer) instead of the bare StorageClientMutables / StorageClientGeneral
                r["via"] = "adapter"
            events.append(exec_twin(g, h, d, writers, r, direct, lose=lose))
        if zero_read:
            # a read of length zero, of a share that exists
            cands = []
            for si in SISI + SISM:
                o = h.obs(si)
                cands += [(si, sh) for sh in SHNUMS if o[sh].get("st") == "final" or o[sh].get("present")]
            if cands:
                si, sh = rng.choice(cands)
                ep = "iread" if si in SISI else "mread"
                r = {"ep": ep, "auth": ["correct"], "hdrs": [], "si": si, "sh": sh, "a": {"rng": "ok", "off": rng.randint(0, 3), "len": 0}}
                cl = h.imm if ep == "iread" else h.mut
                res = h.run(cl.read_share_chunk(SI[si], int(sh), r["a"]["off"], 0))
                got = "empty" if res == b"" else (type(res.value).__name__ if hasattr(res, "check") else "other")
                events.append({"ev": "ClientRead0", "r": r, "got": got, "d": {"res": direct_call(d, writers, r)}})
        if big_rtw:
            events.append(exec_big_rtw(g, h, d))
        tree = compare_trees(h, d)
        return {"consts": {"sisI": SISI, "sisM": SISM, "shnums": SHNUMS, "readonly": False, "capacity0": 1000000, "reserved": 0, "mode": "twin"},
                "events": events, "tree": tree}
    finally:
        for c in list(vr.getDelayedCalls()):
            c.cancel()
        h.cleanup()
        d.cleanup()


def main():
    ap = argparse.ArgumentParser()
    ap.add_argument("--out"); ap.add_argument("--seed", type=int, default=0); ap.add_argument("--tier", default="quick")
    ap.add_argument("--in", dest="inp")
    ap.add_argument("--mode", default="authz"); ap.add_argument("--n", type=int, default=100); ap.add_argument("--events", type=int, default=30)
    ap.add_argument("--focus", default="")
    a = ap.parse_args()
    rng = random.Random("http-%s-%d" % (a.mode, a.seed))
    global VIA_RNG
    VIA_RNG = random.Random("http-via-%d" % a.seed)
    work = tempfile.mkdtemp(prefix="httpdrv", dir="/dev/shm" if os.access("/dev/shm", os.W_OK) else None)
    traces = []
    try:
        if a.mode == "authz":
            combos = all_combos()
            rng.shuffle(combos)
            per = max(1, -(-len(combos) // a.n))      # every combination at least once per run
            for i in range(a.n):
                mine = [combos[(i * per + j) % len(combos)] for j in range(per)]
                traces.append(authz_trace(rng, work, mine, max(0, a.events - per - 5), expiring=(i % 3 == 1)))
        else:
            for i in range(a.n):
                traces.append(twin_trace(rng, work, a.events, zero_read=(i % 10 == 9), focus=a.focus, big_rtw=(i % 5 == 2)))
    finally:
        shutil.rmtree(work, ignore_errors=True)
    with open(a.out, "w") as f:
        json.dump(traces, f)


if __name__ == "__main__":
    main()
