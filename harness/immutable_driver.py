"""Driver of the real immutable upload / download code for C01, C04 and C05.

Modes (``--mode``):

layout    (C01) for every case {size,k,N,maxseg,version} of the input: build a SimGrid, upload seeded
          plaintext through the real Uploader under a seeded random delivery order, read back what the
          uploader committed to (cap fields, UEB unpacked from a share file, the share header, the
          allocated size computed by make_write_bucket_proxy, share lengths on disk), download it with a
          recording consumer under another seeded delivery order, and record DownloadNode's derived sizes.
reads     (C04) upload a few files, then (a) single reads of (offset,size) classes and (b) scenarios of
          several concurrent node.read() calls on ONE node whose consumers pause / resume / stop on a seeded
          schedule (between scheduler steps or from inside write()).
converge  (C05) replay pairs of uploads (plaintext class, secret, k, N, maxseg, source kind, read chunking)
          and report cap / storage index / key / server calls of each.

Output: JSON.  For layout and reads the items carry a trace {"consts", "events"} for TraceImmutableReads.tla.
Byte equality is decided here by a small observer (``matches``); all structure is judged by TLC.
"""
import argparse, json, os, random, struct, sys, tempfile, shutil, hashlib
from io import BytesIO

from vreactor import vr, settle
from twisted.internet import defer
from twisted.internet.interfaces import IConsumer
from twisted.python.failure import Failure
from zope.interface import implementer

from grid import Grid, Hang
from allmydata import uri
from allmydata.immutable import upload, layout
from allmydata.immutable.literal import LiteralFileNode
from allmydata.interfaces import DownloadStopped
from allmydata.storage.immutable import ShareFile



def real_segsize(size, k, maxseg):
    return ((min(maxseg, size) + k - 1) // k) * k if size else 0


def randomize_guess(rng, real=None, allow_lt=True):
    """A fresh download node guesses the segment size (default_max_segment_size) until it has fetched the
    UEB; real files may have larger or smaller segments than the guess.  Vary the guess so that cold ranged
    reads go through both retry directions (guess too small / too large) as well as the exact one.
    Returns "lt" / "eq" / "gt".  Guesses below the real size make some cold ranged reads fail or spin on the
    unchanged tree (known finding of C04), so traces carry the relation in consts["guess"]."""
    from allmydata.immutable.downloader.node import DownloadNode
    if not real:
        DownloadNode.default_max_segment_size = 128 * 1024
        return "gt"
    opts = [real, real, real * 3, 128 * 1024] + ([max(1, (real + 1) // 2), max(1, real // 4)] if allow_lt else [])
    g = rng.choice(opts)
    DownloadNode.default_max_segment_size = g
    return "lt" if g < real else ("eq" if g == real else "gt")


def plaintext(cid, size, variant=""):
    """Deterministic bytes for plaintext class (cid, size, variant): a SHA-256 counter stream keyed by cid;
    variant "t" flips the last byte, variant "h" flips the first byte."""
    out = bytearray()
    i = 0
    while len(out) < size:
        out += hashlib.sha256(b"%s-%d" % (str(cid).encode(), i)).digest()
        i += 1
    out = out[:size]
    if size and variant == "t":
        out[-1] ^= 0x5a
    if size and variant == "h":
        out[0] ^= 0x5a
    return bytes(out)


# ------------------------------------------------------------------------------------------------
@implementer(IConsumer)
class RecConsumer:
    """Records what a read delivers.  sched: {"in": {write_index: "pause"|"stop"}} actions taken from
    inside write(); the scenario calls pause()/resume()/stop() between scheduler steps."""

    def __init__(self, log, rid, data, lo, sched=None, eager_resume=False):
        self.log, self.rid, self.data, self.pos = log, rid, data, lo
        self.sched = sched or {}
        self.producer = None
        self.streaming = None
        self.done = False          # unregisterProducer seen
        self.paused = False
        self.stopped = False
        self.finished = False      # Deferred fired
        self.nwrites = 0
        self.nbytes = 0
        self.eager_resume = eager_resume
        self.inwrite = False

    def registerProducer(self, p, streaming):
        self.producer, self.streaming = p, streaming
        if streaming:
            if self.eager_resume:
                self.log.append({"ev": "Resume", "r": self.rid})
                p.resumeProducing()
        else:
            while not self.done:
                p.resumeProducing()

    def unregisterProducer(self):
        self.done = True

    def write(self, data):
        ok = (data == self.data[self.pos:self.pos + len(data)]) and (self.pos + len(data) <= len(self.data))
        self.log.append({"ev": "Write", "r": self.rid, "len": len(data), "matches": bool(ok)})
        self.pos += len(data)
        self.nbytes += len(data)
        self.nwrites += 1
        act = (self.sched.get("in") or {}).get(self.nwrites)
        if act and self.streaming and not self.stopped:
            self.inwrite = True
            try:
                if act == "pause":
                    self.pause()
                elif act == "stop":
                    self.stop()
            finally:
                self.inwrite = False

    # consumer -> producer
    def can_act(self):
        return self.streaming and self.producer is not None and not self.done and not self.stopped and not self.finished

    def pause(self):
        self.log.append({"ev": "Pause", "r": self.rid, "inwrite": self.inwrite})
        self.paused = True
        self.producer.pauseProducing()

    def resume(self):
        self.log.append({"ev": "Resume", "r": self.rid})
        self.paused = False
        self.producer.resumeProducing()

    def stop(self):
        self.log.append({"ev": "Stop", "r": self.rid})
        self.stopped = True
        self.paused = False
        self.producer.stopProducing()


def start_read(log, node, rid, data, off, size, sched=None, eager=False, lit=False):
    """Log the Read event, call node.read and log Done when its Deferred fires."""
    lo = min(off, len(data)) if lit else off
    c = RecConsumer(log, rid, data, lo, sched, eager)
    log.append({"ev": "Read", "r": rid, "off": off, "size": -1 if size is None else size})
    try:
        d = node.read(c, off, size)
    except Exception as e:  # synchronous failure
        d = defer.fail(Failure())

    def _ok(res):
        c.finished = True
        log.append({"ev": "Done", "r": rid, "res": "ok"})

    def _err(f):
        c.finished = True
        if f.check(DownloadStopped):
            log.append({"ev": "Done", "r": rid, "res": "stopped"})
        else:
            log.append({"ev": "Done", "r": rid, "res": "error", "what": "%s: %s" % (f.type.__name__, str(f.value)[:200])})
    d.addCallbacks(_ok, _err)
    return c


def pump(g, log=None, cap=None, max_steps=60000):
    """Run the grid until quiescent.  A system that never becomes quiescent is cut off (returns -1) after
    max_steps scheduler steps or when the event log grows beyond `cap` entries: the reads still pending then
    simply have no Done event."""
    n = 0
    while True:
        try:
            if not g.step():
                return n
        except Hang:
            return -1
        n += 1
        if n > max_steps or (cap is not None and log is not None and len(log) > cap):
            return -1


def event_cap(data, seg=1):
    """Generous bound on the number of events of one trace: a few per segment per read."""
    return 150 + 6 * (len(data) // max(1, seg) + 1)


# ------------------------------------------------------------------------------------------------
def observe_upload(g, res, data, calls):
    """What the uploader committed to, read back from the cap, a share file and layout.py."""
    cap = res.get_uri()
    u = uri.from_string(cap)
    if isinstance(u, uri.LiteralFileURI):
        return {"ev": "Upload", "outcome": "ok", "lit": True, "calls": calls, "litlen": len(u.data),
                "litmatches": u.data == data}, cap
    si = u.get_storage_index()
    sh = g.shares(si)
    files = [(name, shnum, path) for name in sorted(sh) for shnum, path in sorted(sh[name].items())]
    # length of the share data inside the container = lease offset - container header
    share_lens = [ShareFile(path)._lease_offset - 0x0c for (_, _, path) in files]
    shnums = set(shnum for (_, shnum, _) in files)
    name, shnum, path = files[0]
    sf = ShareFile(path)
    first = sf.read_share_data(0, 0x44)
    (version,) = struct.unpack(">L", first[:4])
    if version == 1:
        f = struct.unpack(">LLLLLLLL", first[4:0x24])
        fs, fmt = 4, ">L"
    else:
        f = struct.unpack(">QQQQQQQQ", first[4:0x44])
        fs, fmt = 8, ">Q"
    hdr = {"version": version, "block_size": f[0], "data_size": f[1], "data": f[2], "plaintext_hash_tree": f[3],
           "crypttext_hash_tree": f[4], "block_hashes": f[5], "share_hashes": f[6], "uri_extension": f[7]}
    (ueblen,) = struct.unpack(fmt, sf.read_share_data(hdr["uri_extension"], fs))
    ueb_s = sf.read_share_data(hdr["uri_extension"] + fs, ueblen)
    ueb = uri.unpack_extension(ueb_s)
    from allmydata import hashtree
    from allmydata.codec import parse_params
    nsh = len(hashtree.IncompleteHashTree(u.total_shares).needed_hashes(0, include_leaf=True))
    wbp = layout.make_write_bucket_proxy(None, None, hdr["data_size"], hdr["block_size"], ueb["num_segments"], nsh, ueblen)
    ev = {"ev": "Upload", "outcome": "ok", "lit": False, "calls": calls,
          "cap": {"k": u.needed_shares, "N": u.total_shares, "size": u.size},
          "ueb": {"segment_size": ueb["segment_size"], "num_segments": ueb["num_segments"], "size": ueb["size"],
                  "needed_shares": ueb["needed_shares"], "total_shares": ueb["total_shares"],
                  "codec_params": list(parse_params(ueb["codec_params"])),
                  "tail_codec_params": list(parse_params(ueb["tail_codec_params"]))},
          "ueb_len": ueblen, "hdr": hdr, "allocated": wbp.get_allocated_size(), "share_lens": share_lens,
          "nshares": len(shnums)}
    return ev, cap


def do_upload(g, data, secret=b"conv", log=None):
    """Upload data; returns (event, cap or None)."""
    c0 = len(g.calllog)
    try:
        res = g.run(g.uploader.upload(upload.Data(data, convergence=secret)))
    except Exception as e:
        return {"ev": "Upload", "outcome": "error", "what": "%s: %s" % (type(e).__name__, str(e)[:300])}, None
    try:
        return observe_upload(g, res, data, len(g.calllog) - c0)
    except Exception as e:
        return {"ev": "Upload", "outcome": "error", "what": "observe: %s: %s" % (type(e).__name__, str(e)[:300])}, None


def node_sizes(node):
    n = getattr(getattr(node, "_cnode", None), "_node", None)
    if n is None or n.segment_size is None:
        return None
    return {"ev": "NodeSizes", "segment_size": n.segment_size, "tail_segment_size": n.tail_segment_size,
            "tail_segment_padded": n.tail_segment_padded, "num_segments": n.num_segments,
            "block_size": n.block_size, "tail_block_size": n.tail_block_size}


def make_grid(work, c, rng, seed):
    nserv = c.get("servers") or rng.randint(1, c["N"] + 3)
    happy = c.get("happy") or rng.randint(1, min(c["N"], nserv))
    g = Grid(tempfile.mkdtemp(prefix="g", dir=work), num_servers=nserv, k=c["k"], n=c["N"], happy=happy,
             max_segment_size=c["maxseg"], seed=seed)
    g.log_calls = True
    return g, nserv, happy


def run_layout_case(work, c, seed):
    rng = random.Random("layout-%d-%s" % (seed, json.dumps(c, sort_keys=True)))
    layout.FORCE_V2 = (c.get("version", 1) == 2)
    g, nserv, happy = make_grid(work, c, rng, seed)
    consts = {"size": c["size"], "k": c["k"], "N": c["N"], "maxseg": c["maxseg"], "version": c.get("version", 1),
              "readers": ["r0", "r1"], "servers": nserv, "happy": happy}
    events = []
    try:
        data = plaintext("c01-%d" % rng.randrange(1 << 30), c["size"])
        g.policy = random.Random(rng.randrange(1 << 30))
        ev, cap = do_upload(g, data)
        events.append(ev)
        if cap is not None:
            g.policy = random.Random(rng.randrange(1 << 30))
            randomize_guess(rng, ev.get("ueb", {}).get("segment_size"), allow_lt=False)
            node = g.nodemaker.create_from_cap(cap)
            lit = isinstance(node, LiteralFileNode)
            g.calllog[:] = []
            cap_ev = event_cap(data, ev.get("ueb", {}).get("segment_size", 1))
            start_read(events, node, "r0", data, 0, None, lit=lit)
            both = rng.random() < 0.4
            if both:
                # the second whole-file read starts while the first is in flight on the same node object (a
                # frontend that keeps one node per open file): both must round-trip
                start_read(events, node, "r1", data, 0, c["size"] + rng.choice([0, 0, 1, 7]), lit=lit)
            alive = pump(g, events, (2 if both else 1) * cap_ev) >= 0
            ns = node_sizes(node)
            if ns:
                events.append(ns)
            if alive and not both:
                # a second read on the same (now warmed) node: explicit size
                start_read(events, node, "r1", data, 0, c["size"] + rng.choice([0, 0, 1, 7]), lit=lit)
                pump(g, events, 2 * cap_ev)
        events.append({"ev": "End"})
    finally:
        layout.FORCE_V2 = False
        g.close()
        shutil.rmtree(g.basedir, ignore_errors=True)
    return {"case": c, "trace": {"consts": consts, "events": events}}


def random_layout_cases(rng, n, big):
    """Seeded tuples beyond the Spec-enumerated boundary table: any 1<=k<=N<=16, sizes up to 300 KiB with
    the number of segments kept below ~70 so that a case stays in the tens of milliseconds."""
    out = []
    for i in range(n):
        k = rng.choice([1, 2, 3, 3, 4, 5, 7, 8, 13, 16])
        N = rng.randint(k, 16)
        mode = rng.random()
        if mode < 0.55:
            maxseg = rng.randint(1, 40)
            seg = -(-maxseg // k) * k
            nseg = rng.randint(1, 40)
            size = max(56, nseg * seg + rng.choice([-2, -1, 0, 1, 2, rng.randint(0, seg)]))
        elif mode < 0.85:
            maxseg = rng.choice([128, 1000, 1024, 4096, 5000])
            size = rng.randint(56, 60 * maxseg)
        else:
            maxseg = rng.choice([16384, 65536, 131072, 262144])
            size = rng.randint(56, (300 if big else 120) * 1024)
        out.append({"size": size, "k": k, "N": N, "maxseg": maxseg, "version": 2 if rng.random() < 0.15 else 1, "random": True})
    return out


def mode_layout(a, inp):
    rng = random.Random("layoutcases-%d" % a.seed)
    cases = list(inp.get("cases", []))
    cases += random_layout_cases(rng, int(inp.get("nrandom", 0)), a.tier != "quick")
    work = tempfile.mkdtemp(prefix="imm")
    out = []
    try:
        for c in cases:
            out.append(run_layout_case(work, c, a.seed))
    finally:
        shutil.rmtree(work, ignore_errors=True)
    return out


# ------------------------------------------------------------------------------------------------
def env_action(rng, consumers, budget):
    """One consumer-side action between scheduler steps."""
    cands = [c for c in consumers if c.can_act()]
    if not cands:
        return
    c = rng.choice(cands)
    if c.paused:
        c.resume()
        return
    if budget[0] <= 0:
        return
    budget[0] -= 1
    x = rng.random()
    if x < 0.6:
        c.pause()
    elif x < 0.85:
        c.stop()
    else:
        c.resume()          # redundant resumeProducing on a hungry producer


def run_scenario(g, cap, data, consts, reads, rng, calm=False):
    """Several reads on ONE fresh node.  reads: list of (off, size)."""
    events = []
    consts = dict(consts, guess=randomize_guess(rng, real_segsize(len(data), consts["k"], consts["maxseg"])))
    node = g.nodemaker.create_from_cap(cap)
    lit = isinstance(node, LiteralFileNode)
    g.policy = random.Random(rng.randrange(1 << 30))
    consumers = []
    pending = list(enumerate(reads))
    budget = [0 if calm else rng.choice([0, 1, 2, 3, 5])]
    steps = 0
    cap_ev = len(reads) * event_cap(data, max(1, min(consts["maxseg"], len(data)))) + 200
    while True:
        # start reads: the first immediately, the others at random moments
        while pending and (not consumers or rng.random() < 0.25):
            i, (off, size) = pending.pop(0)
            sched = {}
            if not calm and not lit and rng.random() < 0.5:
                sched["in"] = {rng.randint(1, 4): rng.choice(["pause", "pause", "stop"])}
            consumers.append(start_read(events, node, "r%d" % i, data, off, size, sched,
                                        eager=(rng.random() < 0.3), lit=lit))
        if not calm and rng.random() < 0.12:
            env_action(rng, consumers, budget)
        progressed = g.step()
        steps += 1
        if steps > 60000 or len(events) > cap_ev:
            break               # never quiescent: the pending reads have no Done event and End is rejected
        if not progressed:
            if pending:
                continue_start = True
                i, (off, size) = pending.pop(0)
                consumers.append(start_read(events, node, "r%d" % i, data, off, size, {}, lit=lit))
                continue
            paused = [c for c in consumers if c.paused and c.can_act()]
            if not paused:
                break
            for c in paused:
                c.resume()
    ns = node_sizes(node)
    if ns:
        events.append(ns)
    events.append({"ev": "End"})
    c2 = dict(consts)
    c2["readers"] = ["r%d" % i for i in range(len(reads))]
    return {"consts": c2, "events": events}


def mode_reads(a, inp):
    rng = random.Random("reads-%d" % a.seed)
    work = tempfile.mkdtemp(prefix="immr")
    out = {"singles": [], "scenarios": [], "uploads": []}
    try:
        for fi, f in enumerate(inp["files"]):
            g, nserv, happy = make_grid(work, dict(f, servers=f.get("servers", 4), happy=1), rng, a.seed)
            consts = {"size": f["size"], "k": f["k"], "N": f["N"], "maxseg": f["maxseg"], "version": 1,
                      "servers": nserv, "happy": happy, "file": fi}
            data = plaintext("c04-%d-%d" % (a.seed, fi), f["size"])
            ev, cap = do_upload(g, data)
            out["uploads"].append({"consts": dict(consts, readers=[]), "events": [ev, {"ev": "End"}]})
            if cap is None:
                g.close()
                continue
            # (a) single reads of the Spec-enumerated (offset,size) classes, batches on one warmed node each
            cls = [c for c in inp["reads"] if c["f"] == fi]
            rng.shuffle(cls)
            cls = cls[:int(inp.get("nsingle", len(cls)))]
            for b0 in range(0, len(cls), 6):
                batch = cls[b0:b0 + 6]
                guess = randomize_guess(rng, real_segsize(len(data), f["k"], f["maxseg"]))
                node = g.nodemaker.create_from_cap(cap)
                lit = isinstance(node, LiteralFileNode)
                g.policy = random.Random(rng.randrange(1 << 30))
                events = []
                obs = []
                for j, c in enumerate(batch):
                    size = None if c["size"] < 0 else c["size"]
                    cons = start_read(events, node, "r%d" % j, data, c["off"], size, lit=lit)
                    if pump(g, events, (j + 1) * event_cap(data, max(1, min(f["maxseg"], len(data))))) < 0:
                        obs.append({"case": c, "nbytes": cons.nbytes, "nwrites": cons.nwrites, "finished": cons.finished})
                        break
                    obs.append({"case": c, "nbytes": cons.nbytes, "nwrites": cons.nwrites, "finished": cons.finished})
                events.append({"ev": "End"})
                out["singles"].append({"trace": {"consts": dict(consts, guess=guess, readers=["r%d" % j for j in range(len(batch))]),
                                                 "events": events}, "obs": obs})
            # (b) concurrent scenarios
            for s in range(int(inp.get("nscen", 0))):
                nr = rng.choice([2, 2, 3, 3, 4])
                reads = []
                for _ in range(nr):
                    c = rng.choice([c for c in inp["reads"] if c["f"] == fi])
                    reads.append((c["off"], None if c["size"] < 0 else c["size"]))
                out["scenarios"].append(run_scenario(g, cap, data, consts, reads, rng, calm=(s % 7 == 0)))
            g.close()
            shutil.rmtree(g.basedir, ignore_errors=True)
    finally:
        shutil.rmtree(work, ignore_errors=True)
    return out


# ------------------------------------------------------------------------------------------------
class ChunkyUploadable(upload.FileHandle):
    """IUploadable whose read() returns the requested bytes as a list of arbitrarily sized chunks."""

    def __init__(self, data, convergence, pattern):
        upload.FileHandle.__init__(self, BytesIO(data), convergence)
        self.pattern = pattern or [1]
        self.i = 0

    def read(self, length):
        b = self._filehandle.read(length)
        out = []
        p = 0
        while p < len(b):
            n = self.pattern[self.i % len(self.pattern)]
            self.i += 1
            out.append(b[p:p + n])
            p += n
        return defer.succeed(out)


def make_uploadable(u, data, work):
    secret = None if u["secret"] == "none" else (b"" if u["secret"] == "empty" else ("secret-" + u["secret"]).encode())
    src = u["source"]
    if src == "Data":
        return upload.Data(data, convergence=secret)
    if src == "FileHandle":
        return upload.FileHandle(BytesIO(data), convergence=secret)
    if src == "FileName":
        fd, path = tempfile.mkstemp(dir=work)
        with os.fdopen(fd, "wb") as f:
            f.write(data)
        return upload.FileName(path, convergence=secret)
    if src == "Chunky":
        return ChunkyUploadable(data, secret, u.get("pattern") or [1, 2, 3])
    raise ValueError(src)


def run_one_upload(g, u, work, before_upload=None):
    data = plaintext("c05-%s" % u["cid"], u["size"], u.get("variant", ""))
    g.params["k"], g.params["n"], g.params["happy"], g.params["max_segment_size"] = u["k"], u["N"], 1, u["maxseg"]
    if before_upload is not None:
        before_upload()          # what the client did before this upload (the cap must not depend on it)
    old_chunk = upload.EncryptAnUploadable.CHUNKSIZE
    upload.EncryptAnUploadable.CHUNKSIZE = u.get("encchunk") or old_chunk
    c0 = len(g.calllog)
    faulted = [False]
    old_policy = g.policy
    from allmydata.immutable import layout as _layout
    old_init = _layout.WriteBucketProxy.__init__
    if u.get("fault"):
        # forget earlier uploads of the same data: this upload has to push its shares itself
        for srv in g.servers.values():
            sd = srv.ss.sharedir
            for pfx in os.listdir(sd):
                if pfx != "incoming":
                    shutil.rmtree(os.path.join(sd, pfx), ignore_errors=True)
        # small write batches, so that share data is flushed while blocks are still being produced, and one
        # bucket write (not the first of the upload) fails: the upload goes on with the other shares
        def _init(self, *a2, **kw2):
            kw2.setdefault("batch_size", 13)
            old_init(self, *a2, **kw2)
        _layout.WriteBucketProxy.__init__ = _init
        seen = [0]

        def pol(grid):
            if not grid.pending:
                return ("timer",)
            p0 = grid.pending[0]
            if p0.methname == "write" and not faulted[0]:
                seen[0] += 1
                # the first N writes are the share headers; fail a block write of the first or second segment
                if seen[0] >= u["N"] + 2 + (u["size"] % max(1, u["N"])):
                    faulted[0] = True
                    return ("call", 0, "raise")
            return ("call", 0, None)
        g.policy = pol
    try:
        up = make_uploadable(u, data, work)
        res = g.run(g.uploader.upload(up))
        cap = res.get_uri()
        parsed = uri.from_string(cap)
        o = {"outcome": "ok", "cap": cap.decode("ascii"), "calls": len(g.calllog) - c0, "faulted": faulted[0]}
        if isinstance(parsed, uri.LiteralFileURI):
            o.update(kind="LIT", embeds=(parsed.data == data), si="", key="")
        else:
            o.update(kind="CHK", si=parsed.get_storage_index().hex(), key=parsed.key.hex(),
                     k=parsed.needed_shares, N=parsed.total_shares, size=parsed.size)
        return o
    except Exception as e:
        return {"outcome": "error", "what": "%s: %s" % (type(e).__name__, str(e)[:300])}
    finally:
        upload.EncryptAnUploadable.CHUNKSIZE = old_chunk
        _layout.WriteBucketProxy.__init__ = old_init
        g.policy = old_policy


def mode_converge(a, inp):
    work = tempfile.mkdtemp(prefix="immc")
    out = []
    try:
        g = Grid(os.path.join(work, "grid"), num_servers=4, k=1, n=1, happy=1, max_segment_size=128 * 1024, seed=a.seed)
        first = {}   # the base upload of a family of pairs is executed once (except where re-execution is the point)
        # a mutable file and a directory that ANOTHER client published with other encoding parameters (3-of-5): every fifth
        # second upload of a pair is preceded by this client reading one of them through a fresh node
        from allmydata.mutable.publish import MutableData
        nhist = [0]

        foreign = {}

        def make_foreign():
            saved = dict(g.params)
            g.params["k"], g.params["n"] = 3, 5
            try:
                foreign_nm = g.make_nodemaker()
                for what in ("file", "dir"):
                    for _try in range(40):      # (the harness's key pool is finite: a key whose slot still exists is skipped)
                        try:
                            if what == "file":
                                foreign[what] = g.run(foreign_nm.create_mutable_file(MutableData(b"published by someone else, 3-of-5"))).get_readonly_uri()
                            else:
                                foreign[what] = g.run(foreign_nm.create_new_mutable_directory()).get_readonly_uri()
                            break
                        except Exception:
                            continue
            finally:
                g.params.clear()
                g.params.update(saved)

        def read_foreign():
            nhist[0] += 1
            what = "file" if nhist[0] % 2 else "dir"
            for attempt_ in range(2):
                if what not in foreign:
                    make_foreign()
                node = g.make_nodemaker().create_from_cap(foreign[what])
                try:
                    g.run(node.list() if hasattr(node, "list") else node.download_best_version())
                    return
                except Exception:           # the shares were wiped by a fault scenario in between: publish them again
                    foreign.clear()
        for pi, pair in enumerate(inp["pairs"]):
            k1 = json.dumps(pair["u1"], sort_keys=True)
            rerun = (pair["u1"] == pair["u2"]) or pair["u1"]["secret"] == "none"
            if rerun or k1 not in first:
                r1 = run_one_upload(g, pair["u1"], work)
                first.setdefault(k1, r1)
            else:
                r1 = first[k1]
            hist = pi % 5 == 3
            r2 = run_one_upload(g, pair["u2"], work, before_upload=read_foreign if hist else None)
            out.append({"pair": pair, "r1": r1, "r2": r2, "history": "read a 3-of-5 mutable object first" if hist else ""})
        g.close()
    finally:
        shutil.rmtree(work, ignore_errors=True)
    return out


def main():
    ap = argparse.ArgumentParser()
    ap.add_argument("--out"); ap.add_argument("--seed", type=int, default=0); ap.add_argument("--tier", default="quick")
    ap.add_argument("--in", dest="inp"); ap.add_argument("--mode", default="layout")
    a = ap.parse_args()
    inp = json.load(open(a.inp)) if a.inp else {}
    res = {"layout": mode_layout, "reads": mode_reads, "converge": mode_converge}[a.mode](a, inp)
    with open(a.out, "w") as f:
        json.dump(res, f)


if __name__ == "__main__":
    main()
