"""Replay behaviours of spec/storage/Crawler.tla (written by SimCrawler.tla) into a
real allmydata.storage.crawler.ShareCrawler subclass working on the share
directory of a real StorageServer, in lock step.

The Spec behaviour is the schedule: where a time slice ends (forced by moving the
interposed `allmydata.storage.crawler.time`), where the process is killed (a
BaseException raised from a hook, the object and its timers dropped) and
restarted (a new object on the same state file), which bucket directories
appear (a real immutable upload) or disappear between slices.  After every step
the driver compares what the real crawler did and holds (hook called with which
bucket / cycle, volatile position, contents of the state file, bucket
directories) with the state the Spec computed for that step; the first
difference ends the behaviour and is returned as a divergence.  The driver
holds no model of the crawler: expected values come from the behaviour file.
"""
import argparse, glob, json, os, random, shutil, struct, sys, tempfile

from vreactor import vr
import allmydata.storage.crawler as crawler_mod
from allmydata.storage.crawler import ShareCrawler
import allmydata.storage.expirer as expirer_mod
from allmydata.storage.expirer import LeaseCheckingCrawler
from allmydata.storage.server import StorageServer
from allmydata.storage.common import si_b2a, storage_index_to_dir


class FakeTime:
    def __init__(self):
        self.now = 1000000.0

    def time(self):
        return self.now


class Killed(BaseException):
    pass


class Divergence(Exception):
    def __init__(self, kind, detail):
        Exception.__init__(self, kind)
        self.kind, self.detail = kind, detail


class LoggingCrawler(ShareCrawler):
    """The subclass the crawler's documentation asks for: hooks only."""
    rp = None

    def started_cycle(self, cycle):
        self.rp.on_started_cycle(self, cycle)

    def process_bucket(self, cycle, prefix, prefixdir, storage_index_b32):
        self.rp.on_process_bucket(self, cycle, prefix, storage_index_b32)

    def finished_prefix(self, cycle, prefix):
        self.rp.on_finished_prefix(self, cycle, prefix)

    def finished_cycle(self, cycle):
        self.rp.on_finished_cycle(self, cycle)


class LoggingLeaseCrawler(LeaseCheckingCrawler):
    """The crawler every storage server runs: LeaseCheckingCrawler (expiration disabled), its own hooks left in place --
    the state it keeps for a cycle in progress goes through the same state file and must survive the same schedules."""
    rp = None

    def started_cycle(self, cycle):
        LeaseCheckingCrawler.started_cycle(self, cycle)
        self.rp.on_started_cycle(self, cycle)

    def process_bucket(self, cycle, prefix, prefixdir, storage_index_b32):
        self.rp.entry(self, "process_bucket")
        LeaseCheckingCrawler.process_bucket(self, cycle, prefix, prefixdir, storage_index_b32)
        self.rp.on_process_bucket(self, cycle, prefix, storage_index_b32)

    def finished_prefix(self, cycle, prefix):
        self.rp.on_finished_prefix(self, cycle, prefix)

    def finished_cycle(self, cycle):
        LeaseCheckingCrawler.finished_cycle(self, cycle)
        self.rp.on_finished_cycle(self, cycle)


class Replay:
    kind = "plain"

    def __init__(self, beh, workdir, rng, np_):
        self.steps = beh["steps"]
        self.disk0 = beh["disk0"]
        self.i = 0                     # next step to consume
        self.rng = rng
        self.dir = tempfile.mkdtemp(prefix="crawl", dir=workdir)
        self.ft = FakeTime()
        crawler_mod.time = self.ft
        expirer_mod.time = self.ft
        self.ss = StorageServer(self.dir, b"\x07" * 20, clock=vr)
        self.statefile = os.path.join(self.dir, "verif_crawler.state")
        self.all_prefixes = None
        self.np = np_
        self.crawler = None
        self.last_saved = None
        self.saves = 0
        self.log = []                  # what the real crawler did (for samples / replay artefacts)
        self.started = None
        # concrete names: NP of the 1024 prefixes (seeded; the first and the last prefix are favoured),
        # three storage indexes per prefix in sorted order
        cands = list(range(1024))
        pick = set()
        if rng.random() < 0.4:
            pick.add(0)
        if rng.random() < 0.4:
            pick.add(1023)
        while len(pick) < np_:
            pick.add(rng.choice(cands))
        self.pidx = sorted(pick)               # positions (in the crawler's sorted prefix list) of abstract prefixes 1..NP
        bits_of = {si_b2a(struct.pack(">H", i << 6))[:2].decode("ascii"): i for i in range(1024)}
        names = sorted(bits_of)                # = ShareCrawler.prefixes (checked in new_crawler)
        self.names = names
        self.index_of = {n: i for i, n in enumerate(names)}
        self.pset = set(self.pidx)
        self.si = {}                           # abstract bucket -> storage index (bytes)
        for p, ci in enumerate(self.pidx, 1):
            bits = bits_of[names[ci]]
            sis = set()
            while len(sis) < 3:
                sis.add(struct.pack(">H", (bits << 6) | rng.randrange(64)) + bytes(rng.randrange(256) for _ in range(14)))
            for k, s in enumerate(sorted(sis, key=lambda x: si_b2a(x)), 1):
                self.si[10 * p + k] = s
        self.b32 = {b: si_b2a(s).decode("ascii") for b, s in self.si.items()}
        self.abs_of = {v: k for k, v in self.b32.items()}

    # ---------------- real-side helpers ----------------
    def add_bucket(self, b):
        si = self.si[b]
        already, writers = self.ss.allocate_buckets(si, bytes([b]) * 32, bytes([b + 100]) * 32, {0}, 5)
        assert 0 in writers, "upload refused"
        writers[0].write(0, b"share")
        writers[0].close()

    def remove_bucket(self, b):
        shutil.rmtree(os.path.join(self.ss.sharedir, storage_index_to_dir(self.si[b])))

    def new_crawler(self):
        if self.kind == "lease":
            c = LoggingLeaseCrawler(self.ss, self.statefile, self.statefile + ".history", False, "age", None, None, ("mutable", "immutable"))
        else:
            c = LoggingCrawler(self.ss, self.statefile)
        c.rp = self
        self.all_prefixes = c.prefixes
        assert list(c.prefixes) == self.names
        self.pname = [c.prefixes[i] for i in self.pidx]
        ser = c._state_serializer
        orig_save = ser.save

        def save(data):
            r = orig_save(data)
            self.on_save(c)
            return r
        ser.save = save
        c.startService()
        self.crawler = c

    def kill(self):
        self.crawler = None
        for dc in vr.getDelayedCalls():
            dc.cancel()

    # ---------------- abstraction of the real state ----------------
    def nmapped_upto(self, concrete_index):
        return len([x for x in self.pidx if x <= concrete_index])

    def abs_bucket(self, name):
        if name is None:
            return 0
        return self.abs_of.get(name, -99)

    def real_V(self, c, lcpi_shift=0):
        st = c.state
        return {"lcf": -1 if st["last-cycle-finished"] is None else st["last-cycle-finished"],
                "cur": -1 if st["current-cycle"] is None else st["current-cycle"],
                "lcpi": self.nmapped_upto(c.last_complete_prefix_index - lcpi_shift),
                "lcb": self.abs_bucket(st["last-complete-bucket"])}

    def real_saved(self):
        p = self.statefile + ".json" if not self.statefile.endswith(".json") else self.statefile
        if not os.path.exists(p):
            return {"lcf": -1, "cur": -1, "lcp": 0, "lcb": 0}
        with open(p, "rb") as f:
            st = json.load(f)
        lcp = st["last-complete-prefix"]
        return {"lcf": -1 if st["last-cycle-finished"] is None else st["last-cycle-finished"],
                "cur": -1 if st["current-cycle"] is None else st["current-cycle"],
                "lcp": 0 if lcp is None else self.nmapped_upto(self.all_prefixes.index(lcp)),
                "lcb": self.abs_bucket(st["last-complete-bucket"])}

    def real_disk(self):
        out = []
        for b, s in self.si.items():
            if os.path.isdir(os.path.join(self.ss.sharedir, storage_index_to_dir(s))):
                out.append(b)
        return sorted(out)

    # ---------------- lock step ----------------
    def spec_state(self, k):
        """Spec state after step k (k = -1: initial state)."""
        if k < 0:
            return {"saved": {"lcf": -1, "cur": -1, "lcp": 0, "lcb": 0}, "pc": "sleep", "disk": self.disk0,
                    "V": {"lcf": -1, "cur": -1, "lcpi": 0, "lcb": 0}}
        return self.steps[k]

    def compare(self, k, c=None, what=("V", "saved", "disk"), lcpi_shift=0, where=""):
        sp = self.spec_state(k)
        if "saved" in what:
            rs = self.real_saved()
            if rs != sp["saved"]:
                raise Divergence("state_file", {"where": where, "after_step": k, "spec": sp["saved"], "real": rs})
        if "disk" in what:
            rd = self.real_disk()
            if rd != sorted(sp["disk"]):
                raise Divergence("disk", {"where": where, "after_step": k, "spec": sorted(sp["disk"]), "real": rd})
        if "V" in what and c is not None and sp["pc"] != "dead":
            rv = self.real_V(c, lcpi_shift)
            if rv != sp["V"]:
                raise Divergence("volatile_state", {"where": where, "after_step": k, "spec": sp["V"], "real": rv})

    def peek(self):
        return self.steps[self.i]["ev"] if self.i < len(self.steps) else None

    def consume(self, a, b=None, cyc=None, where=""):
        ev = self.peek()
        if ev is None:
            raise Killed()      # the behaviour is over: stop the real crawler here
        if ev["a"] != a or (b is not None and ev["b"] != b) or (cyc is not None and ev["c"] != cyc):
            raise Divergence("%s_where_spec_has_%s" % (a, ev["a"]) if ev["a"] != a else "%s_argument" % a,
                             {"where": where, "step": self.i, "spec_event": ev, "real_event": {"a": a, "b": b, "c": cyc}})
        self.i += 1
        self.log.append([a, b, cyc])

    def maybe_kill_or_yield(self):
        ev = self.peek()
        if ev is None:
            raise Killed()
        if ev["a"] == "Kill":
            raise Killed()
        if ev["a"] == "SliceEnd":
            self.ft.now += 2 * ShareCrawler.cpu_slice

    def entry(self, c, where, what=("V", "saved", "disk"), lcpi_shift=0):
        if c is not self.crawler:
            raise Divergence("dead_crawler_runs", {"where": where})
        ev = self.peek()
        if ev is None or ev["a"] == "Kill":
            raise Killed()
        self.compare(self.i - 1, c, what=what, lcpi_shift=lcpi_shift, where=where)

    # hooks of the real crawler
    def on_started_cycle(self, c, cycle):
        self.started = cycle

    def on_process_bucket(self, c, cycle, prefix, name):
        self.entry(c, "process_bucket")
        self.consume("ProcessBucket", self.abs_bucket(name), cycle, "process_bucket(%s)" % name)
        self.maybe_kill_or_yield()

    def on_finished_prefix(self, c, cycle, prefix):
        ci = self.index_of[prefix]
        if c.last_complete_prefix_index != ci:
            raise Divergence("finished_prefix_index", {"prefix": prefix, "index": ci, "lcpi": c.last_complete_prefix_index})
        if ci not in self.pset:
            # an empty prefix outside the abstraction: no Spec step, never interrupted ...
            ev = self.peek()
            if ev is None or ev["a"] == "Kill":
                raise Killed()
            return
        self.entry(c, "finished_prefix", lcpi_shift=1)
        self.consume("FinishPrefix", self.pidx.index(ci) + 1, cycle, "finished_prefix(%s)" % prefix)
        self.maybe_kill_or_yield()

    def on_finished_cycle(self, c, cycle):
        self.entry(c, "finished_cycle", what=("saved", "disk"))
        self.consume("FinishCycle", None, cycle, "finished_cycle")
        self.compare(self.i - 1, c, where="finished_cycle")
        ev = self.peek()
        if ev is None or ev["a"] == "Kill":
            raise Killed()

    def on_save(self, c):
        self.saves += 1
        ev = self.peek()
        last = self.steps[self.i - 1]["ev"]["a"] if self.i > 0 else "Init"
        if ev is not None and ev["a"] in ("SliceEnd", "SaveCycle"):
            self.i += 1
            self.log.append([ev["a"], None, None])
            self.compare(self.i - 1, c, where="save_state")
        elif last in ("SaveCycle",) or ev is None:
            # the second, identical save_state() of start_slice after a finished cycle
            self.compare(self.i - 1, c, what=("saved",), where="second save_state")
        else:
            raise Divergence("unexpected_save_state", {"step": self.i, "spec_event": ev, "real_saved": self.real_saved()})

    def run(self):
        for b in self.disk0:
            self.add_bucket(b)
        self.new_crawler()
        self.compare(-1, self.crawler, where="start")
        try:
            while self.i < len(self.steps):
                ev = self.peek()
                a = ev["a"]
                pc_before = self.spec_state(self.i - 1)["pc"]
                if pc_before in ("run", "finishing"):
                    # the Spec says the crawler is inside a slice but the real one has returned
                    raise Divergence("slice_returned_where_spec_has_%s" % a, {"step": self.i, "spec_event": ev})
                if a == "AddBucket":
                    self.add_bucket(ev["b"]); self.i += 1
                elif a == "RemoveBucket":
                    self.remove_bucket(ev["b"]); self.i += 1
                elif a == "Kill":
                    self.kill(); self.i += 1
                elif a == "Restart":
                    self.new_crawler(); self.i += 1
                    self.compare(self.i - 1, self.crawler, where="restart")
                elif a == "StartSlice":
                    self.i += 1
                    c = self.crawler
                    nt = vr.next_timer()
                    if nt is None:
                        raise Divergence("no_slice_scheduled", {"step": self.i - 1})
                    self.started = None
                    k = self.i - 1
                    try:
                        self.ft.now += nt
                        vr.advance(nt)
                    except Killed:
                        if self.i >= len(self.steps):
                            break
                        if self.peek()["a"] != "Kill":
                            raise Divergence("harness_kill_without_spec_kill", {"step": self.i})
                        self.i += 1
                        self.kill()
                        continue
                    # cycle number announced by started_cycle / held by the object at slice start
                    if self.started is not None and self.started != ev["c"]:
                        raise Divergence("StartSlice_cycle_number", {"step": k, "spec": ev["c"], "real": self.started})
                    if self.i - 1 == k:
                        raise Divergence("slice_did_nothing", {"step": k})
                    self.compare(self.i - 1, c, where="after slice")
                else:
                    raise Divergence("harness_cannot_force_%s" % a, {"step": self.i, "spec_event": ev})
                if a in ("AddBucket", "RemoveBucket", "Kill"):
                    self.compare(self.i - 1, self.crawler, where=a)
        finally:
            for dc in vr.getDelayedCalls():
                dc.cancel()
        return {"ok": True, "steps": self.i, "saves": self.saves}


def main():
    ap = argparse.ArgumentParser()
    ap.add_argument("--out"); ap.add_argument("--seed", type=int, default=0); ap.add_argument("--tier", default="quick")
    ap.add_argument("--in", dest="inp")
    ap.add_argument("--np", type=int, default=3)
    a = ap.parse_args()
    spec = json.load(open(a.inp))
    files = sorted(glob.glob(os.path.join(spec["dir"], "*.json")))
    work = tempfile.mkdtemp(prefix="crawlrun")
    results = []
    try:
        for n, f in enumerate(files):
            beh = json.load(open(f))
            rng = random.Random(a.seed * 100003 + n)
            rp = Replay(beh, work, rng, a.np)
            # every third behaviour is forced on the lease checker (the crawler every server runs) instead of the bare subclass
            rp.kind = "lease" if n % 3 == 2 else "plain"
            try:
                r = rp.run()
            except Divergence as d:
                r = {"ok": False, "kind": d.kind, "detail": d.detail, "steps": rp.i}
            except Killed:
                raise
            except Exception as e:      # the Spec has no failing step: an exception out of a slice is the observation
                import traceback
                r = {"ok": False, "kind": "exception_%s_%s" % (rp.kind, type(e).__name__), "steps": rp.i,
                     "detail": {"crawler": rp.kind, "error": str(e)[:300], "where": traceback.format_exc().strip().splitlines()[-4:]}}
            r["crawler"] = rp.kind
            r["file"] = os.path.basename(f)
            r["prefixes"] = rp.pidx
            r["log"] = rp.log if (n < 3 or not r["ok"]) else []
            r["actions"] = [s["ev"]["a"] for s in beh["steps"][:rp.i]]
            r["keys"] = [[s["ev"]["a"], json.dumps(s["V"], sort_keys=True), json.dumps(s["saved"], sort_keys=True), s["pc"], str(sorted(s["disk"]))]
                         for s in beh["steps"][:rp.i]] if spec.get("want_keys") else []
            if not r["ok"]:
                r["behaviour"] = beh
            results.append(r)
            shutil.rmtree(rp.dir, ignore_errors=True)
    finally:
        shutil.rmtree(work, ignore_errors=True)
    json.dump(results, open(a.out, "w"))


if __name__ == "__main__":
    main()
