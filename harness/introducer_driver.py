"""Drive a real allmydata IntroducerClient with seeded streams of announcement
batches (genuine, replayed, reordered, forged, malformed, seqnum-less and
non-integer-seqnum items, real ed25519 signatures) and record one event per
call for TraceIntroducer.tla:

  Batch      items (abstracted as in Introducer.tla), the deliveries the
             subscribers received in order, _inbound_announcements read back,
             and -- for diagnosis only -- the exception that escaped, if any
  Subscribe  a new subscriber and what it was told immediately

Profiles: "clean" never sends an item that makes the unchanged code raise out of
the batch loop (no undecodable encodings; a string seqnum is only sent to an index
whose stored seqnum is known to be an integer, or from the key that never sends
integers); "hostile" sends everything.
"""
from vreactor import vr  # noqa: F401  (must be first)
import argparse, json, os, random, shutil, tempfile

from twisted.python.filepath import FilePath
from allmydata.crypto import ed25519
from allmydata.util import base32
from allmydata.introducer.common import sign_to_foolscap
from allmydata.introducer import client as ic_mod
from allmydata.introducer.client import IntroducerClient

SERVICES = ["storage", "stub_client", "other"]
BODIES = ["a", "b", "c"]
FURL = "pb://62ubehyunnyhzs7r6vdonnm2hpi52w6y@tcp:127.0.0.1:1/swissnum"


class StubTub:
    def connectTo(self, *a, **kw):
        raise RuntimeError("not used")

    def getReference(self, *a, **kw):
        raise RuntimeError("not used")


def keypair(rng):
    raw = bytes(rng.getrandbits(8) for _ in range(32))
    sk, vk = ed25519.signing_keypair_from_string(b"priv-v0-" + base32.b2a(raw))
    key_s = ed25519.string_from_verifying_key(vk)[len(b"pub-"):]
    return sk, key_s


def abs_seq(ann):
    if "seqnum" not in ann:
        return {"k": "none", "n": 0}
    v = ann["seqnum"]
    if isinstance(v, int) and not isinstance(v, bool):
        return {"k": "int", "n": v}
    return {"k": "nonint", "n": 0}


def flip(b, pos, bit=1):
    b = bytearray(b)
    b[pos % len(b)] ^= bit
    return bytes(b)


class Counter:
    """Counts the items the batch loop has started on (wrapper around the
    function the loop calls first for every item); only used to say *which* item
    an escaping exception belongs to."""
    def __init__(self, orig):
        self.orig = orig
        self.n = 0

    def __call__(self, ann_t):
        self.n += 1
        return self.orig(ann_t)


class Scenario:
    def __init__(self, rng, workdir, profile, nevents):
        self.rng = rng
        self.profile = profile
        self.nkeys = rng.choice([2, 3, 3])
        self.keys = {}
        self.by_key_s = {}
        for i in range(self.nkeys):
            sk, key_s = keypair(rng)
            self.keys["k%d" % (i + 1)] = (sk, key_s)
            self.by_key_s[key_s] = "k%d" % (i + 1)
        self.noint_key = "k%d" % self.nkeys if rng.random() < 0.7 else None   # a key that never uses integer seqnums
        self.dir = tempfile.mkdtemp(prefix="ic", dir=workdir)
        self.client = IntroducerClient(StubTub(), "pb://fake@tcp:localhost:1/introducer", u"nick", "ver", "oldest",
                                       lambda: (1, "nonce"), FilePath(os.path.join(self.dir, "cache.yaml")))
        self.deliveries = []
        self.subs = []
        self.subs0 = ["storage"] if rng.random() < 0.5 else ["storage", "stub_client"]
        for svc in self.subs0:
            self._subscribe(svc)
        # in every other scenario the node's real StorageFarmBroker listens as well (use_introducer): what it does with the
        # announcements it is handed (it keeps them, compares old and new ones) must not disturb the client's rule
        self.broker = None
        if rng.random() < 0.5:
            self.attach_broker()
        self.deliveries = []
        self.sent = []          # genuine tuples sent so far (for replays): (abstract item, tuple)
        self.hi = {}            # (svc, key) -> highest integer seqnum used so far by the generator
        self.first_kind = {}    # (svc, key) -> seq kind of the first verifying item sent while svc was subscribed
        self.events = []
        self.nevents = nevents

    def attach_broker(self):
        from twisted.application import service
        from allmydata.storage_client import StorageFarmBroker, StorageClientConfig
        from allmydata.node import config_from_string
        from allmydata import client as client_mod

        class BrokerTub(service.MultiService):
            def connectTo(self, *a, **kw):
                class R:
                    def stopConnecting(self_):
                        pass
                return R()

        config = config_from_string(self.dir, "client.port", "[node]\nnickname = x\n[client]\n", _valid_config=client_mod._valid_config())
        self.broker = StorageFarmBroker(True, lambda h=None: BrokerTub(), config, StorageClientConfig())
        self.broker.use_introducer(self.client)
        self.broker_errors = []

    def _subscribe(self, svc):
        def cb(key_s, ann, svc=svc):
            self.deliveries.append({"svc": str(ann["service-name"]), "key": self.by_key_s.get(key_s, "unknown"),
                                    "seq": abs_seq(ann), "body": str(ann.get("nickname", "?")), "cb": svc})
        self.client.subscribe_to(svc, cb)
        self.subs.append(svc)

    # ---- generation -------------------------------------------------------
    def gen_seq(self, svc, key):
        r = self.rng.random()
        hi = self.hi.get((svc, key), -1)
        if key == self.noint_key:
            return "none" if r < 0.5 else "nonint"
        if r < 0.12:
            return "none"
        if r < 0.24:
            # clean profile: a string seqnum only goes to an index whose stored seqnum is an integer for sure
            # (it is then refused); stored as the first entry it would make the unchanged code raise TypeError
            # on the next integer (int <= str)
            if self.profile == "hostile" or self.first_kind.get((svc, key)) == "int":
                return "nonint"
            return "none"
        if r < 0.62:
            return hi + 1
        if r < 0.74:
            return hi + self.rng.randint(2, 3)
        if r < 0.86:
            return max(hi, 0)
        return self.rng.randint(0, max(hi, 0))

    def make_ann(self, svc, seq, body, mention):
        ann = {"service-name": svc, "nickname": body, "nonce": "x", "version": 0, "my-version": "v",
               "serverid": mention}      # a key named *inside* the message must not be used for attribution
        # the message is a function of (svc, key, seq, body): equal abstract items are equal announcements
        if body in ("a", "x"):
            ann["anonymous-storage-FURL"] = FURL
        if seq == "nonint":
            ann["seqnum"] = "seven"
        elif seq != "none":
            ann["seqnum"] = seq
        return ann

    def gen_item(self):
        rng = self.rng
        r = rng.random()
        if self.sent and r < 0.15:
            a, t = rng.choice(self.sent)      # exact replay of an earlier genuine item
            a = dict(a, cls="good", how="replay")
            self.note(a)
            return a, t
        svc = rng.choices(SERVICES, weights=[6, 3, 1])[0]
        key = rng.choice(sorted(self.keys))
        others = [k for k in sorted(self.keys) if k != key]
        seq = self.gen_seq(svc, key)
        body = rng.choice(BODIES)
        mention = self.keys[others[0]][1].decode("ascii")
        ann = self.make_ann(svc, seq, body, mention)
        a = {"svc": svc, "key": key, "origin": key, "wellformed": True, "seq": abs_seq(ann), "body": body,
             "cls": "good", "how": "fresh"}
        sk, key_s = self.keys[key]
        msg, sig, claimed = sign_to_foolscap(ann, sk)
        r = rng.random()
        pm = 0.10 if self.profile == "hostile" else 0.0
        if r < 0.62 - pm:
            self.sent.append((dict(a), (msg, sig, claimed)))
            self.note(a)
            return a, (msg, sig, claimed)
        if r < 0.76 - pm:
            # tampered: message changed after signing, or signature bytes flipped (still decodable)
            how = rng.choice(["msg", "sig", "body", "garbage", "nonobject", "notutf8"])
            if how in ("garbage", "nonobject", "notutf8"):
                # a forged item whose (unauthenticated) message is not even a JSON object: the signature does not
                # verify, so nothing about the message may matter - least of all stop the batch
                msg = {"garbage": b"\x00{{not json", "nonobject": b'["storage", 5]', "notutf8": b"\xff\xfe{}"}[how]
                a["body"] = "x"
            elif how == "sig":
                raw = base32.a2b(sig[3:])
                sig = b"v0-" + base32.b2a(flip(raw, rng.randrange(64), 1 << rng.randrange(8)))
            elif how == "msg":
                msg = msg + b" "
            else:
                body2 = "x"
                ann2 = dict(ann, nickname=body2)
                msg = json.dumps(ann2).encode("utf-8")
                a["body"] = body2
            a.update(origin="none", cls="bad", how=how)
            return a, (msg, sig, claimed)
        if r < 0.90 - pm or r < 0.90 and self.profile != "hostile":
            # signed by another key, claimed for this one
            o = rng.choice(others)
            msg, sig, _ = sign_to_foolscap(ann, self.keys[o][0])
            a.update(origin=o, cls="wrongkey", how="other-signer")
            return a, (msg, sig, claimed)
        if self.profile != "hostile":
            self.sent.append((dict(a), (msg, sig, claimed)))
            self.note(a)
            return a, (msg, sig, claimed)
        how = rng.choice(["nosigprefix", "emptysig", "nokeyprefix", "badb32sig", "badb32key", "shortkey", "shortsig", "nonesig"])
        if how == "nosigprefix":
            sig = sig[3:]
        elif how == "emptysig":
            sig = b""
        elif how == "nonesig":
            sig = None
        elif how == "nokeyprefix":
            claimed = claimed[3:]
        elif how == "badb32sig":
            sig = b"v0-!" + sig[4:]
        elif how == "badb32key":
            claimed = b"v0-!" + claimed[4:]
        elif how == "shortkey":
            claimed = claimed[:-8]
        elif how == "shortsig":
            sig = sig[:-8]
        a.update(origin="none", wellformed=False, cls="malformed", how=how)
        return a, (msg, sig, claimed)

    def note(self, a):
        """generator bookkeeping for a verifying item (what was *sent*, not what the client did with it)"""
        idx = (a["svc"], a["key"])
        if a["seq"]["k"] == "int":
            self.hi[idx] = max(self.hi.get(idx, -1), a["seq"]["n"])

    def commit(self, items):
        """after a batch, in the order sent: remember the seqnum kind of the first verifying item per index"""
        for a in items:
            idx = (a["svc"], a["key"])
            if a["cls"] == "good" and a["svc"] in self.subs and idx not in self.first_kind:
                self.first_kind[idx] = a["seq"]["k"]

    # ---- observation ------------------------------------------------------
    def read_store(self):
        """the announcements the client holds, read from where they are visible without looking inside the object: its
        announcement cache file (rewritten whenever an announcement is accepted; what a restart starts from)"""
        cache = []
        cp = os.path.join(self.dir, "cache.yaml")
        if os.path.exists(cp):
            from allmydata.util import yamlutil
            with open(cp) as f:
                for sp in (yamlutil.safe_load(f) or []):
                    ann = sp["ann"]
                    cache.append({"svc": str(ann["service-name"]), "key": self.by_key_s.get(sp["key_s"].encode("ascii"), "unknown"),
                                  "seq": abs_seq(ann), "body": str(ann.get("nickname", "?"))})
        return sorted(cache, key=lambda e: (e["svc"], e["key"]))
    restarted = False
    last_cache = []

    def run(self):
        rng = self.rng
        for _ in range(self.nevents):
            unsub = [s for s in SERVICES if s not in self.subs]
            if unsub and rng.random() < 0.06:
                svc = rng.choice(unsub)
                self.deliveries = []
                self._subscribe(svc)
                self.events.append({"ev": "Subscribe", "svc": svc, "out": [{k: v for k, v in d.items() if k != "cb"} for d in self.deliveries]})
                continue
            if rng.random() < 0.07 and self.events and not getattr(self, "cachefault", False):
                # the node restarts while the introducer is unreachable: a new client object on the same cache file, the same
                # subscriptions, and what IntroducerClient does when its connection attempt fails (connect_failed): the cached
                # announcements are used.  They are the stored announcements from now on.
                self.client = IntroducerClient(StubTub(), "pb://fake@tcp:localhost:1/introducer", u"nick", "ver", "oldest",
                                               lambda: (1, "nonce"), FilePath(os.path.join(self.dir, "cache.yaml")))
                subs, self.subs = list(self.subs), []
                self.deliveries = []
                for svc in subs:
                    self._subscribe(svc)
                if self.broker is not None:
                    self.attach_broker()
                self.client._load_announcements()
                self.restarted = True
                self.events.append({"ev": "Restart", "out": [{k: v for k, v in d.items() if k != "cb"} for d in self.deliveries],
                                    "store": self.read_store()})
                continue
            if rng.random() < 0.06:
                # a second, late subscriber of an already subscribed service: told the stored entries, then muted
                svc = rng.choice(self.subs)
                got = []

                def cb(key_s, ann, got=got):
                    if got is not None and not got_closed[0]:
                        got.append({"svc": str(ann["service-name"]), "key": self.by_key_s.get(key_s, "unknown"),
                                    "seq": abs_seq(ann), "body": str(ann.get("nickname", "?"))})
                got_closed = [False]
                self.client.subscribe_to(svc, cb)
                got_closed[0] = True
                self.events.append({"ev": "Subscribe", "svc": svc, "out": list(got)})
                continue
            n = rng.choice([1, 1, 2, 2, 3, 3, 4])
            items, tuples = [], []
            for _i in range(n):
                a, t = self.gen_item()
                items.append(a)
                tuples.append(t)
            if rng.random() < 0.3:
                order = list(range(n))
                rng.shuffle(order)       # reordering inside the batch
                items = [items[i] for i in order]
                tuples = [tuples[i] for i in order]
            self.deliveries = []
            counter = Counter(ic_mod.unsign_from_foolscap.orig if isinstance(ic_mod.unsign_from_foolscap, Counter) else ic_mod.unsign_from_foolscap)
            ic_mod.unsign_from_foolscap = counter
            raised = {"exc": "", "at": 0}
            # in a "cachefault" history the announcement cache cannot be written while some batches arrive (its directory is
            # gone: full disk, read-only or missing private/): what the client knows and tells its subscribers is the same
            # as ever; the cache file is not looked at from the first such batch on (and the node is not restarted)
            broken = getattr(self, "cachefault", False) and rng.random() < 0.35
            if broken:
                os.rename(self.dir, self.dir + ".off")
                self.cache_unreliable = True
            try:
                self.client.remote_announce_v2(tuples)
            except Exception as e:       # noqa: BLE001 - recorded, judged by the Spec through its consequences
                raised = {"exc": type(e).__name__, "at": counter.n}
            finally:
                ic_mod.unsign_from_foolscap = counter.orig
                if broken:
                    if os.path.exists(self.dir):          # (something re-created it meanwhile)
                        shutil.rmtree(self.dir, ignore_errors=True)
                    os.rename(self.dir + ".off", self.dir)
            self.commit(items)
            nostore = getattr(self, "cache_unreliable", False)
            self.events.append({"ev": "Batch", "items": items,
                                "out": [{k: v for k, v in d.items() if k != "cb"} for d in self.deliveries],
                                "store": [] if nostore else self.read_store(), "raised": raised, "nostore": nostore, "cachewrite": "fails" if broken else "ok"})

    def trace(self):
        return {"consts": {"services": SERVICES, "keys": sorted(self.keys) + ["unknown", "mismatch"], "subs0": self.subs0,
                           "profile": self.profile},
                "events": self.events}

    def close(self):
        shutil.rmtree(self.dir, ignore_errors=True)


def main():
    ap = argparse.ArgumentParser()
    ap.add_argument("--out")
    ap.add_argument("--seed", type=int, default=0)
    ap.add_argument("--tier", default="quick")
    ap.add_argument("--in", dest="inp")
    ap.add_argument("--profile", default="clean")
    ap.add_argument("--n", type=int, default=50)
    ap.add_argument("--events", type=int, default=12)
    a = ap.parse_args()
    traces = []
    for i in range(a.n):
        rng = random.Random("C34/%s/%d/%d" % (a.profile, a.seed, i))
        sc = Scenario(rng, os.getcwd(), a.profile, a.events)
        sc.cachefault = (i % 4 == 3)
        try:
            sc.run()
            traces.append(sc.trace())
        finally:
            sc.close()
    with open(a.out, "w") as f:
        json.dump(traces, f)


if __name__ == "__main__":
    main()
