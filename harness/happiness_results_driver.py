"""C08, call sites: the happiness value reported in *check results* (immutable Checker, immutable
check-and-repair post-results, mutable checker) must be the maximum matching of the share map reported in
the same result.  Real files on harness/grid.py; share files are copied between servers to build layouts
(duplicated share numbers, several shares per server, missing shares).  Output: traces for
spec/immutable/TraceHappiness.tla (consts.adj = server -> shares as reported, one Happiness event)."""
import argparse, json, os, random, shutil

from vreactor import vr
from grid import Grid
from allmydata.immutable import upload
from allmydata.monitor import Monitor
from allmydata.mutable.publish import MutableData
from allmydata.storage.common import storage_index_to_dir


def share_paths(g, si):
    out = {}
    for name, d in g.shares(si).items():
        for sh, p in d.items():
            out[(name, sh)] = p
    return out


def relayout(g, si, rng, blobs, nshares):
    """place copies of the shares: each server gets a random (often single, often duplicated) set"""
    for name, s in g.servers.items():
        d = os.path.join(s.ss.sharedir, storage_index_to_dir(si))
        shutil.rmtree(d, ignore_errors=True)
    names = sorted(g.servers)
    style = rng.choice(["one_each_dups", "one_each_dups", "random", "sparse"])
    for name in names:
        if style == "one_each_dups":
            shs = [rng.randrange(nshares)] if rng.random() < 0.85 else []
        elif style == "sparse":
            shs = rng.sample(range(nshares), rng.choice([0, 0, 1, 2]))
        else:
            shs = rng.sample(range(nshares), rng.randint(0, min(3, nshares)))
        for sh in shs:
            d = os.path.join(g.servers[name].ss.sharedir, storage_index_to_dir(si))
            os.makedirs(d, exist_ok=True)
            with open(os.path.join(d, str(sh)), "wb") as f:
                f.write(blobs[sh])


def result_trace(g, cr, kind):
    sm = cr.get_sharemap()
    adj = {}
    for sh, servers in sm.items():
        for s in servers:
            adj.setdefault(s.get_nickname() if hasattr(s, "get_nickname") else str(s), []).append("h%s" % (sh,))
    adj = {k: sorted(set(v)) for k, v in adj.items()}
    if not adj:
        adj = {"none": []}
    return {"consts": {"adj": adj, "site": kind}, "events": [{"ev": "Happiness", "got": int(cr.get_happiness()), "err": "", "how": kind}]}


def main():
    ap = argparse.ArgumentParser()
    ap.add_argument("--out"); ap.add_argument("--seed", type=int, default=0); ap.add_argument("--tier", default="quick")
    ap.add_argument("--in", dest="inp"); ap.add_argument("--n", type=int, default=40)
    a = ap.parse_args()
    rng = random.Random("c08results-%d" % a.seed)
    traces = []
    for i in range(a.n):
        k, n = rng.choice([(1, 3), (2, 4), (3, 6), (2, 5)])
        ns = rng.randint(n, n + 4)
        g = Grid(num_servers=ns, k=k, n=n, happy=1, max_segment_size=64, seed=a.seed * 1000 + i)
        try:
            if i % 3 == 2:
                node = g.run(g.nodemaker.create_mutable_file(MutableData(b"mutable contents %d" % i)))
                si = node.get_storage_index()
                kind = "mutable_check"
            else:
                data = bytes((i * 7 + j) % 251 for j in range(rng.choice([100, 300, 700])))
                res = g.run(g.uploader.upload(upload.Data(data, convergence=b"c08")))
                node = g.nodemaker.create_from_cap(res.get_uri())
                si = node.get_storage_index()
                kind = "immutable_check"
            blobs = {}
            for (name, sh), p in share_paths(g, si).items():
                with open(p, "rb") as f:
                    blobs[sh] = f.read()
            if len(blobs) < n:
                continue
            for rep in range(3):
                relayout(g, si, rng, blobs, n)
                verify = rng.random() < 0.4
                try:
                    cr = g.run(node.check(Monitor(), verify=verify))
                except Exception as e:
                    continue
                traces.append(result_trace(g, cr, kind + ("_verify" if verify else "")))
                if kind.startswith("immutable") and rng.random() < 0.3:
                    try:
                        crr = g.run(node.check_and_repair(Monitor(), verify=False))
                        traces.append(result_trace(g, crr.get_pre_repair_results(), "immutable_pre_repair"))
                        traces.append(result_trace(g, crr.get_post_repair_results(), "immutable_post_repair"))
                    except Exception:
                        pass
        finally:
            g.close()
    with open(a.out, "w") as f:
        json.dump(traces, f)


if __name__ == "__main__":
    main()
