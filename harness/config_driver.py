"""Replay Spec-generated configuration values (spec/util/ConfigParse.tla) into the
real parsers and into the real configuration reading of the storage client.

For every text:
  direct : allmydata.util.time_format.parse_duration / parse_date,
           allmydata.util.abbreviate.parse_abbreviated_size
  config : a tahoe.cfg containing the value is loaded with node.config_from_string and read by the
           real _Client.get_anonymous_storage_server (bound to a bare _Client object; the
           StorageServer class is replaced by a recorder of its keyword arguments), once per setting:
           [storage]reserved_space, expire.override_lease_duration (mode age), expire.cutoff_date
           (mode cutoff-date).
Results are reported as {"v": value} or {"err": exception type}; nothing is judged here.
Also reported (evidence only): what `tahoe create-node` writes for reserved_space and how it reads
back; abbreviate_space output of sample sizes fed to parse_abbreviated_size; non-ASCII probes.
"""
import argparse, io, json, random, sys

from vreactor import vr  # noqa: F401  (virtual reactor before any allmydata import)
from allmydata.util import time_format, abbreviate
from allmydata import client as client_mod
from allmydata import node as node_mod
from allmydata.scripts import create_node


class Recorder:
    name = "storage"
    last = None

    def __init__(self, storedir, nodeid, **kw):
        Recorder.last = kw

    def setServiceParent(self, parent):
        pass


def attempt(fn, *a):
    try:
        return {"v": fn(*a)}
    except Exception as ex:
        return {"err": type(ex).__name__}


def bare_client(cfgtext):
    config = node_mod.config_from_string("/nonexistent-basedir", "client.port", cfgtext,
                                         _valid_config=client_mod._valid_config())
    c = client_mod._Client.__new__(client_mod._Client)
    c.namedServices = {}
    c.services = []
    c.config = config
    c.get_config = config.get_config
    c.nodeid = b"\x00" * 20
    c.stats_provider = None
    return c


def via_config(lines):
    Recorder.last = None
    text = "[node]\nnickname = x\n[storage]\nenabled = true\n" + "".join(l + "\n" for l in lines)
    try:
        c = bare_client(text)
        c.get_anonymous_storage_server()
    except Exception as ex:
        return {"err": type(ex).__name__}
    return {"v": Recorder.last}


def cfg_value_ok(s):
    # what a single-line `key = value` of an ini file can carry unchanged (apart from outer whitespace)
    return "\n" not in s and "\r" not in s and "%" not in s


def main():
    ap = argparse.ArgumentParser()
    ap.add_argument("--out")
    ap.add_argument("--in", dest="inp")
    ap.add_argument("--seed", type=int, default=0)
    ap.add_argument("--tier", default="quick")
    a = ap.parse_args()
    inp = json.load(open(a.inp))
    client_mod.StorageServer = Recorder
    out = {"cases": [], "notes": {}}
    import os, time
    # the documented meaning (seconds, bytes, midnight UTC) must not depend on the node's local time zone:
    # each text is evaluated under one of several zones, rotating
    zones = ["UTC", "PST8", "XYZ-5:30", "AAA+11", "CET-1CEST"]
    for i, s in enumerate(inp["texts"]):
        os.environ["TZ"] = zones[i % len(zones)]
        time.tzset()
        r = {"txt": s, "tz": os.environ["TZ"],
             "dur": attempt(time_format.parse_duration, s),
             "size": attempt(abbreviate.parse_abbreviated_size, s),
             "date": attempt(time_format.parse_date, s)}
        if cfg_value_ok(s):
            x = via_config(["reserved_space = " + s])
            r["cfg_size"] = {"v": x["v"]["reserved_space"]} if "v" in x else x
            # the expire.* values mean the same whether expiration is switched on or not (with it off the lease checker
            # still reports what the configured policy would reclaim): alternate
            en = "expire.enabled = %s" % ("true" if i % 2 == 0 else "false")
            r["expire_enabled"] = (i % 2 == 0)
            x = via_config([en, "expire.mode = age", "expire.override_lease_duration = " + s])
            r["cfg_dur"] = {"v": x["v"]["expiration_override_lease_duration"]} if "v" in x else x
            x = via_config([en, "expire.mode = cutoff-date", "expire.cutoff_date = " + s])
            r["cfg_date"] = {"v": x["v"]["expiration_cutoff_date"]} if "v" in x else x
        out["cases"].append(r)

    os.environ["TZ"] = "UTC"
    time.tzset()
    # ---- evidence only
    # (1) the value written by `tahoe create-node`
    buf = io.StringIO()
    create_node.write_client_config(buf, {"shares-needed": 3, "shares-happy": 7, "shares-total": 10})
    written = [l.split("=", 1)[1].strip() for l in buf.getvalue().splitlines() if l.startswith("reserved_space")]
    out["notes"]["create_node_reserved_space"] = written
    out["notes"]["create_node_reads_back"] = [via_config(["reserved_space = " + w]).get("v", {}).get("reserved_space") for w in written]
    # (2) printers of the node: exact ("%d", web storage status) and abbreviated (abbreviate_space)
    rng = random.Random(a.seed)
    sizes = [0, 1, 999, 1000, 1023, 1024, 10 ** 6, 2 ** 20, 10 ** 9, 2 ** 30, 10 ** 12, 2 ** 40, 10 ** 15, 10 ** 18] + \
            [rng.randrange(0, 10 ** rng.randint(1, 19)) for i in range(300)]
    exact_ok = abbr_parse = abbr_exact = 0
    abbr_examples = []
    for n in sizes:
        if attempt(abbreviate.parse_abbreviated_size, "%d" % n) == {"v": n}:
            exact_ok += 1
        for si in (True, False):
            p = abbreviate.abbreviate_space(n, SI=si)
            r = attempt(abbreviate.parse_abbreviated_size, p)
            if "v" in r:
                abbr_parse += 1
                if r["v"] == n:
                    abbr_exact += 1
            if len(abbr_examples) < 6:
                abbr_examples.append([n, p, r.get("v", r.get("err"))])
    out["notes"]["printers"] = {"sizes": len(sizes), "exact_decimal_parses_back": exact_ok,
                                "abbreviate_space_outputs": 2 * len(sizes), "abbreviate_space_parsed": abbr_parse,
                                "abbreviate_space_parsed_exactly": abbr_exact, "examples": abbr_examples}
    # (3) non-ASCII spellings: reported, not judged
    probes = ["5 dayſ", "5ſ", "٣days", "5 days", "٣K", "10Kı", "٢٠٠٩-01-16", "10K\n", "5 days\n"]
    out["notes"]["non_ascii_and_newline_probes"] = [[p, attempt(time_format.parse_duration, p), attempt(abbreviate.parse_abbreviated_size, p),
                                                     attempt(time_format.parse_date, p)] for p in probes]
    json.dump(out, open(a.out, "w"))


if __name__ == "__main__":
    main()
