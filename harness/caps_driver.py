"""Driver of the real capability code (allmydata.uri, allmydata.unknown, NodeMaker and the
node classes) for C15, C16 and C43.  It concretises the abstract cases produced by TLC from
spec/caps/*.tla, runs the real functions and reports observations; for C15 it also produces
seeded concrete strings (objects serialised by the real constructors, character-level
mutations, random printable strings) together with their exact abstraction, for the Spec to judge.
"""
import argparse, json, random, sys

from vreactor import vr, settle  # noqa: F401  (must be first: installs the virtual reactor)
from allmydata import uri
from allmydata.interfaces import MustBeDeepImmutableError, MustBeReadonlyError, MustNotBeUnknownRWError
import caps_lib as L

CLASS2KIND = {
    "CHKFileURI": "CHK", "CHKFileVerifierURI": "CHK-Verifier", "LiteralFileURI": "LIT",
    "WriteableSSKFileURI": "SSK", "ReadonlySSKFileURI": "SSK-RO", "SSKVerifierURI": "SSK-Verifier",
    "WriteableMDMFFileURI": "MDMF", "ReadonlyMDMFFileURI": "MDMF-RO", "MDMFVerifierURI": "MDMF-Verifier",
    "DirectoryURI": "DIR2", "ReadonlyDirectoryURI": "DIR2-RO", "DirectoryURIVerifier": "DIR2-Verifier",
    "ImmutableDirectoryURI": "DIR2-CHK", "ImmutableDirectoryURIVerifier": "DIR2-CHK-Verifier",
    "LiteralDirectoryURI": "DIR2-LIT", "MDMFDirectoryURI": "DIR2-MDMF", "ReadonlyMDMFDirectoryURI": "DIR2-MDMF-RO",
    "MDMFDirectoryURIVerifier": "DIR2-MDMF-Verifier", "UnknownURI": "Unknown", "NoneType": "None",
}
KIND2CLASS = {v: getattr(uri, k) for k, v in CLASS2KIND.items() if hasattr(uri, k)}


def kind_of(u):
    return CLASS2KIND.get(type(u).__name__, "?" + type(u).__name__)


def err_class(e):
    if e is None:
        return "none"
    if isinstance(e, uri.BadURIError):
        return "bad"
    if isinstance(e, MustBeDeepImmutableError):
        return "imm"
    if isinstance(e, MustBeReadonlyError):
        return "ro"
    if isinstance(e, MustNotBeUnknownRWError):
        return "unknown_rw"
    return "?" + type(e).__name__


def observe_parse(s, deep):
    try:
        u = uri.from_string(s, deep_immutable=deep)
        o = {"kind": kind_of(u), "out": L.enc(u.to_string())}
        if isinstance(u, uri.UnknownURI):
            o["err"] = err_class(u.get_error())
        else:
            out = u.to_string()
            u2 = uri.from_string(out, deep_immutable=deep)
            why = []
            if type(u2) is not type(u):
                why.append("class %s" % type(u2).__name__)
            else:
                if not (u2 == u):
                    why.append("==")
                if u2 != u:
                    why.append("!=")
                if hash(u2) != hash(u):
                    why.append("hash")
                if u2.to_string() != out:
                    why.append("to_string")
            o["rt"] = not why
            if why:
                o["rt_why"] = ",".join(why)
        return o
    except Exception as e:  # the parser must not raise on any input
        return {"exc": type(e).__name__, "msg": str(e)[:200]}


class Mismatches:
    """All distinct keys with their number of occurrences and the first few examples."""
    def __init__(self, keep=3):
        self.d, self.keep = {}, keep

    def add(self, key, what, example):
        e = self.d.setdefault(key, {"key": key, "what": what, "count": 0, "examples": []})
        e["count"] += 1
        if len(e["examples"]) < self.keep:
            e["examples"].append(example)

    def as_list(self):
        return [self.d[k] for k in sorted(self.d)]


# ----------------------------------------------------------------------------- C15
def rnd_num(rng):
    return rng.choice([0, 1, 3, 10, 255, 256, rng.randrange(1, 300), rng.randrange(0, 2 ** 32), rng.randrange(2 ** 63, 2 ** 65),
                       rng.randrange(2 ** 64, 2 ** 90), 10 ** rng.randrange(1, 30)])


def make_obj(kind, rng):
    """A cap object of the given kind built by the real constructors from seeded random fields."""
    rb = lambda n: bytes(rng.randrange(256) for _ in range(n))
    inner = {"DIR2": "SSK", "DIR2-RO": "SSK-RO", "DIR2-Verifier": "SSK-Verifier", "DIR2-CHK": "CHK",
             "DIR2-CHK-Verifier": "CHK-Verifier", "DIR2-LIT": "LIT", "DIR2-MDMF": "MDMF", "DIR2-MDMF-RO": "MDMF-RO",
             "DIR2-MDMF-Verifier": "MDMF-Verifier"}
    if kind in inner:
        return KIND2CLASS[kind](make_obj(inner[kind], rng))
    if kind in ("CHK", "CHK-Verifier"):
        return KIND2CLASS[kind](rb(16), rb(32), rnd_num(rng), rnd_num(rng), rnd_num(rng))
    if kind == "LIT":
        return uri.LiteralFileURI(rb(rng.choice([0, 1, 2, 3, 4, 5, 6, 7, 8, 9, 20, rng.randrange(0, 60)])))
    return KIND2CLASS[kind](rb(16), rb(32))


PALETTE = b"abcdefghijklmnopqrstuvwxyz234567" * 2 + b"0189" * 3 + b":::" + b"ABCXYZ" + b"!-_=./ \n\n\r\t\x00\xff"
SUFFIXES = [b"\n", b" ", b":", b":junk", b"junk", b"\n\n", b"\r\n", b"=", b"0", b"7", b"a", b":3:131073", b":\n", b"\nx", b"\x00"]


def mutate(s, rng):
    n = rng.choice([1, 1, 1, 2, 3])
    for _ in range(n):
        op = rng.randrange(9)
        pos = rng.randrange(len(s) + 1)
        if op == 0:
            s = s[:pos] + bytes([rng.choice(PALETTE)]) + s[pos:]
        elif op == 1 and s:
            pos = min(pos, len(s) - 1)
            s = s[:pos] + s[pos + 1:]
        elif op == 2 and s:
            pos = min(pos, len(s) - 1)
            s = s[:pos] + bytes([rng.choice(PALETTE)]) + s[pos + 1:]
        elif op == 3:
            s = s + rng.choice(SUFFIXES)
        elif op == 4 and s:
            pos = min(pos, len(s) - 1)
            s = s[:pos] + s[pos:pos + 1].swapcase() + s[pos + 1:]
        elif op == 5:
            s = s[:pos]
        elif op == 6:
            # change the last character of a base32 field to a neighbour (non-canonical tails)
            idx = [i for i in range(len(s)) if (i + 1 == len(s) or s[i + 1:i + 2] == b":") and s[i:i + 1].isalnum()]
            if idx:
                i = rng.choice(idx)
                s = s[:i] + bytes([rng.choice(L.B32 + b"0189")]) + s[i + 1:]
        elif op == 7:
            k = rng.choice(L.KINDS)
            parts = s.split(b":", 2)
            if len(parts) == 3:
                s = b"URI:" + k.encode() + b":" + parts[2]
        else:
            # leading zero / sign on a number field
            parts = s.split(b":")
            cand = [i for i, p in enumerate(parts) if p.isdigit()]
            if cand:
                i = rng.choice(cand)
                parts[i] = rng.choice([b"0", b"00", b"+", b"-", b" "]) + parts[i]
                s = b":".join(parts)
    return s


def c15(inp, rng, out):
    table = inp["tokens"]
    nconc = inp["nconc"]
    mism, n_exec, samples = Mismatches(), 0, []
    stats = {}
    for ci, case in enumerate(inp["cases"]):
        chars = [c for t in case["toks"] for c in table[t]]
        for r in range(nconc):
            pieces = L.concretise(chars, rng)
            s = b"".join(pieces)
            obs = observe_parse(s, case["deep"])
            n_exec += 1
            stats[obs.get("kind", "exc")] = stats.get(obs.get("kind", "exc"), 0) + 1
            for key, what in L.compare_parse(case, obs, pieces):
                mism.add(key, what, {"toks": case["toks"], "string": L.enc(s), "deep": case["deep"], "obs": obs,
                                     "expected": {k: case[k] for k in ("kind", "err", "why", "lo", "hi")}})
            if len(samples) < 6 and r == 0 and ci % 997 == 3:
                samples.append({"toks": case["toks"], "string": L.enc(s), "deep": case["deep"], "spec": case["kind"], "code": obs.get("kind")})
    # fuzz route: concrete strings with their exact abstraction, judged by the Spec afterwards
    fuzz = []

    def add(s, deep, origin, objkind=None, obj=None):
        chars, pieces = L.abstract(s)
        obs = observe_parse(s, deep)
        rec = {"chars": chars, "deep": deep, "pieces": [L.enc(p) for p in pieces], "obs": obs, "origin": origin}
        if objkind:
            rec["objkind"] = objkind
            try:
                u = uri.from_string(s)
                rec["obj_equal"] = bool(type(u) is type(obj) and u == obj and not (u != obj) and hash(u) == hash(obj))
            except Exception as e:
                rec["obj_equal"] = False
        fuzz.append(rec)

    nf = inp["fuzz"]
    for i in range(nf):
        kind = L.KINDS[i % len(L.KINDS)]
        obj = make_obj(kind, rng)
        s = obj.to_string()
        sel = i % 6
        if sel == 0:
            add(s, False, "obj", kind, obj)
        elif sel in (1, 2, 3):
            pre = rng.choice([b"", b"", b"", b"ro.", b"imm.", b"ro.imm.", b"x"])
            add(pre + mutate(s, rng), rng.random() < 0.2, "mutated")
        elif sel == 4:
            add(rng.choice([b"", b"ro.", b"imm."]) + s + rng.choice(SUFFIXES + [b""]), rng.random() < 0.3, "suffixed")
        else:
            n = rng.randrange(0, 80)
            body = bytes(rng.choice(PALETTE) for _ in range(n))
            pre = rng.choice([b"", b"URI:", ("URI:%s:" % kind).encode(), b"ro.URI:" + kind.encode() + b":", b"x-tahoe-future-test-writeable:",
                              b"ro.x-tahoe-future-test-mutable:", b"imm.x-tahoe-future-test-mutable:", b"http://"])
            add(pre + body, rng.random() < 0.2, "random")
    out.update({"mismatches": mism.as_list(), "executions": n_exec, "samples": samples, "fuzz": fuzz,
                "observed_kinds": stats})


def main():
    ap = argparse.ArgumentParser()
    ap.add_argument("--out")
    ap.add_argument("--in", dest="inp")
    ap.add_argument("--seed", type=int, default=0)
    ap.add_argument("--tier", default="quick")
    ap.add_argument("mode")
    a = ap.parse_args()
    inp = json.load(open(a.inp)) if a.inp else {}
    rng = random.Random("caps-%s-%d" % (a.mode, a.seed))
    out = {}
    {"c15": c15}[a.mode](inp, rng, out)
    with open(a.out, "w") as f:
        json.dump(out, f)


if __name__ == "__main__":
    main()
