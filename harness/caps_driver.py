"""Driver of the real capability code (allmydata.uri, allmydata.unknown, NodeMaker and the
node classes) for C15, C16 and C43.  It concretises the abstract cases produced by TLC from
spec/caps/*.tla, runs the real functions and reports observations; for C15 it also produces
seeded concrete strings (objects serialised by the real constructors, character-level
mutations, random printable strings) together with their exact abstraction, for the Spec to judge.
"""
import argparse, json, random, sys

from vreactor import vr, settle  # noqa: F401  (must be first: installs the virtual reactor)
from allmydata import uri
from allmydata.interfaces import MustBeDeepImmutableError, MustBeReadonlyError, MustNotBeUnknownRWError
import caps_lib as L

CLASS2KIND = {
    "CHKFileURI": "CHK", "CHKFileVerifierURI": "CHK-Verifier", "LiteralFileURI": "LIT",
    "WriteableSSKFileURI": "SSK", "ReadonlySSKFileURI": "SSK-RO", "SSKVerifierURI": "SSK-Verifier",
    "WriteableMDMFFileURI": "MDMF", "ReadonlyMDMFFileURI": "MDMF-RO", "MDMFVerifierURI": "MDMF-Verifier",
    "DirectoryURI": "DIR2", "ReadonlyDirectoryURI": "DIR2-RO", "DirectoryURIVerifier": "DIR2-Verifier",
    "ImmutableDirectoryURI": "DIR2-CHK", "ImmutableDirectoryURIVerifier": "DIR2-CHK-Verifier",
    "LiteralDirectoryURI": "DIR2-LIT", "MDMFDirectoryURI": "DIR2-MDMF", "ReadonlyMDMFDirectoryURI": "DIR2-MDMF-RO",
    "MDMFDirectoryURIVerifier": "DIR2-MDMF-Verifier", "UnknownURI": "Unknown", "NoneType": "None",
}
KIND2CLASS = {v: getattr(uri, k) for k, v in CLASS2KIND.items() if hasattr(uri, k)}


def kind_of(u):
    return CLASS2KIND.get(type(u).__name__, "?" + type(u).__name__)


def err_class(e):
    if e is None:
        return "none"
    if isinstance(e, uri.BadURIError):
        return "bad"
    if isinstance(e, MustBeDeepImmutableError):
        return "imm"
    if isinstance(e, MustBeReadonlyError):
        return "ro"
    if isinstance(e, MustNotBeUnknownRWError):
        return "unknown_rw"
    return "?" + type(e).__name__


def observe_parse(s, deep):
    try:
        u = uri.from_string(s, deep_immutable=deep)
        o = {"kind": kind_of(u), "out": L.enc(u.to_string())}
        if isinstance(u, uri.UnknownURI):
            o["err"] = err_class(u.get_error())
        else:
            out = u.to_string()
            u2 = uri.from_string(out, deep_immutable=deep)
            why = []
            if type(u2) is not type(u):
                why.append("class %s" % type(u2).__name__)
            else:
                if not (u2 == u):
                    why.append("==")
                if u2 != u:
                    why.append("!=")
                if hash(u2) != hash(u):
                    why.append("hash")
                if u2.to_string() != out:
                    why.append("to_string")
            o["rt"] = not why
            if why:
                o["rt_why"] = ",".join(why)
        return o
    except Exception as e:  # the parser must not raise on any input
        return {"exc": type(e).__name__, "msg": str(e)[:200]}


class Mismatches:
    """All distinct keys with their number of occurrences and the first few examples."""
    def __init__(self, keep=3):
        self.d, self.keep = {}, keep

    def add(self, key, what, example):
        e = self.d.setdefault(key, {"key": key, "what": what, "count": 0, "examples": []})
        e["count"] += 1
        if len(e["examples"]) < self.keep:
            e["examples"].append(example)

    def as_list(self):
        return [self.d[k] for k in sorted(self.d)]


# ----------------------------------------------------------------------------- C15
def rnd_num(rng):
    return rng.choice([0, 1, 3, 10, 255, 256, rng.randrange(1, 300), rng.randrange(0, 2 ** 32), rng.randrange(2 ** 63, 2 ** 65),
                       rng.randrange(2 ** 64, 2 ** 90), 10 ** rng.randrange(1, 30)])


def make_obj(kind, rng):
    """A cap object of the given kind built by the real constructors from seeded random fields."""
    rb = lambda n: bytes(rng.randrange(256) for _ in range(n))
    inner = {"DIR2": "SSK", "DIR2-RO": "SSK-RO", "DIR2-Verifier": "SSK-Verifier", "DIR2-CHK": "CHK",
             "DIR2-CHK-Verifier": "CHK-Verifier", "DIR2-LIT": "LIT", "DIR2-MDMF": "MDMF", "DIR2-MDMF-RO": "MDMF-RO",
             "DIR2-MDMF-Verifier": "MDMF-Verifier"}
    if kind in inner:
        return KIND2CLASS[kind](make_obj(inner[kind], rng))
    if kind in ("CHK", "CHK-Verifier"):
        return KIND2CLASS[kind](rb(16), rb(32), rnd_num(rng), rnd_num(rng), rnd_num(rng))
    if kind == "LIT":
        return uri.LiteralFileURI(rb(rng.choice([0, 1, 2, 3, 4, 5, 6, 7, 8, 9, 20, rng.randrange(0, 60)])))
    return KIND2CLASS[kind](rb(16), rb(32))


PALETTE = b"abcdefghijklmnopqrstuvwxyz234567" * 2 + b"0189" * 3 + b":::" + b"ABCXYZ" + b"!-_=./ \n\n\r\t\x00\xff"
SUFFIXES = [b"\n", b" ", b":", b":junk", b"junk", b"\n\n", b"\r\n", b"=", b"0", b"7", b"a", b":3:131073", b":\n", b"\nx", b"\x00"]


def mutate(s, rng):
    n = rng.choice([1, 1, 1, 2, 3])
    for _ in range(n):
        op = rng.randrange(9)
        pos = rng.randrange(len(s) + 1)
        if op == 0:
            s = s[:pos] + bytes([rng.choice(PALETTE)]) + s[pos:]
        elif op == 1 and s:
            pos = min(pos, len(s) - 1)
            s = s[:pos] + s[pos + 1:]
        elif op == 2 and s:
            pos = min(pos, len(s) - 1)
            s = s[:pos] + bytes([rng.choice(PALETTE)]) + s[pos + 1:]
        elif op == 3:
            s = s + rng.choice(SUFFIXES)
        elif op == 4 and s:
            pos = min(pos, len(s) - 1)
            s = s[:pos] + s[pos:pos + 1].swapcase() + s[pos + 1:]
        elif op == 5:
            s = s[:pos]
        elif op == 6:
            # change the last character of a base32 field to a neighbour (non-canonical tails)
            idx = [i for i in range(len(s)) if (i + 1 == len(s) or s[i + 1:i + 2] == b":") and s[i:i + 1].isalnum()]
            if idx:
                i = rng.choice(idx)
                s = s[:i] + bytes([rng.choice(L.B32 + b"0189")]) + s[i + 1:]
        elif op == 7:
            k = rng.choice(L.KINDS)
            parts = s.split(b":", 2)
            if len(parts) == 3:
                s = b"URI:" + k.encode() + b":" + parts[2]
        else:
            # leading zero / sign on a number field
            parts = s.split(b":")
            cand = [i for i, p in enumerate(parts) if p.isdigit()]
            if cand:
                i = rng.choice(cand)
                parts[i] = rng.choice([b"0", b"00", b"+", b"-", b" "]) + parts[i]
                s = b":".join(parts)
    return s


def c15(inp, rng, out):
    table = inp["tokens"]
    nconc = inp["nconc"]
    mism, n_exec, samples = Mismatches(), 0, []
    stats = {}
    for ci, case in enumerate(inp["cases"]):
        chars = [c for t in case["toks"] for c in table[t]]
        for r in range(nconc):
            pieces = L.concretise(chars, rng)
            s = b"".join(pieces)
            obs = observe_parse(s, case["deep"])
            n_exec += 1
            stats[obs.get("kind", "exc")] = stats.get(obs.get("kind", "exc"), 0) + 1
            for key, what in L.compare_parse(case, obs, pieces):
                mism.add(key, what, {"toks": case["toks"], "string": L.enc(s), "deep": case["deep"], "obs": obs,
                                     "expected": {k: case[k] for k in ("kind", "err", "why", "lo", "hi")}})
            if len(samples) < 6 and r == 0 and ci % 997 == 3:
                samples.append({"toks": case["toks"], "string": L.enc(s), "deep": case["deep"], "spec": case["kind"], "code": obs.get("kind")})
    # fuzz route: concrete strings with their exact abstraction, judged by the Spec afterwards
    fuzz = []

    def add(s, deep, origin, objkind=None, obj=None):
        chars, pieces = L.abstract(s)
        obs = observe_parse(s, deep)
        rec = {"chars": chars, "deep": deep, "pieces": [L.enc(p) for p in pieces], "obs": obs, "origin": origin}
        if objkind:
            rec["objkind"] = objkind
            try:
                u = uri.from_string(s)
                rec["obj_equal"] = bool(type(u) is type(obj) and u == obj and not (u != obj) and hash(u) == hash(obj))
            except Exception as e:
                rec["obj_equal"] = False
        fuzz.append(rec)

    nf = inp["fuzz"]
    for i in range(nf):
        kind = L.KINDS[i % len(L.KINDS)]
        obj = make_obj(kind, rng)
        s = obj.to_string()
        sel = i % 6
        if sel == 0:
            add(s, False, "obj", kind, obj)
        elif sel in (1, 2, 3):
            pre = rng.choice([b"", b"", b"", b"ro.", b"imm.", b"ro.imm.", b"x"])
            add(pre + mutate(s, rng), rng.random() < 0.2, "mutated")
        elif sel == 4:
            add(rng.choice([b"", b"ro.", b"imm."]) + s + rng.choice(SUFFIXES + [b""]), rng.random() < 0.3, "suffixed")
        else:
            n = rng.randrange(0, 80)
            body = bytes(rng.choice(PALETTE) for _ in range(n))
            pre = rng.choice([b"", b"URI:", ("URI:%s:" % kind).encode(), b"ro.URI:" + kind.encode() + b":", b"x-tahoe-future-test-writeable:",
                              b"ro.x-tahoe-future-test-mutable:", b"imm.x-tahoe-future-test-mutable:", b"http://"])
            add(pre + body, rng.random() < 0.2, "random")
    out.update({"mismatches": mism.as_list(), "executions": n_exec, "samples": samples, "fuzz": fuzz,
                "observed_kinds": stats})

# ----------------------------------------------------------------------------- C16
import base64
import kd_interp as KD


def b32e(b):
    return base64.b32encode(b).rstrip(b"=").lower()


def b32d(s):
    s = s.upper()
    return base64.b32decode(s + b"=" * ((8 - len(s) % 8) % 8))


def split_fields(s):
    """b'URI:KIND:f1:f2...' -> raw fields; base32 fields decoded to bytes, numbers to int.
    (CHK-shaped: 5 fields, last three numbers; otherwise all base32.)"""
    raw = s.split(b":")[2:]
    out = []
    for i, f in enumerate(raw):
        out.append(int(f) if (len(raw) == 5 and i >= 2) else b32d(f))
    return out


def eval_term(T, t, fields):
    if t["op"] == "f":
        return fields[t["i"] - 1]
    if t["op"] == "d":
        arg = eval_term(T, t["arg"], fields)
        deps = KD.refs(T[t["name"]])
        assert len(deps) == 1, (t["name"], deps)
        return KD.evaluate(T, t["name"], {list(deps)[0]: arg})
    if t["op"] == "none":
        return None
    raise ValueError(t)


def serialise(kind, values):
    return b"URI:" + kind.encode() + b":" + b":".join((b"%d" % v) if isinstance(v, int) else b32e(v) for v in values)


def flags_of(u):
    return {"kind": kind_of(u), "ro": bool(u.is_readonly()), "mut": bool(u.is_mutable())}


def c16(inp, rng, out):
    from grid import Grid
    from allmydata.unknown import UnknownNode
    table, T, nconc = inp["tokens"], inp["kd"], inp["nconc"]
    mism = Mismatches()
    stats = {"atten": 0, "ctx": 0, "un": 0, "steps": 0}
    samples = []
    g = Grid(num_servers=1, k=1, n=1, happy=1)

    def step(recv_kind, method, obj_fn, exp_flags, exp_values, orig_secret_b32, orig_lvl, example):
        """call a diminishing method; compare kind, flags, serialisation, secret leak.  Returns the object or None."""
        stats["steps"] += 1
        base = "C16:%s:%s" % (recv_kind, method)
        try:
            o = obj_fn()
        except Exception as e:
            mism.add(base + ":exception", "%s.%s() raised %s" % (recv_kind, method, type(e).__name__), example)
            return None
        if exp_flags["kind"] == "None":
            if o is not None:
                mism.add(base + ":kind", "%s.%s() should be None, is %s" % (recv_kind, method, kind_of(o)), example)
            return None
        if o is None or kind_of(o) != exp_flags["kind"]:
            mism.add(base + ":kind", "%s.%s() must be a %s cap, is %s" % (recv_kind, method, exp_flags["kind"], kind_of(o)), example)
            return None
        try:
            fl = flags_of(o)
            st = o.to_string()
        except Exception as e:
            mism.add(base + ":exception", "flags/to_string of %s.%s() raised %s" % (recv_kind, method, type(e).__name__), example)
            return None
        if (fl["ro"], fl["mut"]) != (exp_flags["ro"], exp_flags["mut"]):
            mism.add(base + ":flags", "is_readonly/is_mutable of %s.%s(): expected %s, got %s" % (recv_kind, method, exp_flags, fl), example)
        want = serialise(exp_flags["kind"], exp_values)
        if st != want:
            mism.add(base + ":fields", "%s.%s() carries other fields than the derivations specify" % (recv_kind, method),
                     dict(example, expected=L.enc(want), got=L.enc(st)))
        if exp_flags["lvl"] < orig_lvl:
            for sec in orig_secret_b32:
                if sec in st:
                    mism.add(base + ":secret_leak", "the %s cap from %s() contains the stronger secret" % (exp_flags["kind"], method), example)
        return o

    for case in inp["cases"]:
        t = case["t"]
        for r in range(nconc):
            if t == "atten":
                stats["atten"] += 1
                chars = [c for tk in case["toks"] for c in table[tk]]
                s = b"".join(L.concretise(chars, rng))
                k = case["self"]["kind"]
                ex = {"string": L.enc(s)}
                try:
                    u = uri.from_string(s)
                    if kind_of(u) != k:
                        mism.add("C16:%s:from_string:kind" % k, "canonical %s string parsed as %s" % (k, kind_of(u)), ex)
                        continue
                    fields = split_fields(s)
                    fl = flags_of(u)
                    if (fl["ro"], fl["mut"]) != (case["self"]["ro"], case["self"]["mut"]):
                        mism.add("C16:%s:self:flags" % k, "is_readonly/is_mutable: expected %s got %s" % (case["self"], fl), ex)
                    si = eval_term(T, case["si"], fields)
                    if u.get_storage_index() != si:
                        mism.add("C16:%s:self:storage_index" % k, "get_storage_index() differs from the specified derivation", ex)
                    raw = s.split(b":")[2:]
                    secret = [raw[i - 1] for i in case["secret"]]
                    lvl = case["self"]["lvl"]
                    rov = [eval_term(T, x, fields) for x in case["ro_fields"]]
                    vv_ = [eval_term(T, x, fields) for x in case["v_fields"]]
                    rovv = [eval_term(T, x, fields) for x in case["rov_fields"]]
                    ro = step(k, "get_readonly", u.get_readonly, case["readonly"], rov, secret, lvl, ex)
                    v = step(k, "get_verify_cap", u.get_verify_cap, case["verify"], vv_, secret, lvl, ex)
                    if ro is not None:
                        if ro.get_storage_index() != si:
                            mism.add("C16:%s:get_readonly:storage_index" % k, "storage index changes along the chain", ex)
                        if ro is not u:
                            step(case["readonly"]["kind"], "get_verify_cap", ro.get_verify_cap, case["ro_verify"], rovv, secret, lvl, ex)
                            step(case["readonly"]["kind"], "get_readonly", ro.get_readonly, case["readonly"], rov, secret, lvl, ex)
                    if v is not None:
                        if v.get_storage_index() != si:
                            mism.add("C16:%s:get_verify_cap:storage_index" % k, "storage index changes along the chain", ex)
                        if v is not u:
                            step(case["verify"]["kind"], "get_readonly", v.get_readonly, case["v_readonly"], vv_, secret, lvl, ex)
                            step(case["verify"]["kind"], "get_verify_cap", v.get_verify_cap, case["v_verify"], vv_, secret, lvl, ex)
                    if len(samples) < 3 and r == 0:
                        samples.append({"cap": L.enc(s), "readonly": L.enc(ro.to_string()) if ro is not None else None,
                                        "verify_expected": L.enc(serialise(case["verify"]["kind"], vv_)) if case["verify"]["kind"] != "None" else None})
                except Exception as e:
                    mism.add("C16:%s:exception:%s" % (k, type(e).__name__), "unexpected exception: %s" % str(e)[:200], ex)
            elif t == "ctx":
                stats["ctx"] += 1
                chars = [c for tk in case["toks"] for c in table[tk]]
                pieces = L.concretise(chars, rng)
                s = b"".join(pieces)
                ex = {"string": L.enc(s), "deep": case["deep"], "slots": case["slots"]}
                obs = observe_parse(s, case["deep"])
                for key, what in L.compare_parse(dict(case, why="context"), obs, pieces):
                    mism.add(key.replace("C15:", "C16:from_string:", 1), what, dict(ex, obs=obs))
                w = s if case["slots"] in ("w", "wr") else None
                rd = s if case["slots"] in ("r", "wr") else None
                for mode in ("cold", "warm"):
                  # warm: the same NodeMaker has already opened the bare cap (prefixes stripped) and still holds the
                  # nodes, so its node cache is populated: an alleged-read-only spelling must not get the cached writeable node
                  nm = g.make_nodemaker()
                  keep = []
                  if mode == "warm":
                      bare = b"".join(pieces[case["lo"] - 1:case["hi"]]) if case["kind"] != "Unknown" else s.replace(b"ro.", b"", 1).replace(b"imm.", b"", 1)
                      # first, caps of OTHER kinds that name the same stored object (same storage index): the directory
                      # wrapping of a file cap / the backing file cap of a directory cap, each with its read and verify forms
                      for sib in sibling_caps(bare):
                          try:
                              keep.append(nm.create_from_cap(sib, None))
                          except Exception:
                              pass
                      for a in ((bare, None), (None, bare)):
                          try:
                              keep.append(nm.create_from_cap(a[0], a[1]))
                          except Exception:
                              pass
                  tag = case["kind"] + (":warm_cache" if mode == "warm" else "")
                  try:
                      node = nm.create_from_cap(w, rd, deep_immutable=case["deep"])
                  except Exception as e:
                      mism.add("C16:create_from_cap:%s:exception" % tag, "create_from_cap raised %s" % type(e).__name__, ex)
                      continue
                  cls = type(node).__name__
                  if cls != case["cls"]:
                      mism.add("C16:create_from_cap:%s:class" % tag, "node class %s, expected %s" % (cls, case["cls"]), ex)
                      continue
                  try:
                      canon = b"".join(pieces[case["lo"] - 1:case["hi"]])
                      if cls == "UnknownNode":
                          check_unknown(mism, "C16:create_from_cap:UnknownNode", node, case["un"], {"rw": pieces, "ro": pieces}, ex)
                      else:
                          if hasattr(node, "is_readonly") and bool(node.is_readonly()) != case["flags"]["ro"]:
                              mism.add("C16:create_from_cap:%s:is_readonly" % tag, "node.is_readonly() is %s" % node.is_readonly(), ex)
                          if bool(node.is_mutable()) != case["flags"]["mut"]:
                              mism.add("C16:create_from_cap:%s:is_mutable" % tag, "node.is_mutable() is %s" % node.is_mutable(), ex)
                          if hasattr(node, "get_uri"):
                              if node.get_uri() != canon:
                                  mism.add("C16:create_from_cap:%s:uri" % tag, "node.get_uri() is not the canonical cap string", ex)
                              wu = node.get_write_uri()
                              if wu != (None if case["flags"]["ro"] else canon):
                                  mism.add("C16:create_from_cap:%s:write_uri" % tag, "node.get_write_uri() = %r" % (wu,), ex)
                              ru = node.get_readonly_uri()
                              okp = ru is not None and ru.startswith(b"URI:" + case["ro_kind"].encode() + b":")
                              if not okp or (case["ro_kind"] == case["kind"] and ru != canon) or (case["ro_kind"] != case["kind"] and canon.split(b":")[2] in ru):
                                  mism.add("C16:create_from_cap:%s:readonly_uri" % tag, "node.get_readonly_uri() = %r" % (ru,), ex)
                          # caps the node hands out for verification / repair (manifests, deep-check streams): never the
                          # stronger secret; a read-only or immutable object's repair cap carries no key at all
                          secret = canon.split(b":")[2] if canon.count(b":") >= 3 and "Verifier" not in case["kind"] else None
                          if secret and hasattr(node, "get_verify_cap"):
                              vc = node.get_verify_cap()
                              if vc is not None and secret in vc.to_string():
                                  mism.add("C16:create_from_cap:%s:verify_cap_carries_secret" % tag, "node.get_verify_cap() = %r" % (vc.to_string(),), ex)
                          if secret and hasattr(node, "get_repair_cap"):
                              rc = node.get_repair_cap()
                              if rc is not None:
                                  rcs = rc.to_string()
                                  if case["flags"]["ro"] and secret in rcs:
                                      mism.add("C16:create_from_cap:%s:repair_cap_carries_secret" % tag,
                                               "node.get_repair_cap() of a read-only / immutable object = %r" % (rcs,), ex)
                                  elif not case["flags"]["ro"] and rcs != canon and secret in rcs:
                                      mism.add("C16:create_from_cap:%s:repair_cap_other_secret_form" % tag, "node.get_repair_cap() = %r" % (rcs,), ex)
                  except Exception as e:
                      mism.add("C16:create_from_cap:%s:exception" % tag, "inspecting the node raised %s: %s" % (type(e).__name__, str(e)[:100]), ex)
            else:
                stats["un"] += 1
                pcs = {}
                args = {}
                for slot in ("rw", "ro"):
                    if case[slot + "_given"]:
                        pcs[slot] = L.concretise([c for tk in case[slot + "_toks"] for c in table[tk]], rng)
                        args[slot] = b"".join(pcs[slot])
                    else:
                        pcs[slot] = []
                        args[slot] = None
                ex = {"rw": L.enc(args["rw"]), "ro": L.enc(args["ro"]), "deep": case["deep"]}
                try:
                    node = UnknownNode(args["rw"], args["ro"], deep_immutable=case["deep"])
                except Exception as e:
                    mism.add("C16:UnknownNode:exception", "UnknownNode() raised %s" % type(e).__name__, ex)
                    continue
                check_unknown(mism, "C16:UnknownNode", node, case["un"], pcs, ex)
    g.close()
    out.update({"mismatches": mism.as_list(), "stats": stats, "samples": samples})


def sibling_caps(capstr):
    """cap strings of other kinds for the object `capstr` names (mutable families only)"""
    wrap = {uri.WriteableSSKFileURI: uri.DirectoryURI, uri.ReadonlySSKFileURI: uri.ReadonlyDirectoryURI,
            uri.SSKVerifierURI: uri.DirectoryURIVerifier, uri.WriteableMDMFFileURI: uri.MDMFDirectoryURI,
            uri.ReadonlyMDMFFileURI: uri.ReadonlyMDMFDirectoryURI, uri.MDMFVerifierURI: uri.MDMFDirectoryURIVerifier}
    out = []
    try:
        u = uri.from_string(capstr)
    except Exception:
        return out
    base = None
    if type(u) in wrap:
        base = u
    elif isinstance(u, uri._DirectoryBaseURI) and type(u._filenode_uri) in wrap:
        base = u._filenode_uri
    if base is None:
        return out
    forms = [base]
    if hasattr(base, "get_readonly") and not base.is_readonly():
        forms.append(base.get_readonly())
    forms.append(base.get_verify_cap())
    for f in forms:
        for c in (f, wrap[type(f)](f)):
            st = c.to_string()
            if st != capstr and st not in out:
                out.append(st)
    return out


def check_unknown(mism, base, node, exp, pieces, ex):
    err = err_class(node.error)
    if err != exp["err"]:
        mism.add(base + ":error", "UnknownNode error class %s, expected %s" % (err, exp["err"]), ex)
    for slot, got in (("rw", node.rw_uri), ("ro", node.ro_uri)):
        e = exp[slot]
        want = None
        if e["present"]:
            want = e["add"].encode() + b"".join(pieces[e["src"]][e["drop"]:])
        if got != want:
            mism.add("%s:%s_uri" % (base, slot), "UnknownNode.%s_uri = %r, expected %r" % (slot, got, want), ex)
        if got is not None and slot == "ro" and not (got.startswith(b"ro.") or got.startswith(b"imm.")):
            mism.add(base + ":ro_uri_without_alleged_prefix", "ro_uri kept without ro./imm. prefix", ex)


def c43(inp, rng, out):
    """Build the two objects of every pair independently (two parses / two NodeMakers) and observe ==, !=, hash."""
    from grid import Grid
    table, nconc = inp["tokens"], inp["nconc"]
    mism = Mismatches()
    stats = {}
    samples = []
    g = Grid(num_servers=1, k=1, n=1, happy=1)

    def conc_pair(case):
        t1, t2 = case["toks1"], case["toks2"]
        p1 = [L.concretise(table[tk], rng) for tk in t1]
        if case["t"] in ("unode", "ucap"):
            share = {len(t2)} if case["share"] else set()
            srcpos = {len(t2): len(t1)}
        else:
            share = set(case["share"])
            srcpos = {p: p for p in share}
        p2 = []
        for j, tk in enumerate(t2, 1):
            if j in share:
                p2.append(p1[srcpos[j] - 1])
                continue
            pc = L.concretise(table[tk], rng)
            same_tok_other_side = t1[j - 1] if j <= len(t1) else None
            if tk == same_tok_other_side and len(table[tk]) and tk not in ("COLON",) and not tk.startswith(("P:", "Q:", "ro.", "imm.")):
                for _ in range(100):          # a field that must differ really differs
                    if pc != p1[j - 1]:
                        break
                    pc = L.concretise(table[tk], rng)
            p2.append(pc)
        flat = lambda ps: b"".join(b"".join(x) for x in ps)
        return flat(p1), flat(p2)

    def build(sort_or_cls, s, nm, slot="w", deep=False):
        if sort_or_cls == "cap":
            return uri.from_string(s)
        if sort_or_cls == "bytes":
            return s
        if sort_or_cls == "none":
            return None
        if slot == "w":
            return nm.create_from_cap(s, None, deep_immutable=deep)
        return nm.create_from_cap(None, s, deep_immutable=deep)

    for case in inp["cases"]:
        for r in range(nconc):
            s1, s2 = conc_pair(case)
            ex = {"a": L.enc(s1), "b": L.enc(s2), "t": case["t"], "cls": [case["cls1"], case["cls2"]]}
            if case["t"] == "unode":
                ex.update({"slots": [case["slot1"], case["slot2"]], "deep": [case["deep1"], case["deep2"]]})
            try:
                a = build(case["cls1"], s1, g.make_nodemaker(), case.get("slot1", "w"), case.get("deep1", False))
                b = build(case["cls2"], s2, g.make_nodemaker(), case.get("slot2", "w"), case.get("deep2", False))
            except Exception as e:
                mism.add("C43:build:exception:%s" % type(e).__name__, "building the objects raised: %s" % str(e)[:100], ex)
                continue
            ca, cb = type(a).__name__, type(b).__name__
            if case["t"] in ("node", "unode") and (ca != case["cls1"] or cb != case["cls2"]):
                mism.add("C43:build:class", "node classes %s/%s, Spec expects %s/%s" % (ca, cb, case["cls1"], case["cls2"]), ex)
                continue
            who = ca if ca == cb else "%s-vs-%s" % (ca, cb)
            stats[who] = stats.get(who, 0) + 1
            v = case["v"]
            try:
                eq, ne, eq2, ne2 = (a == b), (a != b), (b == a), (b != a)
                refl_eq, refl_ne = (a == a), (a != a)
            except Exception as e:
                mism.add("C43:%s:compare_raises" % who, "comparison raised %s" % type(e).__name__, ex)
                continue
            obs = {"eq": eq, "ne": ne, "eq_rev": eq2, "ne_rev": ne2}
            exo = dict(ex, observed={k: repr(x) for k, x in obs.items()}, expected=v)
            if not all(isinstance(x, bool) for x in (eq, ne, eq2, ne2)):
                mism.add("C43:%s:not_boolean" % who, "==/!= do not return booleans", exo)
                continue
            if eq != v["eq"]:
                mism.add("C43:%s:%s" % (who, "eq_identity" if v["eq"] else "eq_conflates"),
                         "== is %s for %s" % (eq, "two independently built objects of one cap" if v["eq"] else "objects of different caps"), exo)
            if ne == eq:
                mism.add("C43:%s:ne_not_negation" % who, "(a != b) == (a == b) == %s" % eq, exo)
            elif ne != v["ne"] and eq == v["eq"]:
                mism.add("C43:%s:ne_wrong" % who, "!= is %s" % ne, exo)
            if eq != eq2 or ne != ne2:
                mism.add("C43:%s:asymmetric" % who, "a==b is %s but b==a is %s" % (eq, eq2), exo)
            if refl_eq is not True or refl_ne is not False:
                mism.add("C43:%s:%s" % (ca, "ne_not_negation" if refl_ne == refl_eq else "not_reflexive"),
                         "a == a is %r, a != a is %r" % (refl_eq, refl_ne), exo)
            hs = []
            for o_, cls_, sort_ in ((a, ca, case["cls1"]), (b, cb, case["cls2"])):
                if sort_ in ("bytes", "none"):
                    continue
                try:
                    hs.append(hash(o_))
                except TypeError:
                    mism.add("C43:%s:unhashable" % cls_, "hash() raises TypeError (__eq__ defined without __hash__)", exo)
            if len(hs) == 2 and v["hash_eq"] and hs[0] != hs[1]:
                mism.add("C43:%s:hash_differs" % who, "equal objects hash differently", exo)
            if case["t"] == "node" and s1 == s2 and v["eq"] and isinstance(s1, bytes) and ca == cb and ca != "UnknownNode":
                # one client, one capability, reached over the routes a real client uses: by cap string (write slot or read
                # slot) and as the (rw_uri, ro_uri) pair found in a parent directory
                try:
                    nm = g.make_nodemaker()
                    u = uri.from_string(s1)
                    if not u.is_readonly() and u.is_mutable():
                        ro = u.get_readonly().to_string()
                        routes = [(s1, None), (s1, ro), (s1, None)]
                    else:
                        routes = [(s1, None), (None, s1), (s1, s1)]
                    nodes = [nm.create_from_cap(w_, r_) for (w_, r_) in routes]
                    mutable_ = bool(nodes[0].is_mutable())
                    tag = "one_client_routes" if mutable_ else "one_client_immutable"
                    for n2 in nodes[1:]:
                        exr = dict(ex, routes=[[L.enc(x) if x else "" for x in rt] for rt in routes])
                        if not (nodes[0] == n2) or (nodes[0] != n2):
                            mism.add(("C43:%s:%s:eq_identity" % (ca, tag)) if mutable_ else ("C43:%s:eq_identity:%s" % (ca, tag)),
                                     "one NodeMaker gave two unequal %s objects for one capability reached over two routes" % ca, exr)
                            break
                        if hash(nodes[0]) != hash(n2):
                            mism.add(("C43:%s:%s:hash_differs" % (ca, tag)) if mutable_ else ("C43:%s:hash_differs:%s" % (ca, tag)),
                                     "one NodeMaker gave %s objects of one capability that hash differently" % ca, exr)
                            break
                    if mutable_ and ca == "MutableFileNode" and not nodes[0].is_readonly() and hasattr(nodes[0], "get_readonly"):
                        # the read-only node a write node hands out (after the write node was used as a key) against a node
                        # built from the read-cap string: one capability, one identity
                        hash(nodes[0])
                        ro_a = nodes[0].get_readonly()
                        ro_b = g.make_nodemaker().create_from_cap(ro_a.get_uri())
                        exr = dict(ex, route="node.get_readonly() vs create_from_cap(readcap)")
                        if not (ro_a == ro_b) or (ro_a != ro_b):
                            mism.add("C43:%s:get_readonly:eq_identity" % ca, "node.get_readonly() is not equal to the node of the same read-cap", exr)
                        elif hash(ro_a) != hash(ro_b):
                            mism.add("C43:%s:get_readonly:hash_differs" % ca, "node.get_readonly() and the node of the same read-cap hash differently", exr)
                    stats["routes:" + ca] = stats.get("routes:" + ca, 0) + 1
                except Exception as e:
                    mism.add("C43:%s:one_client_routes:exception:%s" % (ca, type(e).__name__), str(e)[:200], ex)
            if len(samples) < 4 and r == 0 and v["eq"] and case["t"] != "cap":
                samples.append({"a": L.enc(s1), "b": L.enc(s2), "classes": who, "spec_eq": v["eq"], "code_eq": eq, "code_ne": ne})
    g.close()
    out.update({"mismatches": mism.as_list(), "stats": stats, "samples": samples})


def main():
    ap = argparse.ArgumentParser()
    ap.add_argument("--out")
    ap.add_argument("--in", dest="inp")
    ap.add_argument("--seed", type=int, default=0)
    ap.add_argument("--tier", default="quick")
    ap.add_argument("mode")
    a = ap.parse_args()
    inp = json.load(open(a.inp)) if a.inp else {}
    rng = random.Random("caps-%s-%d" % (a.mode, a.seed))
    out = {}
    {"c15": c15, "c16": c16, "c43": c43}[a.mode](inp, rng, out)
    with open(a.out, "w") as f:
        json.dump(out, f)


if __name__ == "__main__":
    main()
