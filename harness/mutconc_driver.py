"""Concurrent and faulty mutable publishes on the SimGrid (C12, C47).

W real MutableFileNodes for ONE write-cap (distinct node objects: each writer has its
own NodeMaker, its own storage broker view and its own connection objects to the
servers) start their operation at the same time; every remote call is parked in the
grid and this driver decides the delivery order (seeded random, or an explicit
schedule for the bounded DFS) and the faults.

One trace per scenario for spec/mutable/TracePublish.tla:

  Begin    w op                           the writer starts (op = create | overwrite)
  Survey   w s res|fault                  a map-update query (slot_readv of all shares) executed on s,
                                          res = {shnum: version id} of what the server answered
  Publish  w goal newv tests              the publisher parked its read-test-write requests
  Write    w s sh test newv fault wrote reads obs
                                          one read-test-write executed on s (fault "raise"/"disconnect": NOT executed,
                                          "post": executed, the answer is replaced by a connection error);
                                          reads = what the server returned, obs = share versions on disk afterwards
  Finish   w res                          the writer's Deferred fired (ok | UCWE | NotEnough | Unrecoverable | other:*)
  Final    shares unfinished dl           share versions on every server; result of a real download by a fresh node

Version ids: 0 = no share; other ids number the distinct checkstrings (seqnum, root hash[, IV]) in order
of appearance (allmydata.mutable.layout.unpack_*_checkstring on the share prefix).
The verdicts are computed by TLC from the recorded trace only.
"""
import argparse, json, os, random, shutil, struct, sys, tempfile, itertools

import os as _os
_os.environ.setdefault("VERIF_ASYNC_CPU", "1")   # CPU-bound steps finish one reactor turn later, as in production
from vreactor import vr, settle
from twisted.internet import defer
from twisted.python.failure import Failure
from foolscap.api import RemoteException, DeadReferenceError

import grid as gridmod
from grid import Grid, ControlledRef, GridServer, GridBroker, IntentionalError, Hang
from allmydata.interfaces import SDMF_VERSION, MDMF_VERSION
from allmydata.nodemaker import NodeMaker
from allmydata.client import SecretHolder
from allmydata.util import hashutil
from allmydata.mutable import publish as publish_mod
from allmydata.mutable.publish import MutableData
from allmydata.mutable.common import UncoordinatedWriteError, NotEnoughServersError, UnrecoverableFileError
from allmydata.mutable import layout as mlayout

# building a StorageServer computes the 1024 crawler prefixes twice with the pure function si_b2a: memoise it
# (a scenario builds up to 12 servers and the DFS re-executes scenarios from scratch)
import functools
import allmydata.storage.crawler as _crawler
_crawler.si_b2a = functools.lru_cache(maxsize=4096)(_crawler.si_b2a)

RTW = "slot_testv_and_readv_and_writev"
READV = "slot_readv"
SDMF_CS = struct.calcsize(mlayout.PREFIX)
MDMF_CS = struct.calcsize(mlayout.MDMFCHECKSTRING)


class Versions:
    """Interns checkstrings as small version ids (0 = absent)."""
    def __init__(self):
        self.ids = {}

    def of_prefix(self, data):
        if not data:
            return 0
        t = mlayout.get_version_from_checkstring(data)
        if t == SDMF_VERSION and len(data) >= SDMF_CS:
            key = ("S",) + tuple(mlayout.unpack_sdmf_checkstring(data))
        elif t == MDMF_VERSION and len(data) >= MDMF_CS:
            key = ("M",) + tuple(mlayout.unpack_mdmf_checkstring(data))
        else:
            key = ("?", bytes(data[:64]))
        if key not in self.ids:
            self.ids[key] = len(self.ids) + 1
        return self.ids[key]

    def seq_of(self, vid):
        for k, v in self.ids.items():
            if v == vid and k[0] in "SM":
                return k[1]
        return -1


class WRef(ControlledRef):
    """A writer's own connection to one server: tags every parked call with the writer."""
    def __init__(self, grid, original, server_name, writer):
        ControlledRef.__init__(self, grid, original, server_name, kind=writer.name)
        self.writer = writer

    def callRemote(self, methname, *args, **kwargs):
        d = ControlledRef.callRemote(self, methname, *args, **kwargs)
        p = self.grid.pending[-1]
        p.wname = self.writer.name
        p.opid = self.writer.opid
        self.writer.on_park(p)
        return d


class View:
    """What a GridBroker needs from its grid, restricted to one writer's connections."""
    def __init__(self, g, writer):
        self.servers = {}
        for name, s in sorted(g.servers.items()):
            ref = WRef(g, s.fss, name, writer)
            ref.version = s.rref.version
            self.servers[name] = GridServer(g, name, s.serverid, s.ss, ref)

    def connected_servers(self):
        return [s for n, s in sorted(self.servers.items())]


class Writer:
    def __init__(self, sc, name, idx):
        self.sc, self.name, self.idx = sc, name, idx
        self.opid = 0
        self.publish_ev = None
        self.finished = False
        self.view = View(sc.g, self)
        self.broker = GridBroker(self.view)
        secret = b"lease-secret-" + name.encode()
        self.nodemaker = NodeMaker(self.broker, SecretHolder(hashutil.my_renewal_secret_hash(secret), secret), None,
                                   sc.g.uploader, sc.g.terminator, sc.g.params, sc.fmt, sc.g.keypool)
        self.content = b""

    def on_park(self, p):
        if p.methname != RTW:
            return
        sc = self.sc
        (si, secrets, tw, rv) = p.args
        if self.publish_ev is None or self.publish_ev["_op"] != self.opid:
            self.publish_ev = {"ev": "Publish", "w": self.name, "goal": [], "newv": 0, "_op": self.opid}
            sc.events.append(self.publish_ev)
        for shnum, (testv, datav, newlen) in tw.items():
            self.publish_ev["goal"].append([p.server, str(shnum)])
            nv = sc.newv_of(datav)
            if self.publish_ev["newv"] == 0:
                self.publish_ev["newv"] = nv
            elif nv != self.publish_ev["newv"]:
                self.publish_ev["newv_conflict"] = nv


def abstract_testv(sc, testv):
    testv = list(testv)
    if not testv:
        return {"kind": "none", "v": 0}
    if len(testv) == 1:
        (off, ln, spec) = testv[0][0], testv[0][1], testv[0][-1]
        if off == 0 and spec == b"" and ln >= 1:
            return {"kind": "absent", "v": 0}
        if off == 0 and ln == len(spec) and ln in (SDMF_CS, MDMF_CS):
            return {"kind": "eq", "v": sc.vers.of_prefix(spec)}
    return {"kind": "other", "v": 0}


class Scenario:
    def __init__(self, workdir, spec):
        """spec: dict(kind, W, k, n, servers, fmt, seed, schedule|None, pfault, dead, op)"""
        self.spec = spec
        self.rng = random.Random(spec["seed"])
        self.fmt = MDMF_VERSION if spec["fmt"] == "MDMF" else SDMF_VERSION
        self.dir = tempfile.mkdtemp(prefix="sc", dir=workdir)
        # every third single-writer scenario has read-only servers (readonly_storage = true); the verdicts are about
        # acknowledged writes vs what is on disk, whatever a server's mode (chosen by a generator of its own so that the
        # scenario's other random choices stay what they were)
        ro = ()
        if spec["kind"] == "single" and spec["seed"] % 3 == 0:
            r2 = random.Random(spec["seed"] * 7 + 1)
            ro = tuple(j for j in range(spec["servers"]) if r2.random() < 0.45)
        spec["readonly"] = list(ro)
        self.g = Grid(self.dir, num_servers=spec["servers"], k=spec["k"], n=spec["n"], happy=1, seed=spec["seed"], readonly=ro)
        self.g.keypool.i = spec["seed"] % 7
        self.vers = Versions()
        self.events = []
        self.choices = []          # (number of options) at every scheduling point
        self.si = None
        self.shnums = [str(i) for i in range(spec["n"])]

    # ---- observation ----
    def newv_of(self, datav):
        for (off, data) in datav:
            if off == 0 and len(data) >= MDMF_CS:
                return self.vers.of_prefix(data)
        return 0

    def disk(self, sname):
        srv = self.g.servers[sname]
        r = srv.ss.slot_readv(self.si, [], [(0, SDMF_CS)]) if self.si else {}
        return {str(sh): self.vers.of_prefix(dv[0]) for sh, dv in r.items()}

    def reads(self, read_data):
        return {str(sh): self.vers.of_prefix(dv[0]) for sh, dv in read_data.items()}

    # ---- delivery ----
    def canon_pending(self):
        def key(p):
            sh = -1
            if p.methname == RTW:
                sh = min(p.args[2].keys())
            return (getattr(p, "wname", "~"), p.methname, p.server, sh, p.seq)
        idx = sorted(range(len(self.g.pending)), key=lambda i: key(self.g.pending[i]))
        return idx

    def deliver(self, i, fault):
        g = self.g
        p = g.pending[i]
        w = getattr(p, "wname", None)
        if w is None or (self.si is not None and p.args and p.args[0] != self.si):
            g.deliver(i, None)
            return
        if self.si is None and p.methname == RTW:
            self.si = p.args[0]
        meth = p.methname
        if meth == READV:
            (si, shnums, readv) = p.args
            full = (list(shnums) == [])
            if fault == "post":
                fault = "raise"
            e = g.deliver(i, fault)
            if full:
                ev = {"ev": "Survey", "w": w, "op": p.opid, "s": p.server, "fault": fault or "", "res": {}}
                if not fault:
                    ev["res"] = self.reads(e["result"])
                self.events.append(ev)
            return
        if meth == RTW:
            (si, secrets, tw, rv) = p.args
            assert len(tw) == 1, "one share per request expected"
            (shnum, (testv, datav, newlen)), = tw.items()
            ev = {"ev": "Write", "w": w, "s": p.server, "sh": str(shnum), "test": abstract_testv(self, testv),
                  "newv": self.newv_of(datav), "fault": fault or "", "wrote": False, "reads": {}}
            if fault == "post":
                # executed on the server, but the answer never arrives: the connection fails instead
                g.pending.pop(i)
                try:
                    res = p.ref.original.remote_slot_testv_and_readv_and_writev(*p.args, **p.kwargs)
                    ev["wrote"], ev["reads"] = bool(res[0]), self.reads(res[1])
                except Exception as ex:          # the server itself refused: behaves like a raise
                    ev["fault"] = "raise"
                    ev["exc"] = type(ex).__name__
                ev["obs"] = self.disk(p.server)
                self.events.append(ev)
                p.ref.fire_disconnect()
                p.d.errback(Failure(DeadReferenceError("connection lost after the request was executed (injected)")))
                return
            e = g.deliver(i, fault)
            if not fault:
                if e["outcome"] == "ok":
                    ev["wrote"], ev["reads"] = bool(e["result"][0]), self.reads(e["result"][1])
                else:
                    ev["fault"] = "raise"
                    ev["exc"] = e["outcome"]
            ev["obs"] = self.disk(p.server)
            self.events.append(ev)
            return
        g.deliver(i, None)

    def pick_fault(self, p):
        sp = self.spec
        w = getattr(p, "wname", None)
        if w is None or p.methname not in (RTW, READV):
            return None
        if (p.server in sp.get("dead", [])):
            return "disconnect" if self.rng.random() < 0.5 else "raise"
        if sp.get("pfault", 0) and self.rng.random() < sp["pfault"]:
            return self.rng.choice(["raise", "disconnect", "post"])
        return None

    def run_all(self, max_steps=4000):
        g = self.g
        sched = self.spec.get("schedule")
        n = 0
        while True:
            settle()
            if not g.pending:
                nt = vr.next_timer()
                if nt is None or nt > 3600:
                    break
                vr.advance(nt)
                continue
            order = self.canon_pending()
            if sched is not None:
                c = sched[len(self.choices)] if len(self.choices) < len(sched) else 0
                c = min(c, len(order) - 1)
            else:
                c = self.rng.randrange(len(order))
            self.choices.append(len(order))
            i = order[c]
            self.deliver(i, self.pick_fault(g.pending[i]))
            n += 1
            if n > max_steps:
                raise Hang("scenario does not terminate")
        settle()

    # ---- the scenario ----
    def classify(self, r):
        if not isinstance(r, Failure):
            if hasattr(r, "get_repair_attempted") and not r.get_repair_attempted():
                return "noop"            # check_and_repair found nothing to repair: no publish took place
            return "ok"
        if r.check(UncoordinatedWriteError):
            return "UCWE"
        if r.check(NotEnoughServersError):
            return "NotEnough"
        if r.check(UnrecoverableFileError):
            return "Unrecoverable"
        return "other:" + r.type.__name__

    def start(self, wr, d):
        def _fin(r, wr=wr):
            wr.finished = True
            ev = {"ev": "Finish", "w": wr.name, "res": self.classify(r)}
            if isinstance(r, Failure) and ev["res"].startswith("other"):
                ev["detail"] = str(r.value)[:300]
            self.events.append(ev)
            return None
        d.addBoth(_fin)

    def run(self):
        sp = self.spec
        g = self.g
        W = sp["W"]
        order_names = None
        init = {}
        writers = [Writer(self, "w%d" % (i + 1), i) for i in range(W)]
        initial_content = b"initial contents " + bytes([65 + sp["seed"] % 26]) * (sp["seed"] % 23)
        contents = {0: initial_content}
        if sp["op"] == "create":
            # the publish under test is the initial one (no file yet)
            wr = writers[0]
            wr.opid = 1
            wr.content = b"created by w1 " * (1 + sp["seed"] % 3)
            self.events.append({"ev": "Begin", "w": wr.name, "op": "create"})
            # NodeMaker.create_mutable_file, keeping the node object so that its cap is known even if the
            # creation reports an error
            from allmydata.mutable.filenode import MutableFileNode
            newnode = MutableFileNode(wr.broker, wr.nodemaker.secret_holder, g.params, None)
            d = g.keypool.generate()
            d.addCallback(newnode.create_with_keys, MutableData(wr.content), version=self.fmt)
            self.start(wr, d)
            self.run_all()
            node0 = newnode if getattr(newnode, "_uri", None) is not None else None
        else:
            try:
                node0 = g.run(g.nodemaker.create_mutable_file(MutableData(initial_content), version=self.fmt))
            except Exception as ex:
                # the fault-free creation of the file the writers are to overwrite reported an error
                consts = {"writers": [wr.name for wr in writers], "servers": sorted(g.servers), "order": sorted(g.servers),
                          "shnums": self.shnums, "K": sp["k"], "N": sp["n"], "op": sp["op"], "fmt": sp["fmt"], "single": W == 1,
                          "init": {name: {sh: 0 for sh in self.shnums} for name in sorted(g.servers)}}
                # (on a grid with read-only servers a server policy that refuses to create new mutable shares there - loudly -
                # may make the fault-free creation of the file fail: the scenario does not apply, nothing is judged)
                return {"consts": consts, "events": [{"ev": "SetupFailed", "detail": "%s: %s" % (type(ex).__name__, str(ex)[:300]),
                                                      "tolerated": bool(sp.get("readonly"))}],
                        "meta": {"spec": {k: ([] if v is None else v) for k, v in sp.items()}, "choices": [], "seqs": {}}}
            g.drain()
            self.si = node0.get_storage_index()
            cap = node0.get_uri()
            for wr in writers:
                wr.node = wr.nodemaker.create_from_cap(cap)
                assert wr.node is not node0
            assert len({id(wr.node) for wr in writers}) == W
            if sp.get("repairer"):
                # the file needs repair (one share is gone); writer w1 is a repairer (check_and_repair), the others overwrite
                shs = g.shares(self.si)
                for sname in sorted(shs):
                    if shs[sname]:
                        os.unlink(shs[sname][sorted(shs[sname])[0]])
                        break
        for name in sorted(g.servers):
            d = self.disk(name) if self.si else {}
            init[name] = {sh: d.get(sh, 0) for sh in self.shnums}
        if sp["op"] != "create":
            g.calllog = []
            # servers whose grid-manager certificate is no longer valid when the file is written again (they were
            # permitted when it was created and hold shares): they keep their shares up to date but get no new ones
            for name in sp.get("denied", []):
                for wr in writers:
                    wr.view.servers[name].permitted = False
            if sp.get("lost_share_on"):
                for shn, pth in g.shares(self.si).get(sp["lost_share_on"], {}).items():
                    os.unlink(pth)
                for name in sorted(g.servers):
                    d = self.disk(name)
                    init[name] = {sh: d.get(sh, 0) for sh in self.shnums}
            for wr in writers:
                wr.opid = 1
                wr.content = (b"contents of %s " % wr.name.encode()) * (1 + (sp["seed"] + wr.idx) % 4)
                self.events.append({"ev": "Begin", "w": wr.name, "op": "overwrite"})
                if sp.get("repairer") and wr.idx == 0:
                    from allmydata.monitor import Monitor
                    wr.content = initial_content          # a repair republishes what is there
                    wr.repairer = True
                    self.start(wr, wr.node.check_and_repair(Monitor(), verify=False))
                else:
                    self.start(wr, wr.node.overwrite(MutableData(wr.content)))
            self.run_all()
        if sp["op"] == "create":
            # initial state for a creation: nothing anywhere (recorded before the run would be the same)
            init = {name: {sh: 0 for sh in self.shnums} for name in sorted(g.servers)}
        si = self.si
        if si is not None:
            order_names = [s.name for s in g.broker.get_servers_for_psi(si)]
        else:
            order_names = sorted(g.servers)
        final = {name: {sh: (self.disk(name).get(sh, 0) if si else 0) for sh in self.shnums} for name in sorted(g.servers)}
        # a real download by a fresh node (fault free, fifo)
        dl = -9          # -9: no cap to read with; -2: the download failed; -1: unknown contents; -3: hang
        dl_detail = ""
        newv = {e["w"]: e["newv"] for e in self.events if e["ev"] == "Publish"}
        if node0 is not None:
            try:
                g.policy = "fifo"
                rd = g.make_nodemaker().create_from_cap(node0.get_uri())
                data = g.run(rd.download_best_version())
                dl = -1
                if sp["op"] != "create" and data == initial_content:
                    dl = max(max(v.values()) for v in init.values())      # the one version present initially
                for wr in writers:
                    if data == wr.content and wr.name in newv:
                        dl = newv[wr.name]
            except Hang as ex:
                dl, dl_detail = -3, "hang"
            except Exception as ex:
                dl, dl_detail = -2, "%s: %s" % (type(ex).__name__, str(ex)[:200])
        self.events.append({"ev": "Final", "shares": final, "unfinished": [wr.name for wr in writers if wr.opid and not wr.finished],
                            "dl": dl, "dl_detail": dl_detail})
        for e in self.events:
            e.pop("_op", None)
        consts = {"writers": [wr.name for wr in writers], "servers": sorted(g.servers), "order": order_names,
                  "shnums": self.shnums, "K": sp["k"], "N": sp["n"], "init": init, "op": sp["op"], "fmt": sp["fmt"],
                  "single": W == 1, "denied": list(sp.get("denied", [])) if sp["op"] != "create" else []}
        g.close()
        shutil.rmtree(self.dir, ignore_errors=True)
        return {"consts": consts, "events": self.events,
                "meta": {"spec": {k: ([] if v is None else v) for k, v in sp.items()}, "choices": self.choices,
                         "seqs": {str(v): k[1] for k, v in self.vers.ids.items() if k[0] in "SM"}}}


def run_scenario(work, spec):
    sc = Scenario(work, spec)
    try:
        return sc.run()
    finally:
        try:
            sc.g.close()
        except Exception:
            pass
        shutil.rmtree(sc.dir, ignore_errors=True)


def dfs_schedules(work, base, max_dev, limit):
    """Stateless bounded DFS over delivery choices: a schedule is the list of choice indices (canonical order of the
    pending calls); beyond its end the first pending call is taken.  Schedules with at most max_dev non-zero choices
    are enumerated by re-execution from scratch."""
    out = []
    stack = [[]]
    seen = set()
    while stack and len(out) < limit:
        sched = stack.pop()
        key = tuple(sched)
        if key in seen:
            continue
        seen.add(key)
        spec = dict(base)
        spec["schedule"] = sched
        tr = run_scenario(work, spec)
        out.append(tr)
        choices = tr["meta"]["choices"]
        dev = sum(1 for c in sched if c)
        if dev >= max_dev:
            continue
        # children: deviate at a position after the last deviation
        start = len(sched)
        for pos in range(len(choices) - 1, start - 1, -1):
            for c in range(choices[pos] - 1, 0, -1):
                child = sched + [0] * (pos - len(sched)) + [c]
                stack.append(child)
    return out


def run_mode(work, mode, n, seed, tier):
    rng = random.Random("%s-%d" % (mode, seed))
    traces = []
    if mode == "conc":
        # (W, k, n, servers): both sides of (W+1)*k <= N, shares doubled up on servers, more servers than shares
        shapes = [(2, 1, 3, 3), (2, 2, 3, 3), (2, 1, 4, 4), (2, 1, 3, 5), (2, 2, 6, 6), (2, 1, 4, 3), (3, 1, 4, 4),
                  (2, 2, 4, 4), (3, 1, 5, 6), (3, 2, 4, 4), (2, 3, 10, 10), (3, 2, 8, 10), (2, 2, 6, 4)]
        for i in range(n):
            (W, k, nn, ns) = shapes[i % len(shapes)]
            spec = {"kind": "conc", "W": W, "k": k, "n": nn, "servers": ns, "fmt": rng.choice(["SDMF", "MDMF"]),
                    "seed": rng.randrange(10 ** 6), "op": "overwrite", "schedule": None,
                    "pfault": rng.choice([0, 0, 0, 0.1, 0.25])}
            # ("repairer": True makes w1 a repairer - check_and_repair - racing the overwriting writers.  Not generated: the
            # repairer's two surveys with a retrieve in between are not modelled by PublishProtocol.tla yet, and the unchanged
            # tree is rejected on conformance clauses; see DESIGN.md 14.2, seeded change C12_d.)
            traces.append(run_scenario(work, spec))
    elif mode == "dfs":
        bases = [(2, 1, 3, 3, "SDMF", 2), (2, 2, 3, 3, "MDMF", 2), (2, 1, 4, 3, "SDMF", 1), (3, 1, 4, 4, "MDMF", 1)]
        per = max(1, n // len(bases))
        for (W, k, nn, ns, fmt, dev) in bases:
            base = {"kind": "dfs", "W": W, "k": k, "n": nn, "servers": ns, "fmt": fmt, "seed": 1000 + seed,
                    "op": "overwrite", "pfault": 0}
            traces += dfs_schedules(work, base, dev if tier == "quick" else dev + 1, per)
    elif mode == "single":
        for i in range(n):
            ns = 1 + (i % 12)
            k, nn = rng.choice([(1, 1), (1, 2), (1, 3), (2, 3), (2, 4), (3, 5), (3, 10), (2, 2), (4, 6)])
            dead = [("s%d" % j) for j in range(ns) if rng.random() < rng.choice([0, 0.15, 0.4])]
            spec = {"kind": "single", "W": 1, "k": k, "n": nn, "servers": ns, "fmt": rng.choice(["SDMF", "MDMF"]),
                    "seed": rng.randrange(10 ** 6), "op": rng.choice(["create", "overwrite"]), "schedule": None,
                    "pfault": rng.choice([0, 0.1, 0.3, 0.5]), "dead": dead}
            if i % 4 == 2 and nn >= 3:
                # since the file was created (one share per server) some servers have lost their upload permission, and one of
                # them has also lost its share: that share needs a new home, and only permitted servers are candidates
                r3 = random.Random("denied-%d-%d" % (seed, i))
                names3 = ["s%d" % j for j in range(nn)]
                lost3 = r3.choice(names3)
                others = [x for x in names3 if x != lost3]
                spec.update(op="overwrite", servers=nn, dead=[], pfault=0, lost_share_on=lost3,
                            denied=sorted([lost3] + r3.sample(others, min(len(others) - 1, r3.choice([1, 2, 2])))))
            traces.append(run_scenario(work, spec))
    else:
        raise SystemExit("unknown mode " + mode)
    return traces


def main():
    ap = argparse.ArgumentParser()
    ap.add_argument("--out"); ap.add_argument("--seed", type=int, default=0); ap.add_argument("--tier", default="quick")
    ap.add_argument("--in", dest="inp")
    ap.add_argument("--mode", default="conc")      # comma separated: conc | dfs | single
    ap.add_argument("--n", default="50")           # comma separated, one per mode
    a = ap.parse_args()
    work = tempfile.mkdtemp(prefix="mutconc")
    publish_mod.DEFAULT_MUTABLE_MAX_SEGMENT_SIZE = 12
    traces = []
    try:
        for mode, n in zip(a.mode.split(","), [int(x) for x in a.n.split(",")]):
            got = run_mode(work, mode, n, a.seed, a.tier)
            for t in got:
                t["meta"]["mode"] = mode
            traces += got
    finally:
        shutil.rmtree(work, ignore_errors=True)
    with open(a.out, "w") as f:
        json.dump(traces, f)


if __name__ == "__main__":
    main()
