"""Driver for C09: one writer's operations on real mutable files (SDMF and MDMF with
6-byte segments: DEFAULT_MUTABLE_MAX_SEGMENT_SIZE = 6, k = 2) on a SimGrid with a
seeded delivery order.  Every operation and what it returned is recorded as one
event of spec/mutable/TraceMutableOps.tla; nothing is judged here.

  --mode seeded --n N --ops K     seeded sessions: create + up to K operations with offsets / lengths
                                  around segment boundaries and power-of-two segment counts
  --mode cases  --in cases.json   replay of Spec-generated single-update cases (GenMutableOps.tla)
"""
import os as _os
_os.environ.setdefault("VERIF_ASYNC_CPU", "1")   # CPU-bound steps (decode, decrypt, hashing) finish one reactor turn later, as in production
from vreactor import vr, settle
import argparse, json, os, random, shutil, sys, tempfile

from grid import Grid, Hang
import allmydata.mutable.publish as publish_mod
from allmydata.mutable.publish import MutableData
from allmydata.interfaces import SDMF_VERSION, MDMF_VERSION
from allmydata.util.consumer import MemoryConsumer

SS = 6
MAXLEN = 64
publish_mod.DEFAULT_MUTABLE_MAX_SEGMENT_SIZE = SS


def attempt(g, mk):
    """Run the Deferred made by mk(); -> ("ok", result) | ("err", ExceptionName)."""
    try:
        return "ok", g.run(mk())
    except Hang as e:
        g.pending = []
        return "err", "Hang"
    except Exception as e:
        return "err", type(e).__name__


class Session:
    def __init__(self, workdir, fmt, seed, order_seed, via="node"):
        self.g = Grid(workdir, num_servers=5, k=2, n=4, happy=2, seed=seed)
        self.g.policy = random.Random(order_seed)
        self.fmt = fmt
        self.events = []
        self.node = None
        # via = "web": overwrite / in-place update / download go through the gateway's web API
        # (PUT /uri/CAP, PUT /uri/CAP?offset=N, GET /uri/CAP), the production caller of MutableFileVersion.update
        self.via = via
        self.web = None
        if via == "web":
            from webgrid import WebGrid
            self.web = WebGrid(grid=self.g)

    def webreq(self, method, suffix="", body=None):
        from webgrid import q
        try:
            r = self.web.request(method, "/uri/" + q(self.node.get_uri().decode("ascii")) + suffix, body=body)
        except Hang:
            self.g.pending = []
            return "err", "Hang", b""
        except Exception as e:
            return "err", type(e).__name__, b""
        if 200 <= r.code < 300 and not r.error:
            return "ok", "", r.body
        return "err", "HTTP%d" % r.code, r.body

    def reconfigure(self, k, n):
        """the client comes back with other default encoding parameters (shares.needed / shares.total edited between two
        runs of the node): the file is opened again by its cap through a new node object.  What the file holds does not
        depend on the client's defaults."""
        self.g.params["k"], self.g.params["n"] = k, n
        self.node = self.g.make_nodemaker().create_from_cap(self.node.get_uri())

    def close(self):
        self.g.close()

    def ev(self, **kw):
        self.events.append(kw)

    def create(self, data):
        ver = MDMF_VERSION if self.fmt == "MDMF" else SDMF_VERSION
        st, r = attempt(self.g, lambda: self.g.nodemaker.create_mutable_file(MutableData(bytes(data)), version=ver))
        self.ev(ev="Create", data=list(data), st=st, error="" if st == "ok" else r)
        if st == "ok":
            self.node = r
        return st == "ok"

    def overwrite(self, data):
        if self.web:
            st, r, _b = self.webreq("PUT", "", bytes(data))
            self.ev(ev="Overwrite", data=list(data), st=st, error=r)
            return
        st, r = attempt(self.g, lambda: self.node.overwrite(MutableData(bytes(data))))
        self.ev(ev="Overwrite", data=list(data), st=st, error="" if st == "ok" else r)

    def modify(self, m):
        def modifier(old, servermap, first_time):
            if m["fn"] == "append":
                return old + bytes(m["data"])
            if m["fn"] == "prepend":
                return bytes(m["data"]) + old
            if m["fn"] == "truncate":
                return old[:m["n"]]
            return old
        st, r = attempt(self.g, lambda: self.node.modify(modifier))
        self.ev(ev="Modify", m=m, st=st, error="" if st == "ok" else r)

    def update(self, data, off):
        if self.web:
            st, r, _b = self.webreq("PUT", "?offset=%d" % off, bytes(data))
            self.ev(ev="Update", data=list(data), o=off, st=st, error=r)
            return

        def mk():
            d = self.node.get_best_mutable_version()
            d.addCallback(lambda mv: mv.update(MutableData(bytes(data)), off))
            return d
        st, r = attempt(self.g, mk)
        self.ev(ev="Update", data=list(data), o=off, st=st, error="" if st == "ok" else r)

    def download(self):
        if self.web:
            st, r, body = self.webreq("GET")
            self.ev(ev="Download", res=list(body) if st == "ok" else [], st=st, error=r)
            return
        st, r = attempt(self.g, lambda: self.node.download_best_version())
        self.ev(ev="Download", res=list(r) if st == "ok" else [], st=st, error="" if st == "ok" else r)

    def read(self, off, n):
        def mk():
            d = self.node.get_best_readable_version()
            c = MemoryConsumer()
            d.addCallback(lambda v: v.read(c, off, None if n < 0 else n))
            d.addCallback(lambda c2: b"".join(c2.chunks))
            return d
        st, r = attempt(self.g, mk)
        self.ev(ev="Read", o=off, n=n, res=list(r) if st == "ok" else [], st=st, error="" if st == "ok" else r)


def boundary_values(limit):
    vals = {0, 1, limit - 1, limit}
    for m in range(SS, limit + SS + 1, SS):
        vals.update([m - 1, m, m + 1])
    return sorted(v for v in vals if 0 <= v <= limit)


def pick_update(rng, size, fmt, clean):
    """offset, length around segment boundaries.  clean: stay away from the inputs of the known defects
    (MDMF append exactly at a segment boundary / to an empty file, SDMF update of an empty file)."""
    offs = boundary_values(size)
    if rng.random() < 0.2:
        offs = list(range(0, size + 1))
    if clean:
        if fmt == "MDMF" and size % SS == 0:
            offs = [o for o in offs if o != size]
        if fmt == "SDMF" and size == 0:
            offs = []
    if not offs:
        return None
    off = rng.choice(offs)
    room = MAXLEN - off
    lens = {1, 2, SS - 1, SS, SS + 1, 2 * SS, 2 * SS + 1}
    for m in range(SS, MAXLEN + 1, SS):            # end exactly at / around a segment boundary
        lens.update([m - off - 1, m - off, m - off + 1])
    for segs in (1, 2, 4, 8):                      # grow to a power-of-two segment count (and one past it)
        lens.update([segs * SS - off, segs * SS + 1 - off])
    lens = sorted(l for l in lens if 1 <= l <= room)
    if not lens:
        return None
    return off, rng.choice(lens)


def pick_read(rng, size):
    if size == 0:
        return (0, -1)
    off = rng.choice([o for o in boundary_values(size) if o < size])
    ends = [e for e in boundary_values(size) if e > off]
    end = rng.choice(ends)
    return (off, -1) if (end == size and rng.random() < 0.5) else (off, end - off)


def seeded_session(seed, idx, nops, workroot):
    rng = random.Random("c09/%d/%d" % (seed, idx))
    fmt = "MDMF" if idx % 3 else "SDMF"
    # clean sessions avoid the inputs of the known defects and let the node see the size after every
    # size-changing modify/update (download), so that they are validated to the end
    clean = (idx % 4 != 1)
    s = Session(os.path.join(workroot, "s%d" % idx), fmt, idx, rng.random(), via="web" if idx % 5 == 3 else "node")
    try:
        size = rng.choice([0, 1, 5, 6, 7, 11, 12, 13, 18, 23, 24, 25, 30, 36, 47, 48])
        wid = 1
        ok = s.create([wid] * size)
        if not ok:
            return {"consts": {"fmt": fmt, "ss": SS, "session": idx}, "events": s.events}
        if idx % 6 == 4 and s.via == "node":
            # every sixth session: after the creation the client's default encoding is no longer the file's (2-of-4)
            k2, n2 = random.Random("reconf-%d-%d" % (seed, idx)).choice([(3, 4), (1, 4), (3, 5), (4, 5)])
            s.reconfigure(k2, n2)
        for i in range(rng.randint(3, nops)):
            wid += 1
            kind = rng.choice(["update", "update", "update", "update", "read", "read", "download", "overwrite", "modify"])
            if kind == "update":
                p = pick_update(rng, size, fmt, clean)
                if p is None:
                    kind = "download"
                else:
                    off, ln = p
                    s.update([wid] * ln, off)
                    if s.events[-1]["st"] == "ok":
                        size = max(size, off + ln)
                    if clean or rng.random() < 0.3:
                        s.download()
            if kind == "read":
                off, n = pick_read(rng, size)
                s.read(off, n)
            elif kind == "download":
                s.download()
            elif kind == "overwrite":
                size = rng.choice([0, 1, 6, 7, 12, 13, 24, 25, 36])
                s.overwrite([wid] * size)
            elif kind == "modify":
                m = rng.choice([{"fn": "append", "data": [wid] * rng.choice([1, 5, 6, 7]), "n": 0},
                                {"fn": "prepend", "data": [wid], "n": 0},
                                {"fn": "truncate", "data": [], "n": rng.choice([0, 5, 6, 7, 12])},
                                {"fn": "noop", "data": [], "n": 0}])
                if m["fn"] == "append" and size + len(m["data"]) > MAXLEN:
                    m = {"fn": "noop", "data": [], "n": 0}
                if m["fn"] == "prepend" and size + 1 > MAXLEN:
                    m = {"fn": "noop", "data": [], "n": 0}
                s.modify(m)
                size = {"append": size + len(m["data"]), "prepend": size + 1, "truncate": min(size, m["n"]), "noop": size}[m["fn"]]
                if clean:
                    s.download()
        s.download()
        off, n = pick_read(rng, size)
        s.read(off, n)
        return {"consts": {"fmt": fmt, "ss": SS, "session": idx, "family": "seeded", "clean": clean},
                "events": s.events}
    finally:
        s.close()
        shutil.rmtree(os.path.join(workroot, "s%d" % idx), ignore_errors=True)


def case_session(seed, i, case, workroot):
    rng = random.Random("c09case/%d/%d" % (seed, i))
    fmt = "MDMF" if (i % 5) else "SDMF"
    s = Session(os.path.join(workroot, "c%d" % i), fmt, i, rng.random())
    try:
        if s.create(case["old"]):
            s.update(case["data"], case["o"])
            s.download()
            size = len(case["expect"])
            for _ in range(2):
                off, n = pick_read(rng, size)
                s.read(off, n)
            # the file must remain updatable and readable after the in-place update
            p = pick_update(rng, size, fmt, True)
            if p is not None:
                s.update([8] * p[1], p[0])
                s.download()
        return {"consts": {"fmt": fmt, "ss": SS, "family": "case", "case": {k: case[k] for k in ("n", "o", "len", "class", "pow2")}},
                "events": s.events}
    finally:
        s.close()
        shutil.rmtree(os.path.join(workroot, "c%d" % i), ignore_errors=True)


def main():
    ap = argparse.ArgumentParser()
    ap.add_argument("--out", required=True)
    ap.add_argument("--seed", type=int, default=0)
    ap.add_argument("--tier", default="quick")
    ap.add_argument("--in", dest="inp")
    ap.add_argument("--mode", default="seeded")
    ap.add_argument("--n", type=int, default=50)
    ap.add_argument("--ops", type=int, default=8)
    a = ap.parse_args()
    workroot = tempfile.mkdtemp(prefix="c09drv")
    traces = []
    try:
        if a.mode == "seeded":
            for idx in range(a.n):
                traces.append(seeded_session(a.seed, idx, a.ops, workroot))
        else:
            with open(a.inp) as f:
                cases = json.load(f)["cases"]
            for i, c in enumerate(cases):
                traces.append(case_session(a.seed, i, c, workroot))
    finally:
        shutil.rmtree(workroot, ignore_errors=True)
    with open(a.out, "w") as f:
        json.dump(traces, f)


if __name__ == "__main__":
    main()
