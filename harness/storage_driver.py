"""Drive a real allmydata StorageServer (behind FoolscapStorageServer) through
seeded histories and record one event per Storage.tla operator, with the
server's answer and an observation of the touched storage index read back from
the share files.  Output: list of traces for TraceStorage.tla.

Profiles weight the operations: imm (C22/C28), mut (C23/C24), lease (C25).
"""
import argparse, json, os, random, shutil, struct, sys, tempfile

from vreactor import vr
from twisted.internet import error as terror
from allmydata.storage.server import StorageServer, FoolscapStorageServer
from allmydata.storage.immutable import ShareFile
from allmydata.storage.mutable import MutableShareFile
from allmydata.storage.common import storage_index_to_dir
from allmydata.interfaces import ConflictingWriteError, DataTooLargeError, BadWriteEnablerError, NoSpace
from allmydata.util import fileutil

SHNUMS = ["0", "1", "2"]
RS = {"r%d" % i: bytes([0x10 + i]) * 32 for i in range(7)}
CS = {"c%d" % i: bytes([0x20 + i]) * 32 for i in range(3)}
WE = {"wA": b"A" * 32, "wB": b"B" * 32}
SI = {"i0": b"\x01" * 16, "i1": b"\x5a" * 16, "m0": b"\x77" * 16, "m1": b"\xe3" * 16}


class Canary:
    def __init__(self):
        self.cbs = {}
        self.n = 0

    def notifyOnDisconnect(self, cb, *a, **kw):
        self.n += 1
        self.cbs[self.n] = (cb, a, kw)
        return self.n

    def dontNotifyOnDisconnect(self, marker):
        self.cbs.pop(marker, None)

    def fire(self):
        cbs, self.cbs = self.cbs, {}
        for cb, a, kw in cbs.values():
            cb(*a, **kw)


class Disk:
    """Simulated disk behind fileutil.get_available_space: capacity is set by the scenario, used space is the
    number of share data bytes actually written (sparse files: holes cost nothing, headers/leases ignored)."""
    def __init__(self, scenario):
        self.capacity = 10 ** 6
        self.sc = scenario
        self.last = None

    def used(self):
        return self.sc.bytes_on_disk()

    def __call__(self, whichdir, reserved):
        self.last = max(0, self.capacity - self.used() - reserved)
        return self.last

    failing = False      # the OS call behind get_disk_stats fails (EIO on a flaky disk): the server must assume "no room"

    def stats(self, whichdir, reserved_space=0):
        """stand-in for fileutil.get_disk_stats (the real get_available_space sits on top of it)"""
        if self.failing:
            import errno
            raise OSError(errno.EIO, "injected: statvfs failed")
        free = max(0, self.capacity - self.used())
        return {"total": self.capacity, "free_for_root": free, "free_for_nonroot": free, "used": self.used(),
                "avail": max(free - reserved_space, 0)}


def b2l(b):
    return list(b)


def l2b(l):
    return bytes(l)


def small_append_wanted(sc, si):
    return sc.hot == si


class Scenario:
    def __init__(self, rng, workdir, profile, nevents):
        self.rng = rng
        self.profile = profile
        self.dir = tempfile.mkdtemp(prefix="srv", dir=workdir)
        self.disk = Disk(self)
        fileutil.get_disk_stats = self.disk.stats        # fileutil.get_available_space itself stays the real one
        self.writers = {}
        self.wstate = {}      # wid -> {"written": set(), "final": bool}
        self.reserved = rng.choice([0, 0, 7, 1000])
        self.readonly = (profile == "imm" and rng.random() < 0.08)
        self.limited = (profile == "imm" and rng.random() < 0.6)
        self.disk.capacity = self.reserved + (rng.randint(0, 14) if self.limited else 10 ** 6)
        # lease profile: the disk fills up (and empties) while shares with leases exist -- a renewal needs no space
        self.fills = (profile in ("lease", "mut") and rng.random() < 0.5)
        self.t0 = vr.seconds()
        self.ss = StorageServer(self.dir, b"\x00" * 20, reserved_space=self.reserved,
                                readonly_storage=self.readonly, clock=vr)
        self.fss = FoolscapStorageServer(self.ss)
        self.canaries = {"k0": Canary(), "k1": Canary()}
        self.nw = 0
        self.events = []
        self.nevents = nevents
        self.sisI = ["i0", "i1"]
        self.sisM = ["m0", "m1"]

    # ---------- observation of the real on-disk state ----------
    def lease_ids(self, leases):
        out = []
        for l in leases:
            rs = [k for k, v in RS.items() if l.is_renew_secret(v)]
            cs = [k for k, v in CS.items() if l.is_cancel_secret(v)]
            out.append({"rs": rs[0] if rs else "unknown", "cs": cs[0] if cs else "unknown",
                        "exp": int(l.get_expiration_time() - self.t0)})
        return sorted(out, key=lambda x: x["rs"])

    def obs_imm(self, si):
        d = os.path.join(self.ss.sharedir, storage_index_to_dir(SI[si]))
        inc = os.path.join(self.ss.incomingdir, storage_index_to_dir(SI[si]))
        o = {}
        for sh in SHNUMS:
            fp, ip = os.path.join(d, sh), os.path.join(inc, sh)
            if os.path.exists(fp):
                sf = ShareFile(fp)
                o[sh] = {"st": "final", "data": b2l(sf.read_share_data(0, 10 ** 6)), "leases": self.lease_ids(sf.get_leases())}
            elif os.path.exists(ip):
                o[sh] = {"st": "incoming", "data": [], "leases": []}
            else:
                o[sh] = {"st": "absent", "data": [], "leases": []}
        return o

    def obs_mut(self, si):
        d = os.path.join(self.ss.sharedir, storage_index_to_dir(SI[si]))
        o = {}
        for sh in SHNUMS:
            fp = os.path.join(d, sh)
            if os.path.exists(fp):
                m = MutableShareFile(fp, self.ss)
                with open(fp, "rb") as f:
                    we, _ = m._read_write_enabler_and_nodeid(f)
                wid = [k for k, v in WE.items() if v == we]
                o[sh] = {"present": True, "data": b2l(m.readv([(0, 10 ** 6)])[0]), "we": wid[0] if wid else "unknown",
                         "leases": self.lease_ids(m.get_leases())}
            else:
                o[sh] = {"present": False, "data": [], "we": "none", "leases": []}
        return o

    def cleartext(self, si):
        """C25: do the raw container bytes of this storage index contain a lease secret in cleartext?"""
        d = os.path.join(self.ss.sharedir, storage_index_to_dir(SI[si]))
        if not os.path.isdir(d):
            return False
        for fn in os.listdir(d):
            with open(os.path.join(d, fn), "rb") as f:
                raw = f.read()
            if any(v in raw for v in list(RS.values()) + list(CS.values())):
                return True
        return False

    def obs(self, si):
        return self.obs_imm(si) if si in self.sisI else self.obs_mut(si)

    def inprogress(self):
        return self.ss.allocated_size()

    def bytes_on_disk(self):
        """share bytes held by uploads in progress and by completed shares (disk simulator)"""
        n = 0
        for wid, (fw, size) in self.writers.items():
            bw = fw._bucket_writer
            st = self.wstate[wid]
            if not bw.closed:
                n += len(st["written"])
            else:
                if not st["settled"]:
                    st["settled"] = True
                    st["final"] = os.path.exists(bw.finalhome) and not any(
                        o["final"] and o["path"] == bw.finalhome for w2, o in self.wstate.items() if w2 != wid)
                if st["final"]:
                    n += len(st["written"])
        return n

    def avail(self):
        return 0 if (self.readonly or self.disk.failing) else max(0, self.disk.capacity - self.bytes_on_disk() - self.reserved)

    def log(self, ev, si=None, **kw):
        e = {"ev": ev}
        if si is not None:
            e["si"] = si
            e["obs"] = self.obs(si)
            e["clear"] = self.cleartext(si)
        e.update(kw)
        self.events.append(e)

    # ---------- helpers to keep the driver inside the specified domain ----------
    def would_need_lease_space(self, si, rs, size):
        """adding (not renewing) a lease on an existing share when the disk is too full raises
        NoSpace after an iteration-order dependent prefix of renewals: not generated."""
        avail = self.avail()
        if avail >= size:
            return False
        o = self.obs(si)
        for sh, s in o.items():
            if (s.get("st") == "final" or s.get("present")) and rs not in [l["rs"] for l in s["leases"]]:
                return True
        return False

    # ---------- operations ----------
    def op_allocate(self):
        r = self.rng
        si = r.choice(self.sisI)
        rs, cs = r.choice(list(RS)), r.choice(list(CS))
        if self.would_need_lease_space(si, rs, 72):
            return
        shnums = sorted(r.sample(SHNUMS, r.randint(0, 3)))
        size = r.randint(1, 5)
        conn = r.choice(list(self.canaries))
        free_before = self.avail()
        already, writers = self.fss.remote_allocate_buckets(SI[si], RS[rs], CS[cs], set(int(s) for s in shnums), size,
                                                            self.canaries[conn])
        alloc = {}
        for sh, w in sorted(writers.items()):
            self.nw += 1
            wid = "w%d" % self.nw
            self.writers[wid] = (w, size)
            self.wstate[wid] = {"written": set(), "final": False, "settled": False, "path": w._bucket_writer.finalhome, "si": si}
            alloc[str(sh)] = wid
        self.log("Allocate", si, rs=rs, cs=cs, shnums=shnums, size=size, conn=conn, free=free_before,
                 inprog=self.inprogress(), res={"already": sorted(str(s) for s in already), "allocated": alloc})

    def open_wids(self):
        return {w for w, (fw, _) in self.writers.items() if not fw._bucket_writer.closed}

    def pick_writer(self):
        if not self.writers:
            return None
        r = self.rng
        open_w = [w for w, (fw, _) in self.writers.items() if not fw._bucket_writer.closed]
        if open_w and r.random() < 0.85:
            return r.choice(open_w)
        return r.choice(list(self.writers))

    def op_write(self):
        wid = self.pick_writer()
        if wid is None:
            return
        r = self.rng
        fw, size = self.writers[wid]
        off = r.randint(0, size) if r.random() < 0.9 else size + 1
        ln = r.choice([0, 1, 1, 2, 2, 3, size, size + 1])
        data = [r.choice([0, 1]) if r.random() < 0.85 else r.choice([2, 3]) for _ in range(ln)]
        try:
            fw.remote_write(off, l2b(data))
            res = "ok"
            self.wstate[wid]["written"].update(range(off, off + len(data)))
        except ConflictingWriteError:
            res = "conflict"
        except DataTooLargeError:
            res = "toolarge"
        except (AssertionError, terror.AlreadyCancelled, terror.AlreadyCalled):
            res = "closed"
        self.log("Write", self.wstate[wid]["si"], wid=wid, off=off, data=data, res=res, inprog=self.inprogress())

    def op_close(self):
        wid = self.pick_writer()
        if wid is None:
            return
        fw, _ = self.writers[wid]
        try:
            fw.remote_close()
            res = "ok"
        except (AssertionError, terror.AlreadyCancelled, terror.AlreadyCalled):
            res = "closed"
        self.log("Close", self.wstate[wid]["si"], wid=wid, res=res, inprog=self.inprogress())

    def op_abort(self):
        wid = self.pick_writer()
        if wid is None:
            return
        fw, _ = self.writers[wid]
        fw.remote_abort()
        self.log("Abort", self.wstate[wid]["si"], wid=wid, res="ok", inprog=self.inprogress())

    def op_advance(self):
        dt = self.rng.choice([1, 60, 600, 900, 1200, 1800, 1801])
        if self.profile == "lease" and self.rng.random() < 0.3:
            dt = -self.rng.choice([1, 5000, 100000])      # the server's clock steps back (NTP): expiry must not follow
        before = self.open_wids()
        vr.advance(dt)
        self.log("Advance", dt=dt, inprog=self.inprogress(), closed=sorted(before - self.open_wids()),
                 obsall={si: self.obs(si) for si in self.sisI})

    def op_disconnect(self):
        conn = self.rng.choice(list(self.canaries))
        before = self.open_wids()
        self.canaries[conn].fire()
        self.log("Disconnect", conn=conn, inprog=self.inprogress(), closed=sorted(before - self.open_wids()),
                 obsall={si: self.obs(si) for si in self.sisI})

    def op_getbuckets(self):
        si = self.rng.choice(self.sisI)
        bs = self.fss.remote_get_buckets(SI[si])
        self.log("GetBuckets", si, res=sorted(str(k) for k in bs))

    def op_read(self):
        r = self.rng
        si = r.choice(self.sisI)
        bs = self.fss.remote_get_buckets(SI[si])
        if not bs:
            return
        sh = r.choice(sorted(bs))
        off, ln = r.randint(0, 6), r.randint(0, 7)
        data = bs[sh].remote_read(off, ln)
        self.log("Read", si, sh=str(sh), off=off, len=ln, res=b2l(data))

    def op_setfree(self):
        r = self.rng
        if self.profile in ("lease", "mut"):
            if not self.fills:
                return
            self.disk.capacity = self.reserved + (r.randint(0, 14) if r.random() < 0.6 else 10 ** 6)
            self.log("SetFree", capacity=self.disk.capacity)
            return
        if not self.limited and r.random() < 0.7:
            return
        if self.disk.failing or r.random() < 0.12:
            # the disk statistics call starts / stops failing: while it fails the server has to act as if nothing were free
            self.disk.failing = not self.disk.failing
            if self.disk.failing:
                self.log("SetFree", capacity=0, statvfs="fails")
                return
        self.disk.capacity = self.reserved + r.randint(0, 14)
        self.log("SetFree", capacity=self.disk.capacity)

    def op_addlease(self):
        r = self.rng
        si = r.choice(self.sisI + self.sisM if self.profile == "lease" else (self.sisI if self.profile == "imm" else self.sisM))
        rs, cs = r.choice(list(RS)), r.choice(list(CS))
        if self.avail() < 92 and r.random() < 0.8:
            # the disk is full: prefer a secret every share of the bucket already knows (a pure renewal needs no space)
            held = [set(l["rs"] for l in sh_["leases"]) for sh_ in self.obs(si).values() if sh_.get("st") == "final" or sh_.get("present")]
            common = sorted(set.intersection(*held)) if held else []
            if common:
                rs = r.choice(common)
        if self.would_need_lease_space(si, rs, 92):
            return
        self.fss.remote_add_lease(SI[si], RS[rs], CS[cs])
        self.log("AddLease", si, rs=rs, cs=cs)

    def op_renew(self):
        r = self.rng
        si = r.choice(self.sisI + self.sisM if self.profile == "lease" else (self.sisI if self.profile == "imm" else self.sisM))
        rs = r.choice(list(RS))
        try:
            self.fss.remote_renew_lease(SI[si], RS[rs])
            res = "ok"
        except IndexError:
            res = "error"
        self.log("RenewLease", si, rs=rs, res=res)

    def rand_bytes(self, n):
        return [self.rng.choice([0, 1, 2, 3]) for _ in range(n)]

    def preamble_many_leases(self):
        """lease profile: a mutable slot that carries more leases than the four header slots hold (the rest live in the
        extra-lease area behind the data), so that later small writes move that area"""
        r = self.rng
        si = "m0"
        self.hot = si
        self.forced = {"si": si, "we": r.choice(list(WE)), "shares": r.sample(SHNUMS, r.choice([1, 1, 2])), "create": True}
        self.op_rtw()
        for rs in r.sample(list(RS), min(len(RS), r.randint(4, 7))):
            cs = r.choice(list(CS))
            self.fss.remote_add_lease(SI[si], RS[rs], CS[cs])
            self.log("AddLease", si, rs=rs, cs=cs)

    hot = None
    forced = None

    def op_rtw(self, via_server=False):
        r = self.rng
        si = r.choice(self.sisM)
        if self.hot and r.random() < 0.6:
            si = self.hot
        forced, self.forced = self.forced, None
        if forced:
            si = forced["si"]
        cur = self.obs_mut(si)
        existing_we = [s["we"] for s in cur.values() if s["present"]]
        if existing_we and (r.random() < 0.85 or small_append_wanted(self, si)):
            we = existing_we[0]
        else:
            we = r.choice(list(WE))
        if forced:
            we = forced["we"]
        rs, cs = r.choice(list(RS)), r.choice(list(CS))
        if self.would_need_lease_space(si, rs, 92):
            return
        tw = {}
        small_append = bool(self.hot == si and not forced and r.random() < 0.6)
        for sh in (forced["shares"] if forced else r.sample(SHNUMS, r.choice([0, 1, 1, 1, 2, 2, 3]))):
            data = cur[sh]["data"]
            test = []
            if forced or small_append:
                # creation / a small append at the end of the data (the container grows by a few bytes)
                writes = [{"off": len(data), "data": self.rand_bytes(r.choice([1, 2, 3, 5]))}]
                tw[sh] = {"test": [], "writes": writes, "newlen": -1}
                continue
            for _ in range(r.choice([0, 0, 1, 1, 2])):
                off = r.randint(0, max(1, len(data) + 1))
                ln = r.randint(0, 4)
                if r.random() < 0.75:
                    spec = data[off:off + ln]       # a test that passes
                else:
                    spec = self.rand_bytes(r.randint(0, 3))
                test.append({"off": off, "len": ln, "spec": spec})
            writes = []
            for _ in range(r.choice([0, 1, 1, 2, 3])):
                far = r.random() < 0.15
                off = r.randint(0, len(data) + 3) if not far else r.randint(10, 40)
                writes.append({"off": off, "data": self.rand_bytes(r.choice([0, 1, 2, 3, 5]))})
            newlen = r.choice([-1, -1, -1, 0, 1, 2, 4, 8, 50]) if r.random() < 0.5 else -1
            tw[sh] = {"test": test, "writes": writes, "newlen": newlen}
        rv = [{"off": r.randint(0, 8), "len": r.randint(0, 9)} for _ in range(r.choice([0, 1, 2]))]
        renew = True
        twv = {int(sh): ([(t["off"], t["len"], b"eq", l2b(t["spec"])) for t in v["test"]],
                         [(w["off"], l2b(w["data"])) for w in v["writes"]],
                         None if v["newlen"] < 0 else v["newlen"]) for sh, v in tw.items()}
        rvv = [(x["off"], x["len"]) for x in rv]
        secrets = (WE[we], RS[rs], CS[cs])
        try:
            if via_server:
                renew = r.random() < 0.5
                ok, rd = self.ss.slot_testv_and_readv_and_writev(SI[si], secrets, twv, rvv, renew_leases=renew)
            else:
                ok, rd = self.fss.remote_slot_testv_and_readv_and_writev(SI[si], secrets, twv, rvv)
            res = {"status": "ok" if ok else "fail", "reads": {str(k): [b2l(x) for x in v] for k, v in rd.items()}}
        except BadWriteEnablerError:
            res = {"status": "badwe", "reads": {}}
        self.log("RTW", si, we=we, rs=rs, cs=cs, tw=tw, rv=rv, renew=renew, res=res)

    def op_readv(self):
        r = self.rng
        si = r.choice(self.sisM)
        shs = sorted(r.sample(SHNUMS, r.choice([0, 0, 1, 2, 3])))
        rv = [{"off": r.randint(0, 8), "len": r.randint(0, 60)} for _ in range(r.choice([1, 1, 2]))]
        rd = self.fss.remote_slot_readv(SI[si], [int(s) for s in shs], [(x["off"], x["len"]) for x in rv])
        self.log("Readv", si, shares=shs, rv=rv, res={str(k): [b2l(x) for x in v] for k, v in rd.items()})

    def op_craft_enabler(self):
        """A share whose enabler differs from its siblings (as after a migration): rewrite the
        header field directly on disk.  Environment action, logged so the Spec follows."""
        r = self.rng
        si = r.choice(self.sisM)
        cur = self.obs_mut(si)
        present = [sh for sh in SHNUMS if cur[sh]["present"]]
        if not present:
            return
        sh = r.choice(present)
        we = r.choice(list(WE))
        fp = os.path.join(self.ss.sharedir, storage_index_to_dir(SI[si]), sh)
        with open(fp, "rb+") as f:
            f.seek(32 + 20)
            f.write(WE[we])
        self.log("CraftEnabler", si, sh=sh, we=we)

    def run(self):
        p = self.profile
        if p == "imm":
            table = [(self.op_allocate, 20), (self.op_write, 30), (self.op_close, 10), (self.op_abort, 5),
                     (self.op_advance, 6), (self.op_disconnect, 3), (self.op_getbuckets, 6), (self.op_read, 10),
                     (self.op_setfree, 5), (self.op_addlease, 3), (self.op_renew, 3)]
        elif p == "mut":
            table = [(self.op_rtw, 50), (lambda: self.op_rtw(True), 10), (self.op_readv, 20), (self.op_advance, 4),
                     (self.op_addlease, 5), (self.op_renew, 5), (self.op_craft_enabler, 3), (self.op_setfree, 5)]
        else:
            table = [(self.op_allocate, 12), (self.op_write, 6), (self.op_close, 12), (self.op_advance, 15),
                     (self.op_addlease, 20), (self.op_renew, 20), (self.op_rtw, 15), (lambda: self.op_rtw(True), 8),
                     (self.op_getbuckets, 2), (self.op_setfree, 7)]
        ops = [o for o, w in table for _ in range(w)]
        if p == "lease" and self.rng.random() < 0.35:
            try:
                self.preamble_many_leases()
            except Exception as e:
                import traceback
                self.events.append({"ev": "Crash", "op": "preamble", "family": "C23_C24_C25", "exc": type(e).__name__, "tb": traceback.format_exc()[-600:]})
        guard = 0
        fam = {"op_allocate": "C22_C28", "op_write": "C22", "op_close": "C22_C28", "op_abort": "C22_C28", "op_advance": "C22_C28",
               "op_disconnect": "C22_C28", "op_getbuckets": "C22", "op_read": "C22", "op_addlease": "C25", "op_renew": "C25",
               "op_rtw": "C23_C24_C25", "op_readv": "C23", "<lambda>": "C23_C24_C25"}
        while len(self.events) < self.nevents and guard < self.nevents * 20:
            guard += 1
            op = self.rng.choice(ops)
            try:
                op()
            except Exception as e:      # the code under test raised something the Spec has no answer for
                import traceback
                self.events.append({"ev": "Crash", "op": getattr(op, "__name__", "op"), "family": fam.get(getattr(op, "__name__", ""), "C22_C23_C24_C25_C28"),
                                    "exc": type(e).__name__, "tb": traceback.format_exc()[-600:]})
                break
        tr = {"consts": {"sisI": self.sisI, "sisM": self.sisM, "shnums": SHNUMS, "readonly": self.readonly,
                         "capacity0": 0,
                         "profile": p},
              "events": self.events}
        return tr

    def cleanup(self):
        for c in list(vr.getDelayedCalls()):
            c.cancel()
        shutil.rmtree(self.dir, ignore_errors=True)


def main():
    ap = argparse.ArgumentParser()
    ap.add_argument("--out"); ap.add_argument("--seed", type=int, default=0); ap.add_argument("--tier", default="quick")
    ap.add_argument("--in", dest="inp")
    ap.add_argument("--profile", default="imm"); ap.add_argument("--n", type=int, default=100); ap.add_argument("--events", type=int, default=25)
    a = ap.parse_args()
    rng = random.Random("%s-%d" % (a.profile, a.seed))
    vr.advance(1000000000)      # a realistic epoch: the lease profile steps the clock back, expiry must stay positive
    work = tempfile.mkdtemp(prefix="stor")
    traces = []
    try:
        for i in range(a.n):
            sc = Scenario(rng, work, a.profile, a.events)
            cap0 = sc.disk.capacity
            try:
                tr = sc.run()
                tr["consts"]["capacity0"] = cap0
                tr["consts"]["reserved"] = sc.reserved
                traces.append(tr)
            finally:
                sc.cleanup()
    finally:
        shutil.rmtree(work, ignore_errors=True)
    with open(a.out, "w") as f:
        json.dump(traces, f)


if __name__ == "__main__":
    main()
