"""Driver for the extra `servermap_modes`: real servermap updates in all five modes.

Builds real SDMF / MDMF files on a SimGrid (world construction, share forging and field
tampering are those of harness/mutread_driver.py), lays shares of several versions out along
the permuted server list (gaps, late shares, duplicates, competitors, shares without a valid
signature, damaged private keys), lets chosen servers fail their queries, and runs the real
ServermapUpdater (MODE_CHECK / ANYTHING / WRITE / READ / REPAIR) on fresh servermaps and on
servermaps left by an earlier update (after the layout changed, after mark_bad_share).

Everything is observed from outside the updater: the queries it sends are the `slot_readv`
calls parked on the grid, an answer counts as processed when the call (and the follow-up reads
it triggered) has been delivered, and the servermap is read through its public methods after
every processed answer and when update() fires.  The traces are judged by TLC
(spec/mutable/TraceServermapModes.tla); this file computes no verdicts.
"""
from vreactor import vr, settle  # noqa: F401  (must be first)
import argparse, json, os, random, shutil

import mutread_driver as md
from grid import Grid
from twisted.python.failure import Failure
from allmydata.mutable.servermap import ServermapUpdater, ServerMap
from allmydata.mutable.common import MODE_CHECK, MODE_ANYTHING, MODE_WRITE, MODE_READ, MODE_REPAIR
from allmydata.mutable.publish import MutableData
from allmydata.monitor import Monitor

MODES = {"CHECK": MODE_CHECK, "ANYTHING": MODE_ANYTHING, "WRITE": MODE_WRITE, "READ": MODE_READ, "REPAIR": MODE_REPAIR}
UNKNOWN_VID = md.UNKNOWN_VID
PREFIX_KINDS = ["seq", "roothash", "segsize", "datalen"]


def vid(w, verinfo):
    return w.vid_of((verinfo[0], bytes(verinfo[1]))) or UNKNOWN_VID


def snapshot(w, sm):
    """the ServerMap as its public methods report it (versions as ids of the harness's version table)"""
    known = {}
    for (server, shnum), (verinfo, ts) in sm.get_known_shares().items():
        known.setdefault(server.get_nickname(), {})[str(shnum)] = vid(w, verinfo)
    best = sm.best_recoverable_version()
    avail = {}
    for verinfo, (cnt, k, n) in sm.shares_available().items():
        avail[str(vid(w, verinfo))] = [cnt, k, n]
    newer = {}
    for verinfo, (found, k) in sm.unrecoverable_newer_versions().items():
        newer[str(vid(w, verinfo))] = [found, k]
    per_version = {}
    for verinfo in sm.shares_available():
        per_version[str(vid(w, verinfo))] = sorted(s.get_nickname() for s in sm.all_servers_for_version(verinfo))
    on_server = {}
    for (server, shnum), (verinfo, ts) in sm.get_known_shares().items():
        v2 = sm.version_on_server(server, shnum)
        on_server["%s/%d" % (server.get_nickname(), shnum)] = vid(w, v2) if v2 is not None else 0
    rec = [vid(w, v) for v in sm.recoverable_versions()]
    unrec = [vid(w, v) for v in sm.unrecoverable_versions()]
    return {
        "M": known,
        "bad": sorted([s.get_nickname(), n] for (s, n) in sm.get_bad_shares()),
        "reach": sorted(s.get_nickname() for s in sm.get_reachable_servers()),
        "unreach": sorted(s.get_nickname() for s in sm.unreachable_servers),
        "rec": sorted(rec), "nrec": len(rec), "unrec": sorted(unrec), "nunrec": len(unrec),
        "best": vid(w, best) if best else 0,
        "avail": avail, "newer": newer,
        "sharemap": {str(sh): sorted(s.get_nickname() for s in srvs) for sh, srvs in sm.make_sharemap().items()},
        "merge": bool(sm.needs_merge()),
        "hiseq": sm.highest_seqnum(),
        "allsrv": sorted(s.get_nickname() for s in sm.all_servers()),
        "persrv": per_version, "onsrv": on_server,
        "lastmode": (sm.get_last_update()[0] or "").replace("MODE_", ""),
    }


def row_of(sm, sname):
    row, bad = {}, []
    for (server, shnum), (verinfo, ts) in sm.get_known_shares().items():
        if server.get_nickname() == sname:
            row[shnum] = verinfo
    for (server, shnum) in sm.get_bad_shares():
        if server.get_nickname() == sname:
            bad.append(shnum)
    return row, sorted(bad)


def run_update(w, node, sm, mode, fresh, order_rng, failing):
    """one real ServermapUpdater.update(); appends Start / Send / Ans / Done events to w.events"""
    g = w.g
    ev = w.events
    ev.append({"ev": "Start", "mode": mode, "fresh": fresh, "priv": node.get_privkey() is not None,
               "order": "fifo" if order_rng is None else "random"})
    u = ServermapUpdater(node, g.broker, Monitor(), sm, MODES[mode])
    out = []
    seen = set()
    answered = set()        # servers whose initial answer has been delivered but whose follow-up reads are pending
    nsent = {}

    def scan_sends():
        for p in g.pending:
            if p.methname == "slot_readv" and p.seq not in seen and not p.args[1]:
                seen.add(p.seq)
                nsent[p.server] = nsent.get(p.server, 0) + 1
                ev.append({"ev": "Send", "s": p.server})

    def followups(sname):
        return any(p.methname == "slot_readv" and p.server == sname and p.args[1] for p in g.pending)

    def emit_ans(sname, kind):
        row, bad = row_of(sm, sname)
        # the checkstring remembered for a bad share is what a later test-and-set compares the stored share with
        badcs = []
        for (server, shnum), cs in sm.get_bad_shares().items():
            if server.get_nickname() == sname:
                raw = w.raw(sname, shnum)
                if raw is not None and not (isinstance(cs, bytes) and len(cs) >= 41 and raw.startswith(cs)):
                    badcs.append(shnum)
        ev.append({"ev": "Ans", "s": sname, "kind": kind, "row": {str(sh): vid(w, v) for sh, v in row.items()},
                   "bad": bad, "badcs": sorted(badcs), "priv": node.get_privkey() is not None})

    d = u.update()
    d.addBoth(out.append)
    settle()
    scan_sends()
    steps = 0
    res = "ok"
    while not out:
        steps += 1
        if not g.pending or steps > 5000:
            res = "hang"
            break
        idx = 0 if order_rng is None else order_rng.randrange(len(g.pending))
        p = g.pending[idx]
        is_read = p.methname == "slot_readv"
        fault = failing.get(p.server) if is_read else None
        initial = is_read and not p.args[1]
        g.deliver(idx, fault)
        settle()
        if is_read:
            s = p.server
            if fault:
                if initial:
                    emit_ans(s, "fail")
                else:
                    answered.discard(s)
                    emit_ans(s, "fail_late")
            else:
                if initial:
                    answered.add(s)
                if s in answered and not followups(s):
                    answered.discard(s)
                    emit_ans(s, "ok")
        if not out:
            scan_sends()
    if out and isinstance(out[0], Failure):
        res = "error:" + out[0].type.__name__
    done = {"ev": "Done", "res": res}
    done.update(snapshot(w, sm))
    done["priv"] = node.get_privkey() is not None
    # answers that arrive after update() fired must leave the map alone
    before = json.dumps([done["M"], done["rec"], done["best"]], sort_keys=True)
    saved = g.policy
    g.policy = "fifo"
    try:
        g.drain(max_steps=5000)
    except Exception:
        g.pending = []
    g.policy = saved
    after = snapshot(w, sm)
    done["late_changed"] = json.dumps([after["M"], after["rec"], after["best"]], sort_keys=True) != before
    ev.append(done)
    w.g.pending = []
    return res


# --------------------------------------------------------------------------- layouts
def place(w, rng, pattern, newest, older, comp, crafted):
    """put shares along the permuted list; returns a description"""
    order = w.order
    ns, n, k = len(order), w.n, w.k
    w.wipe()
    if pattern == "front":
        # as a publish on a quiet grid leaves them: share i on the i-th server
        for sh in range(n):
            w.put(order[sh % ns], sh, newest, how="front")
    elif pattern == "gaps":
        pos = sorted(rng.sample(range(ns), min(ns, n)))
        for sh, p in enumerate(pos):
            w.put(order[p], sh, newest, how="gaps")
    elif pattern == "late":
        # the older version at the front, the newest further back
        cut = rng.randint(1, max(1, ns // 2))
        for sh in range(n):
            if sh < cut and rng.random() < 0.8:
                w.put(order[sh], sh, older, how="late_old")
        back = list(range(cut, ns))
        rng.shuffle(back)
        for j, p in enumerate(sorted(back[:rng.randint(1, n)])):
            w.put(order[p], (n - 1 - j) % n, newest, how="late_new")
    elif pattern == "mixed":
        vs = [newest, older] + ([comp] if comp else [])
        for sh in range(n):
            for v in vs:
                if rng.random() < 0.6:
                    w.put(order[rng.randrange(ns)], sh, v, how="mixed")
    elif pattern == "sparse":
        for sh in rng.sample(range(n), rng.randint(0, max(0, k - 1)) if rng.random() < 0.6 else k):
            w.put(order[rng.randrange(ns)], sh, newest, how="sparse")
        if rng.random() < 0.5:
            for sh in range(n):
                if rng.random() < 0.5:
                    w.put(order[rng.randrange(ns)], sh, older, how="sparse_old")
    elif pattern == "dup":
        for sh in range(n):
            for p in rng.sample(range(ns), rng.randint(1, 2)):
                w.put(order[p], sh, newest if rng.random() < 0.7 else older, how="dup")
    elif pattern == "cluster":
        # several shares on few servers
        srvs = rng.sample(range(ns), rng.randint(1, 2))
        for sh in range(n):
            w.put(order[rng.choice(srvs)], sh, newest, how="cluster")
    elif pattern == "privfront":
        # every share near the front has a damaged private key; an intact share sits further back
        for sh in range(n):
            t = md.tampered(w, newest, sh, ["encprivkey"], rng)
            w.put(order[sh % ns], sh, newest, t[1], t[0], t[2])
        if rng.random() < 0.8:
            w.put(order[rng.randrange(min(ns - 1, n + 1), ns)], rng.randrange(n), newest, how="priv_late")
        return
    elif pattern == "competitor" and comp:
        for sh in range(n):
            w.put(order[rng.randrange(min(ns, n + 2))], sh, newest, how="comp_a")
        for sh in rng.sample(range(n), rng.randint(1, n)):
            w.put(order[rng.randrange(ns)], sh, comp, how="comp_b")
    else:
        for sh in range(n):
            w.put(order[rng.randrange(ns)], sh, newest, how="random")
    # damage
    for _ in range(rng.choice([0, 0, 1, 1, 2, 3])):
        what = rng.choice(["prefix", "prefix", "priv", "body", "crafted", "delete", "extra_bad"])
        slots = sorted(w.lay)
        if what in ("prefix", "priv", "body") and slots:
            s, sh = rng.choice(slots)
            ent = w.lay[(s, sh)]
            if ent["cls"] != "intact" or w.vers[ent["v"] - 1]["signer"] != "owner":
                continue
            kinds = {"prefix": list(PREFIX_KINDS), "priv": ["encprivkey"], "body": ["block"]}[what]
            t = md.tampered(w, ent["v"], sh, kinds, rng)
            if t:
                w.put(s, sh, ent["v"], t[1], t[0], t[2])
        elif what == "crafted" and crafted:
            v = rng.choice(crafted)
            sh = rng.randrange(n)
            if sh in w.vers[v - 1]["shares"]:
                w.put(order[rng.randrange(ns)], sh, v, how="crafted")
        elif what == "delete" and slots:
            w.delete(*rng.choice(slots))
        elif what == "extra_bad":
            # a server near the front holding nothing but a share without a valid signature
            free = [s for s in order[:min(ns, n + 3)] if not any(k2[0] == s for k2 in w.lay)]
            if free:
                sh = rng.randrange(n)
                t = md.tampered(w, newest, sh, list(PREFIX_KINDS), rng)
                if t:
                    w.put(rng.choice(free), sh, newest, t[1], t[0], "extra_bad:" + t[2])


def ev_layout(w):
    w.stamp()
    L = {s: {} for s in w.order}
    for (sname, sh), ent in w.lay.items():
        L[sname][str(sh)] = {"v": ent["v"], "cls": ent["cls"]}
    w.events.append({"ev": "Layout", "L": L, "up": list(w.order), "nv": len(w.vers),
                     "how": {"%s/%d" % k: e.get("how", "") for k, e in sorted(w.lay.items())}})


def node_for(w, mode, rng):
    if mode in ("WRITE", "REPAIR"):
        return rng.choice(["w", "rw", "rw"])
    return rng.choice(["ro", "ro", "rw", "w"])


def choose_failing(w, rng, p):
    return {s: rng.choice(["raise", "disconnect"]) for s in w.order if rng.random() < p}


def scenario(g, rng, idx, k, n, thorough):
    fmt = rng.choice(["SDMF", "SDMF", "MDMF"])
    w = md.World(g, None, fmt, rng, k, n)
    ln = rng.randint(1, 20)
    w.create(w.new_content(ln, ln))
    w.publish_all_up(w.new_content(ln, ln))
    older, newest, comp = 1, 2, 0
    if rng.random() < 0.4:
        # a competitor: a writer that only saw version 1 publishes another version with the same seqnum as version 2
        w.wipe()
        for sh in range(n):
            w.put(w.order[sh % len(w.order)], sh, 1, how="for_competitor")
        c = w.new_content(ln, ln)
        st, r = w.run(w.fresh_node("rw").overwrite(MutableData(c)))
        if st == "ok":
            comp = w.register_published(c)
            assert w.vers[comp - 1]["seq"] == w.vers[newest - 1]["seq"]
        w.wipe()
    crafted = []
    if rng.random() < 0.4:
        crafted.append(w.forge_resigned(rng.choice([1, 2]), w.vers[newest - 1]["seq"] + rng.choice([1, 2]), rng.random() < 0.5))
    if rng.random() < 0.2:
        crafted.append(w.forge_seqbump(newest, w.vers[newest - 1]["seq"] + 1))
    patterns = ["front", "front", "gaps", "gaps", "late", "late", "mixed", "sparse", "dup", "cluster", "competitor", "random", "privfront"]
    traces = []

    def cut(kind):
        # one trace per layout / per sequence of updates on one servermap: a rejected event ends only that part
        tr = w.trace("servermap")
        tr["consts"]["part"] = kind
        traces.append(tr)
        w.events = []

    for li in range(3 if not thorough else 4):
        pattern = rng.choice(patterns)
        place(w, rng, pattern, newest, older, comp, crafted)
        failing = choose_failing(w, rng, rng.choice([0, 0, 0.1, 0.2, 0.35]))
        ev_layout(w)
        modes = list(MODES)
        rng.shuffle(modes)
        chosen = modes[:rng.choice([3, 4, 5])]
        if pattern == "privfront":
            chosen = ["WRITE", "REPAIR"] + [m for m in chosen if m not in ("WRITE", "REPAIR")]
        for mode in chosen:
            node = w.fresh_node("rw" if pattern == "privfront" and mode in ("WRITE", "REPAIR") else node_for(w, mode, rng))
            orr = None if rng.random() < 0.5 else random.Random(rng.randrange(10 ** 6))
            run_update(w, node, ServerMap(), mode, True, orr, failing)
        cut("fresh:" + pattern)
        # an update on the map an earlier update left, after the grid changed / the caller marked shares bad
        for _ in range(rng.choice([1, 1, 2])):
            m1, m2 = rng.choice(list(MODES)), rng.choice(list(MODES) + ["WRITE", "WRITE"])
            kind = node_for(w, "WRITE" if "WRITE" in (m1, m2) or "REPAIR" in (m1, m2) else "READ", rng)
            node = w.fresh_node(kind)
            sm = ServerMap()
            ev_layout(w)
            run_update(w, node, sm, m1, True, None if rng.random() < 0.5 else random.Random(rng.randrange(10 ** 6)), failing)
            known = sorted((s.get_nickname(), sh) for (s, sh) in sm.get_known_shares())
            change = rng.choice(["markbad", "markbad", "vanish", "replace", "corrupt", "nothing", "newfail"])
            changed = False
            if change == "markbad" and known:
                if rng.random() < 0.5:
                    # every share of one server (as Retrieve does after one of them failed validation)
                    s1 = rng.choice(sorted({k2[0] for k2 in known}))
                    marks = [k2 for k2 in known if k2[0] == s1]
                else:
                    marks = rng.sample(known, min(len(known), rng.choice([1, 1, 2])))
                for (sname, sh) in marks:
                    srv = g.servers[sname]
                    raw = w.raw(sname, sh) or b""
                    sm.mark_bad_share(srv, sh, raw[:75])
                    e = {"ev": "MarkBad", "s": sname, "sh": sh}
                    e.update(snapshot(w, sm))
                    w.events.append(e)
            elif change == "vanish" and known:
                sname, sh = rng.choice(known)
                w.delete(sname, sh)
                changed = True
            elif change == "replace" and known:
                sname, sh = rng.choice(known)
                ent = w.lay.get((sname, sh))
                others = [v for v in (older, newest, comp) if v and ent and v != ent["v"]]
                if others:
                    w.put(sname, sh, rng.choice(others), how="replaced")
                    changed = True
            elif change == "corrupt" and known:
                sname, sh = rng.choice(known)
                ent = w.lay.get((sname, sh))
                if ent and ent["cls"] == "intact" and w.vers[ent["v"] - 1]["signer"] == "owner":
                    t = md.tampered(w, ent["v"], sh, list(PREFIX_KINDS), rng)
                    if t:
                        w.put(sname, sh, ent["v"], t[1], t[0], "later:" + t[2])
                        changed = True
            f2 = failing
            if change == "newfail":
                f2 = choose_failing(w, rng, 0.25)
            if changed:
                ev_layout(w)
            run_update(w, node, sm, m2, False, None if rng.random() < 0.5 else random.Random(rng.randrange(10 ** 6)), f2)
            cut("again:" + change)
    return traces


# (k, N, servers); the quick tier keeps to two encodings (one TLC run per encoding)
ENCODINGS_QUICK = [(2, 3, 7), (2, 3, 12), (1, 2, 8), (2, 3, 9), (1, 2, 6), (2, 3, 5)]
ENCODINGS = ENCODINGS_QUICK + [(2, 4, 10), (3, 5, 14), (2, 4, 6), (1, 3, 9)]


def main():
    ap = argparse.ArgumentParser()
    ap.add_argument("--out")
    ap.add_argument("--seed", type=int, default=0)
    ap.add_argument("--tier", default="quick")
    ap.add_argument("--in", dest="inp")
    ap.add_argument("--n", type=int, default=30)
    a = ap.parse_args()
    md.pubmod.DEFAULT_MUTABLE_MAX_SEGMENT_SIZE = md.SEGSIZE
    thorough = a.tier != "quick"
    rng0 = random.Random("servermap-%d" % a.seed)
    work = os.path.join(os.getcwd(), "servermap_%d" % os.getpid())
    traces = []
    grids = {}
    for i in range(a.n):
        rng = random.Random(rng0.randrange(10 ** 9))
        encs = ENCODINGS if thorough else ENCODINGS_QUICK
        enc = encs[i % len(encs)] if i < len(encs) else rng.choice(encs)
        if enc not in grids:
            k, n, ns = enc
            grids[enc] = Grid(os.path.join(work, "g%d_%d_%d" % enc), num_servers=ns, k=k, n=n, happy=1, seed=a.seed)
        g = grids[enc]
        g.keypool.i = rng.randrange(len(g.keypool.ders))
        g.removed = set()
        g.policy = "fifo"
        g.calllog = []
        g.log_calls = False
        g.pending = []
        for tr in scenario(g, rng, i, enc[0], enc[1], thorough):
            tr["consts"]["idx"] = i
            traces.append(tr)
        for sname in g.servers:
            sd = g.servers[sname].ss.sharedir
            for pfx in os.listdir(sd):
                if pfx != "incoming":
                    shutil.rmtree(os.path.join(sd, pfx), ignore_errors=True)
            g.servers[sname].rref.connected = True
    for g in grids.values():
        g.close()
    shutil.rmtree(work, ignore_errors=True)
    with open(a.out, "w") as f:
        json.dump(traces, f)


if __name__ == "__main__":
    main()
