"""Helpers shared by the web drivers and their checks (no twisted imports)."""


def content(size):
    """Position-identifying file content: any two different offsets differ within 2 bytes."""
    return bytes(((i * 131) + (i >> 8) * 17 + 3) & 0xff for i in range(size))


def render_range_header(h):
    """The textual Range header for an abstract header of spec/frontends/WebRange.tla ('' = no header)."""
    c = h["cls"]
    if c == "none":
        return None
    if c == "fl":
        return "bytes=%d-%d" % (h["first"], h["last"])
    if c == "open":
        return "bytes=%d-" % h["first"]
    if c == "suffix":
        return "bytes=-%d" % h["n"]
    if c == "multi":
        return "bytes=%d-%d,%d-%d" % (h["first"], h["last"], h["first2"], h["last2"])
    if c in ("garbage", "unit"):
        return h["text"]
    raise ValueError(h)
