"""Replay the cases of spec/net/GenGridManager.tla into the real
allmydata.grid_manager: real ed25519 grid-manager keys, certificates produced
by the real _GridManager.sign (its clock rebound so that expiries fall on the
abstract grid), tampered as the abstract flags say, then
create_grid_manager_verifier(keys, certs, server, now_fn) is built once per case
and called at every abstract time (shuffled, each time twice), and
validate_grid_manager_certificate is called for every (key, certificate) pair.
The driver returns the real answers; the comparison with the Spec's verdicts is
done by the check."""
from vreactor import vr  # noqa: F401
import argparse, json, random
from datetime import datetime, timedelta, timezone
from io import StringIO

from allmydata.crypto import ed25519
from allmydata.util import base32, jsonbytes
import allmydata.grid_manager as gm


def seeded_private(rng):
    raw = bytes(rng.getrandbits(8) for _ in range(32))
    return b"priv-v0-" + base32.b2a(raw)


class World:
    def __init__(self, rng, signers, subjects):
        self.rng = rng
        self.base = datetime(2030, 1, 1, tzinfo=timezone.utc) + timedelta(seconds=rng.randrange(10 ** 7), microseconds=rng.randrange(10 ** 6))
        self.unit = timedelta(seconds=rng.choice([1, 60, 3600, 86400]), microseconds=rng.choice([0, 1, 999999]))
        self.servers = {}
        for s in subjects:
            sk, vk = ed25519.signing_keypair_from_string(seeded_private(rng))
            self.servers[s] = vk
        self.gms = {}
        for g in signers:
            m = gm._GridManager(seeded_private(rng), {})
            for s in subjects:
                m.add_storage_server(s, self.servers[s])
            self.gms[g] = m
        self.cache = {}

    def t(self, n):
        return self.base + self.unit * n

    def pub(self, subject):
        return ed25519.string_from_verifying_key(self.servers[subject])

    def cert(self, c, variant, target="self"):
        """target: the server a 'cert' forgery is re-written to name (the server that will present it)"""
        k = (c["signer"], c["subject"], c["expires"], c["tamper"], variant, target)
        if k in self.cache:
            return self.cache[k]
        saved = gm.current_datetime_with_zone
        gm.current_datetime_with_zone = lambda: self.base       # _GridManager.sign: expiration = now + expiry
        try:
            sc = self.gms[c["signer"]].sign(c["subject"], self.unit * c["expires"])
        finally:
            gm.current_datetime_with_zone = saved
        data, sig = sc.certificate, sc.signature
        if c["tamper"] == "cert":
            if variant % 2 == 0:
                # the forgery that would matter: name this server, push the expiry far out, keep the signature
                d = json.loads(data)
                d["expires"] = self.t(1000).isoformat()
                d["public_key"] = self.pub(target).decode("ascii")
                data = jsonbytes.dumps_bytes(d, separators=(',', ':'), sort_keys=True)
            else:
                b = bytearray(data)
                pos = data.index(b'"expires":"') + 14          # a digit of the year
                b[pos] = ord("9") if b[pos] != ord("9") else ord("8")
                data = bytes(b)
        elif c["tamper"] == "sig":
            b = bytearray(sig)
            b[self.rng.randrange(len(b))] ^= 1 << self.rng.randrange(8)
            sig = bytes(b)
        out = gm.SignedCertificate(certificate=data, signature=sig)
        if variant >= 2:
            # the path storage_client takes: announcement JSON -> SignedCertificate.load
            out = gm.SignedCertificate.load(StringIO(jsonbytes.dumps(out.marshal())))
        self.cache[k] = out
        return out


def main():
    ap = argparse.ArgumentParser()
    ap.add_argument("--out")
    ap.add_argument("--seed", type=int, default=0)
    ap.add_argument("--tier", default="quick")
    ap.add_argument("--in", dest="inp")
    a = ap.parse_args()
    cases = json.load(open(a.inp))
    rng = random.Random("C33/%d" % a.seed)
    signers = cases[0]["signers"]
    world = World(rng, signers, ["self", "other"])
    results = []
    clock = [None]
    for ci, case in enumerate(cases):
        variant = rng.randrange(4)
        certs = [world.cert(c, variant) for c in case["certs"]]
        order = list(range(len(certs)))
        rng.shuffle(order)
        keys = [world.gms[k]._public_key for k in case["keys"]]
        rng.shuffle(keys)
        bad = []
        err = ""
        answers = []
        try:
            verifier = gm.create_grid_manager_verifier(keys, [certs[i] for i in order], world.pub("self"),
                                                       now_fn=lambda: clock[0], bad_cert=lambda k, c: bad.append(1))
            nows = list(case["nows"]) * 2
            rng.shuffle(nows)
            for n in nows:
                clock[0] = world.t(n)
                answers.append([n, bool(verifier())])
        except Exception as e:     # noqa: BLE001
            err = "%s: %s" % (type(e).__name__, e)
        sig = []
        for i, c in enumerate(certs):
            row = []
            for g in signers:
                r = gm.validate_grid_manager_certificate(world.gms[g]._public_key, c)
                row.append(r is not None)
            sig.append(row)
        results.append({"i": ci, "variant": variant, "answers": answers, "sig": sig, "badcalls": len(bad), "err": err})
    with open(a.out, "w") as f:
        json.dump({"results": results, "base": world.base.isoformat(), "unit_s": world.unit.total_seconds()}, f)


if __name__ == "__main__":
    main()
