"""Driver of the real immutable upload encoder (allmydata.immutable.encode.Encoder) for the extra
`encoder_protocol`: seeded runs of a real Encoder on the virtual reactor with

 * recording fake IStorageBucketWriters: every call (put_header, put_block, put_crypttext_hashes, put_block_hashes,
   put_share_hashes, put_uri_extension, close, abort) is recorded with its raw arguments; the answer is immediate or
   parked and delivered later in a seeded order; one seeded call per writer may fail;
 * a minimal IEncryptedUploadable that serves Codec.tla's symbolic file (byte at offset x = x + 1) and records
   read_encrypted (answered at once or later) / close;
 * optionally Encoder.abort() at a seeded moment.

After the run the raw values are abstracted (never judged) for spec/immutable/TraceEncoderProtocol.tla:
 blocks  -> ["B", s, i] by comparing the bytes with a reference encoding (zfec directly, not allmydata.codec) of what the
            encoder read for segment s, zero-padded to the length it asked for; blocks of equal bytes share one
            representative (consts.canon); the bytes of a block as a list of numbers;
 hashes  -> HashTree.tla terms: block_hash(reference block) = ["B",s,i], crypttext_segment_hash(bytes read for segment
            s) = ["C",s], the flat ciphertext hash = ["H"], empty_leaf_hash(i) = ["P",i], and, closing under pair_hash
            over the hashes that actually occur, ["N",a,b]; anything else ["F",j];
 UEB     -> parsed with a parser written from the pseudocode in IStorageBucketWriter.put_uri_extension.
The verdict is TLC's."""
from vreactor import vr  # noqa: F401  (must be first: virtual reactor)

import argparse, json, random, re

import zfec
from zope.interface import implementer
from twisted.internet import defer
from twisted.python.failure import Failure

from allmydata.interfaces import IEncryptedUploadable, IStorageBucketWriter
from allmydata.immutable.encode import Encoder
from allmydata import hashtree, uri
from allmydata.util import hashutil
from allmydata.util import happinessutil

SERVERS = ["A", "B", "C", "D", "E"]
SI = bytes(range(16))


class WriterLost(Exception):
    pass


class World:
    def __init__(self):
        self.events = []          # raw events
        self.parked = []          # (writer, method, deferred, fail)
        self.reads = []           # (length asked, bytes returned)
        self.ticks = 0            # writer calls + deliveries so far
        self.abort_at = -1        # Encoder.abort() is called at this tick
        self.encoder = None
        self.result = []

    def log(self, **e):
        self.events.append(e)

    def tick(self):
        self.ticks += 1
        if self.ticks == self.abort_at and not self.result:
            self.log(ev="user_abort")
            self.encoder.abort()


@implementer(IEncryptedUploadable)
class Uploadable:
    def __init__(self, world, data, params, rng, mode):
        self.world, self.data, self.pos, self.params = world, data, 0, params
        self.rng, self.mode = rng, mode

    def set_upload_status(self, s):
        pass

    def get_size(self):
        return defer.succeed(len(self.data))

    def get_all_encoding_parameters(self):
        return defer.succeed(self.params)

    def get_storage_index(self):
        return defer.succeed(SI)

    def read_encrypted(self, length, hash_only):
        d = self.data[self.pos:self.pos + length]
        self.pos += len(d)
        self.world.reads.append((length, d))
        self.world.log(ev="read", len=length, got=len(d), hash_only=bool(hash_only))
        if self.mode == "sync" or (self.mode == "mixed" and self.rng.random() < 0.5):
            self.world.log(ev="read_ret")
            return defer.succeed([d])
        dd = defer.Deferred()
        self.world.parked.append(("read", None, dd, [d]))
        return dd

    def close(self):
        self.world.log(ev="uclose")


@implementer(IStorageBucketWriter)
class FakeWriter:
    def __init__(self, world, shnum, peerid, fail_at, rng, mode):
        self.world, self.shnum, self.peerid = world, shnum, peerid
        self.fail_at, self.rng, self.mode = fail_at, rng, mode
        self.ncalls = 0

    def get_peerid(self):
        return self.peerid

    def get_servername(self):
        return self.peerid

    def _call(self, m, **raw):
        self.world.tick()
        self.world.log(ev="call", w=self.shnum, m=m, **raw)
        fail = (self.ncalls == self.fail_at)
        self.ncalls += 1
        sync = self.mode == "sync" or (self.mode == "mixed" and self.rng.random() < 0.5)
        if sync:
            self.world.log(ev="ret", w=self.shnum, m=m, ok=not fail)
            return defer.fail(Failure(WriterLost("%s on share %d" % (m, self.shnum)))) if fail else defer.succeed(None)
        d = defer.Deferred()
        self.world.parked.append((self, m, d, fail))
        return d

    def put_header(self):
        return self._call("put_header")

    def put_block(self, segmentnum, data):
        return self._call("put_block", seg=segmentnum, raw=bytes(data))

    def put_crypttext_hashes(self, hashes):
        return self._call("put_crypttext_hashes", raw=list(hashes))

    def put_block_hashes(self, blockhashes):
        return self._call("put_block_hashes", raw=list(blockhashes))

    def put_share_hashes(self, sharehashes):
        return self._call("put_share_hashes", raw=[(i, h) for (i, h) in sharehashes])

    def put_uri_extension(self, data):
        return self._call("put_uri_extension", raw=bytes(data))

    def close(self):
        return self._call("close")

    def abort(self):
        self.world.log(ev="call", w=self.shnum, m="abort")
        return defer.succeed(None)


# ---------------------------------------------------------------------------------------------- scenario
def make_scenario(rng, quick, idx):
    k = rng.choice([1, 2, 2, 3])
    n = rng.randint(k, 4 if quick else 5)
    seg = k * rng.choice([1, 2, 3])
    ns = rng.choice([1, 2, 2, 3] if quick else [1, 2, 3, 4])
    size = (ns - 1) * seg + rng.randint(1, seg)
    shares = list(range(n))
    nw = rng.randint(1, n)
    writers = sorted(rng.sample(shares, nw))
    pool = SERVERS[:rng.randint(1, len(SERVERS))]
    peers = ["-"] * n
    smap = [[] for _ in shares]
    for w in writers:
        peers[w] = rng.choice(pool)
        smap[w].append(peers[w])
    # shares the uploader found on servers (no writer for them)
    for sh in shares:
        if rng.random() < 0.3:
            p = rng.choice(pool)
            if p not in smap[sh]:
                smap[sh].append(p)
    real_map = {sh: set(smap[sh]) for sh in shares if smap[sh]}
    h0 = happinessutil.servers_of_happiness(real_map)      # only to generate a run whose precondition holds
    happy = rng.randint(1, max(1, h0))
    profile = rng.choice(["clean", "one", "some", "some", "many"])
    mode = rng.choice(["sync", "async", "async", "mixed"])
    ncalls = ns + 6
    fail_at = {}
    for w in writers:
        p = {"clean": 0.0, "one": 0.0, "some": 0.35, "many": 0.8}[profile]
        fail_at[w] = rng.randrange(ncalls) if rng.random() < p else -1
    if profile == "one":
        fail_at[rng.choice(writers)] = rng.randrange(ncalls)
    user_abort = rng.randrange(1, 3 * ncalls) if rng.random() < 0.12 else -1
    return {"k": k, "n": n, "seg": seg, "size": size, "happy": happy, "writers": writers, "peers": peers, "smap0": smap,
            "profile": profile, "mode": mode, "fail_at": [fail_at.get(sh, -1) for sh in shares], "user_abort": user_abort,
            "idx": idx}


# ---------------------------------------------------------------------------------------------- one run
def pump():
    for _ in range(10000):
        due = [c for c in vr.getDelayedCalls() if c.getTime() <= vr.seconds()]
        if not due:
            return
        vr.advance(0)
    raise RuntimeError("reactor does not settle")


def run_one(sc, seed):
    rng = random.Random("xenc-%d-%d" % (seed, sc["idx"]))
    world = World()
    data = bytes(range(1, sc["size"] + 1))
    up = Uploadable(world, data, (sc["k"], sc["happy"], sc["n"], sc["seg"]), rng, sc["mode"])
    enc = Encoder()
    got = []
    enc.set_encrypted_uploadable(up).addBoth(got.append)
    pump()
    if not got or isinstance(got[0], Failure):
        raise RuntimeError("set_encrypted_uploadable failed: %r" % (got,))
    writers = {w: FakeWriter(world, w, sc["peers"][w].encode(), sc["fail_at"][w], rng, sc["mode"]) for w in sc["writers"]}
    order = list(sc["writers"])
    rng.shuffle(order)
    servermap = {sh: set(p.encode() for p in sc["smap0"][sh]) for sh in range(sc["n"]) if sc["smap0"][sh]}
    enc.set_shareholders({w: writers[w] for w in order}, servermap)
    world.log(ev="params", num_segments=enc.get_param("num_segments"), segment_size=enc.get_param("segment_size"),
              block_size=enc.get_param("block_size"), share_size=enc.get_param("share_size"),
              share_counts=list(enc.get_param("share_counts")), ueb_size=enc.get_uri_extension_size())
    res = world.result
    world.encoder, world.abort_at = enc, sc["user_abort"]
    d = enc.start()

    def _res(r):
        res.append(r)
        if isinstance(r, Failure):
            world.log(ev="result", kind="failure", cls=r.type.__name__, msg=str(r.value)[:200])
        else:
            world.log(ev="result", kind="success", raw_cap=r, placed=sorted(enc.get_shares_placed()),
                      raw_ueb_data=dict(enc.get_uri_extension_data()), raw_ueb_hash=enc.get_uri_extension_hash())
    d.addBoth(_res)
    steps = 0
    while True:
        pump()
        steps += 1
        if not world.parked:
            break
        world.tick()
        i = rng.randrange(len(world.parked))
        w, m, dd, fail = world.parked.pop(i)
        if w == "read":
            world.log(ev="read_ret")
            dd.callback(fail)
            continue
        world.log(ev="ret", w=w.shnum, m=m, ok=not fail)
        if fail:
            dd.errback(Failure(WriterLost("%s on share %d" % (m, w.shnum))))
        else:
            dd.callback(None)
        if steps > 5000:
            raise RuntimeError("run does not end")
    pump()
    world.log(ev="quiescent")
    return world


# ---------------------------------------------------------------------------------------------- abstraction
def parse_ueb(b):
    """for k in sorted(dict.keys()): write(k + ':' + netstring(dict[k]))   (IStorageBucketWriter.put_uri_extension)"""
    out, keys, pos = {}, [], 0
    while pos < len(b):
        c = b.index(b":", pos)
        key = b[pos:c].decode("ascii", "replace")
        c2 = b.index(b":", c + 1)
        ln = int(b[c + 1:c2])
        val = b[c2 + 1:c2 + 1 + ln]
        if b[c2 + 1 + ln:c2 + 2 + ln] != b",":
            raise ValueError("netstring without comma")
        pos = c2 + 2 + ln
        keys.append(key)
        out[key] = val
    return keys, out


class Namer:
    def __init__(self, sc, world):
        self.k, self.n = sc["k"], sc["n"]
        self.names = {}           # hash bytes -> term
        self.blocks = {}          # block bytes -> [s, i] (representative)
        self.canon = []
        self.forged = {}
        whole = b""
        for s, (length, got) in enumerate(world.reads):
            whole += got
            self.names.setdefault(hashutil.crypttext_segment_hash(got), ["C", s])
            row = []
            if length > 0 and length % self.k == 0 and len(got) <= length:
                padded = got + b"\x00" * (length - len(got))
                bs = length // self.k
                pieces = [padded[j * bs:(j + 1) * bs] for j in range(self.k)]
                ref = zfec.Encoder(self.k, self.n).encode(pieces)
                for i, blk in enumerate(ref):
                    blk = bytes(blk)
                    rep = self.blocks.setdefault(blk, [s, i])
                    row.append(rep)
                    self.names.setdefault(hashutil.block_hash(blk), ["B", rep[0], rep[1]])
            self.canon.append(row)
        self.names.setdefault(hashutil.crypttext_hash(whole), ["H"])
        for i in range(16):
            self.names.setdefault(hashtree.empty_leaf_hash(i), ["P", i])
        # Where to look for further names.  A name ["N", a, b] is a verified fact (the bytes ARE pair_hash of the bytes named
        # a and b) wherever it is found; hashes of trees over shares that have no writer never travel, so the search also
        # walks up from the rows of block hashes / block roots / segment hashes, pairing neighbours.
        ns = len(world.reads)
        roots = []
        for i in range(self.n):
            if all(len(row) == self.n for row in self.canon) and ns:
                roots.append(self.pair_up([hashutil.block_hash(self.block_bytes(s, i)) for s in range(ns)]))
        if len(roots) == self.n:
            self.pair_up(roots)
        self.pair_up([hashutil.crypttext_segment_hash(got) for (_l, got) in world.reads])

    def block_bytes(self, s, i):
        rep = self.canon[s][i]
        for b, r in self.blocks.items():
            if r == rep:
                return b

    def pair_up(self, row):
        """name the pair_hash of neighbours, level by level (the row is filled up with empty_leaf_hash(i) to a power of two)"""
        if not row:
            return None
        size = 1
        while size < len(row):
            size *= 2
        row = list(row) + [hashtree.empty_leaf_hash(i) for i in range(len(row), size)]
        while len(row) > 1:
            nxt = []
            for j in range(0, len(row), 2):
                a, b = row[j], row[j + 1]
                h = hashtree.pair_hash(a, b)
                if a in self.names and b in self.names:
                    self.names.setdefault(h, ["N", self.names[a], self.names[b]])
                nxt.append(h)
            row = nxt
        return row[0]

    def close_over(self, targets):
        """name pair_hash(a, b) of named hashes a, b whenever it is one of the hashes that occur"""
        targets = set(targets)
        if targets <= set(self.names):
            return
        tried = set()
        changed = True
        while changed:
            changed = False
            known = list(self.names)
            for a in known:
                for b in known:
                    if (a, b) in tried:
                        continue
                    tried.add((a, b))
                    h = hashtree.pair_hash(a, b)
                    if h in targets and h not in self.names:
                        self.names[h] = ["N", self.names[a], self.names[b]]
                        changed = True

    def hash(self, h):
        if h in self.names:
            return self.names[h]
        if h not in self.forged:
            self.forged[h] = ["F", len(self.forged)]
        return self.forged[h]

    def block(self, b):
        if b in self.blocks:
            return ["B"] + self.blocks[b]
        return self.hash(b"block:" + b)


UEB_INTS = ("size", "segment_size", "num_segments", "needed_shares", "total_shares")
UEB_HASHES = ("crypttext_hash", "crypttext_root_hash", "share_root_hash")
UEB_PARAMS = ("codec_params", "tail_codec_params")


def ueb_fields(namer, d, from_bytes):
    """abstract a UEB dictionary (values as packed bytes, or the encoder's own dictionary)"""
    f = {}
    for key, v in d.items():
        if key in UEB_INTS:
            f[key] = int(v)
        elif key in UEB_HASHES:
            f[key] = namer.hash(v)
        elif key in UEB_PARAMS:
            m = re.match(rb"^(\d+)-(\d+)-(\d+)$", v)
            f[key] = [int(x) for x in m.groups()] if m else [0, 0, 0]
        elif key == "codec_name":
            f[key] = v.decode("ascii", "replace") if isinstance(v, bytes) else str(v)
        else:
            f[key] = "?"
    return f


def abstract(sc, world):
    namer = Namer(sc, world)
    targets = []
    uebs = []
    for e in world.events:
        if e["ev"] == "call":
            if e["m"] in ("put_crypttext_hashes", "put_block_hashes"):
                targets += e["raw"]
            elif e["m"] == "put_share_hashes":
                targets += [h for (_i, h) in e["raw"]]
            elif e["m"] == "put_uri_extension":
                try:
                    _keys, d = parse_ueb(e["raw"])
                    targets += [d[x] for x in UEB_HASHES if x in d]
                except Exception:
                    pass
        elif e["ev"] == "result" and e["kind"] == "success":
            targets += [e["raw_ueb_data"][x] for x in UEB_HASHES if x in e["raw_ueb_data"]]
    namer.close_over(targets)
    out = []
    for e in world.events:
        e = dict(e)
        if e["ev"] == "call":
            raw = e.pop("raw", None)
            m = e["m"]
            if m == "put_block":
                e["seg"] = e["seg"] if isinstance(e["seg"], int) and 0 <= e["seg"] < 1000 else 999
                e["blk"] = namer.block(raw)
                e["data"] = list(raw)
            elif m in ("put_crypttext_hashes", "put_block_hashes"):
                e["hashes"] = [namer.hash(h) for h in raw]
            elif m == "put_share_hashes":
                e["pairs"] = [[int(i), namer.hash(h)] for (i, h) in raw]
            elif m == "put_uri_extension":
                if raw not in uebs:
                    uebs.append(raw)
                try:
                    keys, d = parse_ueb(raw)
                    e["ueb"] = {"keys": keys, "sorted": keys == sorted(keys), "fields": ueb_fields(namer, d, True),
                                "len": len(raw), "copy": uebs.index(raw)}
                except Exception as ex:
                    e["ueb"] = {"keys": ["unparseable:" + type(ex).__name__], "sorted": False, "fields": {"codec_name": "?"},
                                "len": len(raw), "copy": uebs.index(raw)}
        elif e["ev"] == "result" and e["kind"] == "success":
            cap = e.pop("raw_cap")
            ud = e.pop("raw_ueb_data")
            uh = e.pop("raw_ueb_hash")
            is_v = isinstance(cap, uri.CHKFileVerifierURI)
            sent = uebs[0] if uebs else None
            e["cap"] = {"is_verify_cap": is_v,
                        "k": getattr(cap, "needed_shares", -1), "n": getattr(cap, "total_shares", -1), "size": getattr(cap, "size", -1),
                        "si_ok": getattr(cap, "storage_index", None) == SI,
                        "ueb_hash_ok": (getattr(cap, "uri_extension_hash", None) == uh
                                        and (sent is None or uh == hashutil.uri_extension_hash(sent)))}
            e["ueb_data"] = ueb_fields(namer, {key: (v if isinstance(v, bytes) else str(v).encode()) for key, v in ud.items()}, False)
        out.append(e)
    consts = {x: sc[x] for x in ("size", "k", "n", "seg", "happy", "writers", "peers", "smap0", "profile", "mode", "fail_at", "user_abort", "idx")}
    consts["canon"] = namer.canon
    return {"consts": consts, "events": out}


def main():
    ap = argparse.ArgumentParser()
    ap.add_argument("--out")
    ap.add_argument("--in", dest="inp")
    ap.add_argument("--seed", type=int, default=0)
    ap.add_argument("--tier", default="quick")
    ap.add_argument("--n", type=int, default=300)
    a = ap.parse_args()
    rng = random.Random("xenc-scenarios-%d" % a.seed)
    traces = []
    for idx in range(a.n):
        sc = make_scenario(rng, a.tier == "quick", idx)
        world = run_one(sc, a.seed)
        traces.append(abstract(sc, world))
    with open(a.out, "w") as f:
        json.dump({"traces": traces}, f)


if __name__ == "__main__":
    main()
