"""Driver of extras/write_pipeline: the real WriteBucketProxy / WriteBucketProxy_v2 (immutable/layout.py) pushed by a
scripted client against a controllable remote reference in front of a real storage-server bucket
(StorageServer.allocate_buckets -> BucketWriter behind FoolscapBucketWriter), then the real BucketReader read through
the real ReadBucketProxy.  Everything runs on the virtual reactor; the harness decides when a parked remote call is
executed and answered, in which order, and whether it fails.

Recorded per trace (kind "write"), in chronological order:
  Put {id, field, seg, data, pairs}        the client is about to call put_header / put_block / ...
  Return {id, sync}                        the call returned ("ok") or raised (class name)
  Close / CloseReturn {sync}, Abort / AbortReturn
  Send {cid, meth, off, data, ckind, cid0} rref.callRemote(meth, ...) as it leaves the proxy, with the activity that
                                           was running: ckind put/close/abort (the client call) or deliver (the
                                           callbacks of the answer to call cid0)
  Deliver {cid, fault, res}                the harness executes call cid on the server (unless a fault is injected)
                                           and fires its Deferred
  Fired {id, res}                          the Deferred that a put_* (id>0) / close (id=0) returned fired
  End {final, incoming, share, read}       after quiescence: the share on the server's disk, and what the real
                                           ReadBucketProxy returns for it
Traces of kind "read": a (possibly damaged) share image stored on a real server, every getter of ReadBucketProxy.
No attribute of the proxies is read; verdicts are TLC's (spec/immutable/TraceWritePipeline.tla)."""
from vreactor import vr, settle  # noqa: F401  (must be first)

import argparse, hashlib, json, os, random, shutil, struct, sys, tempfile

from twisted.internet import defer
from twisted.python.failure import Failure
from foolscap.api import RemoteException, DeadReferenceError

from allmydata.immutable import layout
from allmydata.storage.server import StorageServer, FoolscapStorageServer
from allmydata import hashtree


class Injected(Exception):
    pass


class Canary:
    def __init__(self):
        self.cbs, self.n = {}, 0

    def notifyOnDisconnect(self, f, *a, **kw):
        self.n += 1
        self.cbs[self.n] = (f, a, kw)
        return self.n

    def dontNotifyOnDisconnect(self, m):
        self.cbs.pop(m, None)

    def fire(self):
        cbs, self.cbs = self.cbs, {}
        for (f, a, kw) in cbs.values():
            f(*a, **kw)


class FakeServer:
    def get_name(self):
        return b"fakesrv"

    def get_serverid(self):
        return b"\x01" * 20


class Recorder:
    def __init__(self):
        self.events = []
        self.ctx = [("none", 0)]

    def ev(self, **kw):
        self.events.append(kw)


class ControlledBucketRef:
    """Stands for the RemoteReference to an RIBucketWriter: every callRemote is parked until the harness delivers it."""
    def __init__(self, rec, target, canary):
        self.rec, self.target, self.canary = rec, target, canary
        self.pending = []          # [cid, meth, args, deferred]
        self.ncalls = 0
        self.dead = False

    def callRemote(self, meth, *args):
        self.ncalls += 1
        d = defer.Deferred()
        self.pending.append((self.ncalls, meth, args, d))
        ck, cid0 = self.rec.ctx[-1]
        off, data = (args[0], list(args[1])) if meth == "write" else (0, [])
        self.rec.ev(ev="Send", cid=self.ncalls, meth=meth, off=off, data=data, ckind=ck, cid0=cid0)
        return d

    def deliver(self, index, fault):
        cid, meth, args, d = self.pending.pop(index)
        if self.dead:
            fault = "dead"
        if fault == "disconnect":
            self.dead = True
            self.canary.fire()                 # the server aborts the buckets of a lost connection
            out = Failure(DeadReferenceError("connection lost (injected)"))
        elif fault == "dead":
            out = Failure(DeadReferenceError("connection was lost (injected)"))
        elif fault == "raise":
            out = Failure(RemoteException(Failure(Injected("injected"))))
        else:
            try:
                out = getattr(self.target, "remote_" + meth)(*args)
            except Exception:
                out = Failure()
        res = "err" if isinstance(out, Failure) else "ok"
        self.rec.ev(ev="Deliver", cid=cid, fault=fault, res=res, errcls=(out.type.__name__ if res == "err" else ""))
        self.rec.ctx.append(("deliver", cid))
        try:
            if res == "err":
                d.errback(out)
            else:
                d.callback(out)
            settle()
        finally:
            self.rec.ctx.pop()


class ImmediateRef:
    """Reader side: calls are executed at once (the read path has no ordering questions here)."""
    def __init__(self, target):
        self.target = target

    def callRemote(self, meth, *args):
        return defer.maybeDeferred(getattr(self.target, "remote_" + meth), *args)


def rnd_bytes(rng, n):
    return bytes(rng.randrange(256) for _ in range(n))


def num_share_hashes(N):
    # as upload.py get_shareholders does
    return len(hashtree.IncompleteHashTree(N).needed_hashes(0, include_leaf=True))


def make_params(rng, quick):
    version = rng.choice([1, 1, 2])
    numsegs = rng.choice([1, 1, 2, 2, 3, 4] if quick else [1, 2, 3, 4, 5, 7, 8])
    blocksize = rng.randint(1, 6)
    tail = rng.randint(1, blocksize)
    N = rng.choice([1, 2, 3, 4, 5, 8, 10])
    uebsize = rng.randint(1, 40)
    p = dict(version=version, numsegs=numsegs, blocksize=blocksize, datasize=blocksize * (numsegs - 1) + tail, N=N,
             uebsize=uebsize, nsh=num_share_hashes(N))
    return p


def field_plan(p, rng):
    """The calls of a correct client, in layout order, with their payloads."""
    shs = 32 * (2 * (1 << (p["numsegs"] - 1).bit_length()) - 1)
    plan = [dict(field="header", seg=0, data=b"", pairs=[])]
    for s in range(p["numsegs"]):
        ln = p["blocksize"] if s < p["numsegs"] - 1 else p["datasize"] - p["blocksize"] * (p["numsegs"] - 1)
        plan.append(dict(field="block", seg=s, data=rnd_bytes(rng, ln), pairs=[]))
    plan.append(dict(field="crypttext", seg=0, data=rnd_bytes(rng, shs), pairs=[]))
    plan.append(dict(field="blockhashes", seg=0, data=rnd_bytes(rng, shs), pairs=[]))
    plan.append(dict(field="sharehashes", seg=0, data=b"", pairs=[(rng.randrange(65536), rnd_bytes(rng, 32)) for _ in range(p["nsh"])]))
    plan.append(dict(field="ueb", seg=0, data=rnd_bytes(rng, p["uebsize"]), pairs=[]))
    return plan


def boundaries(plan, p):
    """Cumulative byte counts after each queue operation of a correct client (interesting batch sizes live around them)."""
    fs = 4 if p["version"] == 1 else 8
    out, tot = [], 0
    for c in plan:
        if c["field"] == "header":
            lens = [0x24 if p["version"] == 1 else 0x44]
        elif c["field"] == "crypttext":
            lens = [len(c["data"]), len(c["data"])]
        elif c["field"] == "sharehashes":
            lens = [34 * len(c["pairs"])]
        elif c["field"] == "ueb":
            lens = [fs + len(c["data"])]
        else:
            lens = [len(c["data"])]
        for ln in lens:
            tot += ln
            out.append(tot)
    return out


def choose_batch(rng, plan, p):
    b = boundaries(plan, p)
    kind = rng.randrange(8)
    if kind == 0:
        return 1
    if kind == 1:
        return 1000000                     # the default
    if kind == 2:
        return b[-1] + rng.choice([-1, 0, 1])
    if kind in (3, 4):
        return max(1, rng.choice(b) + rng.choice([-1, 0, 1]))
    if kind == 5:
        return max(1, rng.choice(b[:max(1, len(b) - 3)]) + rng.choice([0, 1]))    # often splits the crypttext call
    return rng.randint(2, b[-1])


def call_put(wbp, c):
    f = c["field"]
    if f == "header":
        return wbp.put_header()
    if f == "block":
        return wbp.put_block(c["seg"], c["data"])
    h = [c["data"][i:i + 32] for i in range(0, len(c["data"]), 32)]
    if f == "crypttext":
        return wbp.put_crypttext_hashes(h)
    if f == "blockhashes":
        return wbp.put_block_hashes(h)
    if f == "sharehashes":
        return wbp.put_share_hashes(list(c["pairs"]))
    if f == "ueb":
        return wbp.put_uri_extension(c["data"])
    raise ValueError(f)


class Session:
    """One share pushed through one WriteBucketProxy."""
    def __init__(self, ss, idx, rng, quick, profile):
        self.rng, self.profile = rng, profile
        self.p = p = make_params(rng, quick)
        self.plan = field_plan(p, rng)
        p["batch"] = choose_batch(rng, self.plan, p)
        self.rec = Recorder()
        self.ss = ss
        self.si = hashlib.sha256(b"wp-si-%d" % idx).digest()[:16]
        self.canary = Canary()
        self.discipline = "waiting" if profile in ("waiting", "waiting_fault", "negative") else "eager"
        self.transport = "unordered" if profile in ("eager_unordered", "waiting", "waiting_fault") else "ordered"
        cls = layout.WriteBucketProxy if p["version"] == 1 else layout.WriteBucketProxy_v2
        # the proxy is created first: its allocated size is what the uploader asks the server for
        self.ref = ControlledBucketRef(self.rec, None, self.canary)
        self.wbp = cls(self.ref, FakeServer(), p["datasize"], p["blocksize"], p["numsegs"], p["nsh"], p["uebsize"],
                       batch_size=p["batch"])
        self.alloc = self.wbp.get_allocated_size()
        fss = FoolscapStorageServer(ss)
        already, writers = fss.remote_allocate_buckets(self.si, b"r" * 32, b"c" * 32, [0], self.alloc, self.canary)
        assert not already and 0 in writers
        self.ref.target = writers[0]
        # the script of the client
        steps = [("put", c) for c in self.plan] + [("close", None)]
        self.negative = ""
        if profile == "negative":
            kinds = ["skip", "repeat", "badsize", "earlyclose"]
            k = rng.choice(kinds)
            if k == "skip":
                i = rng.randrange(0, len(self.plan) - 1)
                steps = steps[:i] + [("put", self.plan[i + 1])]
            elif k == "repeat":
                i = rng.randrange(1, len(self.plan) + 1)
                steps = steps[:i] + [("put", self.plan[i - 1])]
            elif k == "badsize":
                cands = [i for i, c in enumerate(self.plan) if c["field"] in ("block", "blockhashes", "sharehashes", "ueb")]
                i = rng.choice(cands)
                c = dict(self.plan[i])
                delta = rng.choice([-1, 1])
                if c["field"] == "sharehashes":
                    c["pairs"] = c["pairs"][:-1] if (delta < 0 and len(c["pairs"]) > 0) else c["pairs"] + [(7, rnd_bytes(rng, 32))]
                elif c["field"] == "blockhashes":
                    c["data"] = c["data"][:-32] if delta < 0 else c["data"] + rnd_bytes(rng, 32)
                else:
                    c["data"] = c["data"][:-1] if (delta < 0 and len(c["data"]) > 0) else c["data"] + b"x"
                steps = steps[:i] + [("put", c)]
            else:
                i = rng.randrange(0, len(self.plan))
                steps = steps[:i] + [("close", None)]
            self.negative = k
        self.steps = steps
        self.pos = 0
        self.unfired = 0
        self.stopped = False       # the client saw an error (errback or exception) and gave up
        self.closed_called = False
        self.aborted = False
        self.want_abort = rng.random() < 0.75
        self.nput = 0
        self.ndeliver = 0
        self.fault_at, self.fault_kind = -1, "none"
        if profile in ("waiting_fault", "eager_fault"):
            self.fault_at = rng.choice([0, 0, 1, 1, 2, 3, 5])
            self.fault_kind = rng.choice(["raise", "raise", "disconnect"])

    # ---- client side --------------------------------------------------------------------------------------------
    def _watch(self, d, ident):
        self.unfired += 1

        def ok(r):
            self.unfired -= 1
            self.rec.ev(ev="Fired", id=ident, res="ok")

        def err(f):
            self.unfired -= 1
            self.stopped = True
            self.rec.ev(ev="Fired", id=ident, res="err")
        d.addCallbacks(ok, err)

    def client_can_act(self):
        if self.stopped:
            return self.want_abort and not self.aborted and not self.closed_ok()
        if self.pos >= len(self.steps):
            return False
        return self.discipline == "eager" or self.unfired == 0

    def closed_ok(self):
        return any(e["ev"] == "Fired" and e["id"] == 0 and e["res"] == "ok" for e in self.rec.events)

    def client_step(self):
        rec = self.rec
        if self.stopped:
            self.aborted = True
            rec.ev(ev="Abort")
            rec.ctx.append(("abort", 0))
            try:
                self.wbp.abort()
                sync = "ok"
            except Exception as e:
                sync = type(e).__name__
            finally:
                rec.ctx.pop()
            rec.ev(ev="AbortReturn", sync=sync)
            return
        kind, c = self.steps[self.pos]
        self.pos += 1
        if kind == "put":
            self.nput += 1
            ident = self.nput
            rec.ev(ev="Put", id=ident, field=c["field"], seg=c["seg"], data=list(c["data"]),
                   pairs=[{"n": n, "h": list(h)} for (n, h) in c["pairs"]])
            rec.ctx.append(("put", ident))
            d = None
            try:
                d = call_put(self.wbp, c)
                sync = "ok"
            except Exception as e:
                sync = type(e).__name__
                self.stopped = True
            finally:
                rec.ctx.pop()
            rec.ev(ev="Return", id=ident, sync=sync)
            if d is not None:
                self._watch(d, ident)
        else:
            self.closed_called = True
            rec.ev(ev="Close")
            rec.ctx.append(("close", 0))
            d = None
            try:
                d = self.wbp.close()
                sync = "ok"
            except Exception as e:
                sync = type(e).__name__
                self.stopped = True
            finally:
                rec.ctx.pop()
            rec.ev(ev="CloseReturn", sync=sync)
            if d is not None:
                self._watch(d, 0)
        settle()

    # ---- the run ------------------------------------------------------------------------------------------------
    def run(self):
        rng = self.rng
        while True:
            opts = []
            if self.client_can_act():
                opts.append("client")
            if self.ref.pending:
                opts.append("deliver")
            if not opts:
                break
            if len(opts) == 2:
                ch = "client" if rng.random() < 0.6 else "deliver"
            else:
                ch = opts[0]
            if ch == "client":
                self.client_step()
            else:
                idx = 0 if self.transport == "ordered" else rng.randrange(len(self.ref.pending))
                fault = "none"
                if self.ndeliver == self.fault_at:
                    fault = self.fault_kind
                self.ndeliver += 1
                self.ref.deliver(idx, fault)
        self.finish()
        consts = dict(self.p)
        consts.update(kind="write", profile=self.profile, discipline=self.discipline, transport=self.transport,
                      negative=self.negative)
        return {"consts": consts, "events": self.rec.events}

    def finish(self):
        ss, si = self.ss, self.si
        from allmydata.storage.common import storage_index_to_dir
        inc = os.path.join(ss.incomingdir, storage_index_to_dir(si), "0")
        readers = ss.get_buckets(si)
        final = 0 in readers
        share, read = [], {}
        if final:
            share = list(readers[0].read(0, self.alloc + 64))
            read = read_everything(FoolscapStorageServer(ss).remote_get_buckets(si)[0], si, self.p)
        self.rec.ev(ev="End", final=final, incoming=os.path.exists(inc), share=share, read=read)


def outcome(d):
    out = []
    d.addBoth(out.append)
    settle()
    if not out:
        return {"st": "hang", "data": [], "pairs": []}
    r = out[0]
    if isinstance(r, Failure):
        names = ("ShareVersionIncompatible", "RidiculouslyLargeURIExtensionBlock", "LayoutInvalid")
        nm = r.type.__name__
        return {"st": nm if nm in names else "error", "data": [], "pairs": [], "cls": nm}
    if isinstance(r, bytes):
        return {"st": "ok", "data": list(r), "pairs": []}
    if isinstance(r, list) and r and isinstance(r[0], tuple):
        return {"st": "ok", "data": [], "pairs": [{"n": n, "h": list(h)} for (n, h) in r]}
    if isinstance(r, list):
        return {"st": "ok", "data": list(b"".join(r)), "pairs": [], "lens": [len(x) for x in r]}
    return {"st": "error", "data": [], "pairs": [], "cls": "unexpected result %r" % (type(r),)}


def read_everything(fbr, si, p, blocks=None):
    """Every getter of a fresh ReadBucketProxy each (so that each one parses the header itself)."""
    def rbp():
        return layout.ReadBucketProxy(ImmediateRef(fbr), FakeServer(), si)
    res = {"blocks": []}
    bs = p["blocksize"]
    for s in range(p["numsegs"]):
        ln = bs if s < p["numsegs"] - 1 else p["datasize"] - bs * (p["numsegs"] - 1)
        res["blocks"].append({"num": s, "blocksize": bs, "size": ln, "res": outcome(rbp().get_block_data(s, bs, ln))})
    res["crypttext"] = outcome(rbp().get_crypttext_hashes())
    res["blockhashes"] = outcome(rbp().get_block_hashes(at_least_these={0}))
    res["sharehashes"] = outcome(rbp().get_share_hashes())
    res["ueb"] = outcome(rbp().get_uri_extension())
    return res


# ---- reader traces: a share image, possibly damaged, stored on a real server --------------------------------------
def build_image(p, plan):
    """A correct share image, produced by the real writer with nothing in between."""
    class Direct:
        def __init__(self):
            self.buf = bytearray()

        def callRemote(self, meth, *args):
            if meth == "write":
                off, data = args
                self.buf[off:off + len(data)] = data
            return defer.succeed(None)
    ref = Direct()
    cls = layout.WriteBucketProxy if p["version"] == 1 else layout.WriteBucketProxy_v2
    # the reader is judged against whatever image is stored (the Spec's reader operators are applied to the image
    # itself), so a writer that misbehaves here must not stop the run: the write traces are there to flag it
    try:
        w = cls(ref, FakeServer(), p["datasize"], p["blocksize"], p["numsegs"], p["nsh"], p["uebsize"], batch_size=100)
        for c in plan:
            call_put(w, c)
        w.close()
        settle()
    except Exception:
        pass
    img = bytes(ref.buf)
    return img if len(img) >= 0x44 else img + b"\x00" * (0x44 - len(img))


def damage(rng, img, p):
    fs = 4 if p["version"] == 1 else 8
    img = bytearray(img)
    hdr = 0x24 if p["version"] == 1 else 0x44
    base = 0x0c if p["version"] == 1 else 0x14
    fmt = ">L" if p["version"] == 1 else ">Q"

    def off(j):
        return struct.unpack(fmt, img[base + j * fs: base + (j + 1) * fs])[0]

    def setoff(j, v):
        img[base + j * fs: base + (j + 1) * fs] = struct.pack(fmt, v)
    kind = rng.choice(["none", "version", "truncate", "truncate_hdr", "ueblen", "ueblen", "sh_off", "ueb_off", "ueb_off_far", "bh_off"])
    if kind == "version":
        img[0:4] = struct.pack(">L", rng.choice([0, 3, 7, 1 if p["version"] == 2 else 2, 256]))
    elif kind == "truncate":
        img = img[:rng.randrange(hdr, len(img))]
    elif kind == "truncate_hdr":
        img = img[:rng.randrange(1, hdr)]
    elif kind == "ueblen":
        u = off(5)
        img[u:u + fs] = struct.pack(fmt, rng.choice([0, 1, p["uebsize"] - 1, p["uebsize"] + 5, 1999, 2000, 2001, 70000]))
    elif kind == "sh_off":
        setoff(4, off(4) + rng.choice([1, 2, 33, 34]))
    elif kind == "ueb_off":
        setoff(5, off(5) + rng.choice([-34, -1, 1, 3]))
    elif kind == "ueb_off_far":
        setoff(5, off(4) + 34 * rng.randrange(20, 40))
    elif kind == "bh_off":
        setoff(3, max(off(2), off(3) - rng.choice([1, 32])))
    return kind, bytes(img)


def read_session(ss, idx, rng, quick):
    p = make_params(rng, quick)
    plan = field_plan(p, rng)
    img0 = build_image(p, plan)
    try:
        kind, img = damage(rng, img0, p)
    except Exception:
        kind, img = "none", img0          # an image the real writer got wrong: read it as it is
    si = hashlib.sha256(b"wp-rd-%d" % idx).digest()[:16]
    fss = FoolscapStorageServer(ss)
    already, writers = fss.remote_allocate_buckets(si, b"r" * 32, b"c" * 32, [0], len(img), Canary())
    writers[0].remote_write(0, img)
    writers[0].remote_close()
    fbr = fss.remote_get_buckets(si)[0]
    read = read_everything(fbr, si, p)
    events = [{"ev": "Get", "what": "block", "num": b["num"], "blocksize": b["blocksize"], "size": b["size"], "res": b["res"]} for b in read["blocks"]]
    for w in ("crypttext", "blockhashes", "sharehashes", "ueb"):
        events.append({"ev": "Get", "what": w, "num": 0, "blocksize": 0, "size": 0, "res": read[w]})
    consts = dict(p)
    consts.update(kind="read", profile="read_" + kind, image=list(img), batch=0, discipline="", transport="", negative="")
    return {"consts": consts, "events": events}


PROFILES = ["waiting"] * 5 + ["waiting_fault"] * 3 + ["eager_ordered"] * 3 + ["eager_unordered"] * 2 + ["eager_fault"] * 2 + \
           ["negative"] * 3 + ["read"] * 4


def main():
    ap = argparse.ArgumentParser()
    ap.add_argument("--out", required=True)
    ap.add_argument("--seed", type=int, default=0)
    ap.add_argument("--tier", default="quick")
    ap.add_argument("--n", type=int, default=150)
    ap.add_argument("--profile", default="")
    a = ap.parse_args()
    quick = a.tier == "quick"
    base = tempfile.mkdtemp(prefix="wp_driver_")
    traces = []
    try:
        ss = StorageServer(os.path.join(base, "storage"), b"\x02" * 20, clock=vr)
        for i in range(a.n):
            rng = random.Random("wp-%d-%d" % (a.seed, i))
            profile = a.profile or PROFILES[i % len(PROFILES)]
            if profile == "read":
                traces.append(read_session(ss, i, rng, quick))
            else:
                traces.append(Session(ss, i, rng, quick, profile).run())
    finally:
        shutil.rmtree(base, ignore_errors=True)
    with open(a.out, "w") as f:
        json.dump({"traces": traces}, f)


if __name__ == "__main__":
    main()
