"""C45 driver: immutable check / verify / repair of the real code on SimGrid.

For every scenario: upload a random file with random encoding parameters to a
fresh grid, rearrange the share files into a layout (any placement of share
numbers on servers, several per server, duplicates), damage shares field by
field using the real offset table (allmydata.immutable.layout.ReadBucketProxy
parses it), then run

    node.check(Monitor())                         -> event "check"  verify=false
    node.check(Monitor(), verify=True)            -> event "check"  verify=true
    node.check_and_repair(Monitor(), verify=V)    -> event "repair" (+ files read back)
    node.check(Monitor(), verify=True)            -> event "check"  on the repaired grid
    <delete every pre-existing share file>, read through the ORIGINAL read-cap -> event "read_new"

and record one trace per scenario for TraceCheckRepair.tla.  Half of the
scenarios run check/repair on the node made from the *verify-cap*
(CiphertextFileNode); the final read always uses the read-cap.

The driver never judges: it abstracts results (server names, share numbers,
booleans, counts) and file observations (same / altered / genuine / bad,
by byte comparison with the pristine shares).
"""
import argparse, json, os, random, shutil, struct, sys, tempfile

from vreactor import vr, settle
from grid import Grid, Hang, download_to_data
from allmydata.immutable import upload, layout
from allmydata.monitor import Monitor
from allmydata import uri
from allmydata.storage.immutable import ShareFile
from allmydata.storage.common import storage_index_to_dir
from allmydata.util import fileutil

VFIELDS = ["data", "crypttext_hash_tree", "block_hashes", "share_hashes", "uri_extension", "offsets", "version"]
ALLKINDS = VFIELDS + ["ignored", "foreign_blocks"]


def parse_offsets(body):
    """Offsets of the share sections as the code under test reads them."""
    rbp = layout.ReadBucketProxy(None, None, b"")
    offs = dict(rbp._parse_offsets(body[:0x44]))
    offs["_fieldsize"] = rbp._fieldsize
    offs["_version"] = rbp._version
    return offs


def container_split(raw):
    ver, unused, nleases = struct.unpack(">LLL", raw[:12])
    end = len(raw) - 72 * nleases
    return raw[:12], raw[12:end], raw[end:]


def body_of(path):
    with open(path, "rb") as f:
        raw = f.read()
    return container_split(raw)[1]


def damage_body(body, kind, rng, others, pristine):
    """Return the damaged share body.  `others` = pristine bodies of the other share numbers;
    sections are located with the offset table of the pristine share."""
    o = parse_offsets(pristine)
    assert o["_version"] == 1, "driver handles v1 share layout"
    b = bytearray(body)
    end = len(b)
    regions = {
        "data": (o["data"], o["plaintext_hash_tree"]),
        "crypttext_hash_tree": (o["crypttext_hash_tree"], o["block_hashes"]),
        "block_hashes": (o["block_hashes"], o["share_hashes"]),
        "share_hashes": (o["share_hashes"], o["uri_extension"]),
        # the UEB itself; its length word is left alone (a larger length is clipped by the server at the
        # end of the share and yields the same UEB: harmless and not covered by any hash)
        "uri_extension": (o["uri_extension"] + o["_fieldsize"], end),
        "version": (0, 4),
    }
    where = None
    if kind in regions:
        lo, hi = regions[kind]
        assert hi > lo, (kind, lo, hi)
        pos = rng.randrange(lo, hi)
        bit = rng.randrange(8)
        b[pos] ^= (1 << bit)
        where = [pos, bit]
    elif kind == "offsets":
        # the five offsets the readers use: data, crypttext_hash_tree, block_hashes, share_hashes, uri_extension
        word = rng.choice([0x0c, 0x14, 0x18, 0x1c, 0x20])
        pos = word + rng.randrange(4)
        bit = rng.randrange(8)
        b[pos] ^= (1 << bit)
        where = [pos, bit]
    elif kind == "ignored":
        # fields no reader uses: block size, data size, plaintext_hash_tree offset, plaintext hash tree region
        cands = list(range(0x04, 0x0c)) + list(range(0x10, 0x14)) + list(range(o["plaintext_hash_tree"], o["crypttext_hash_tree"]))
        pos = rng.choice(cands)
        bit = rng.randrange(8)
        b[pos] ^= (1 << bit)
        where = [pos, bit]
    elif kind == "foreign_blocks":
        # blocks and block hash tree of another share of the same file: self-consistent, but not this share's
        src = others[rng.randrange(len(others))]
        assert src[o["data"]:o["plaintext_hash_tree"]] != body[o["data"]:o["plaintext_hash_tree"]], "foreign blocks equal (k=1?)"
        b[o["data"]:o["plaintext_hash_tree"]] = src[o["data"]:o["plaintext_hash_tree"]]
        b[o["block_hashes"]:o["share_hashes"]] = src[o["block_hashes"]:o["share_hashes"]]
        where = [o["data"], -1]
    else:
        raise ValueError(kind)
    return bytes(b), where


def abstract_check(g, cr):
    name = lambda srv: srv.name
    sm = sorted([name(s), int(n)] for n, servers in cr.get_sharemap().items() for s in servers)
    return {
        "status": "ok",
        "healthy": bool(cr.is_healthy()), "recoverable": bool(cr.is_recoverable()),
        "good": int(cr.get_share_counter_good()), "hosts": int(cr.get_host_counter_good_shares()),
        "needed": int(cr.get_encoding_needed()), "expected": int(cr.get_encoding_expected()),
        "sharemap": sm,
        "corrupt": sorted([name(s), int(n)] for (s, si, n) in cr.get_corrupt_shares()),
        "incompatible": sorted([name(s), int(n)] for (s, si, n) in cr.get_incompatible_shares()),
        "responding": sorted(name(s) for s in cr.get_servers_responding()),
    }


class Scenario:
    def __init__(self, idx, seed, workdir, spec=None):
        self.idx = idx
        self.rng = rng = random.Random(seed * 1000003 + idx)
        spec = spec or {}
        self.kinds = spec.get("kinds")          # optional restriction of damage kinds
        self.k = spec.get("k") or rng.choice([1, 2, 2, 2, 3])
        if self.kinds and "foreign_blocks" in self.kinds and self.k == 1:
            self.k = 2          # with k = 1 all shares carry the same blocks
        self.n = spec.get("n") or rng.randint(max(2, self.k), min(5, self.k + 3))
        self.nservers = spec.get("servers") or rng.randint(2, 5)
        self.seg = rng.choice([self.k * 4, self.k * 8, self.k * 16, 1024])
        self.size = rng.choice([56, 57, rng.randint(58, 90), rng.randint(91, 400)])
        self.data = bytes(rng.randrange(256) for _ in range(self.size))
        self.dir = os.path.join(workdir, "sc%d" % idx)
        self.g = Grid(self.dir, num_servers=self.nservers, k=self.k, n=self.n, happy=1,
                      max_segment_size=self.seg, seed=idx, policy=random.Random(seed * 7919 + idx))
        self.g.log_calls = False
        self.events = []
        self.use_verifycap = spec.get("verifycap", rng.random() < 0.5)
        self.repair_verify = spec.get("repair_verify", rng.random() < 0.7)
        self.family = spec.get("family", "random")

    # ---- share files ----
    def sharepath(self, sname, shnum):
        srv = self.g.servers[sname]
        return os.path.join(srv.ss.sharedir, storage_index_to_dir(self.si), str(shnum))

    def present(self):
        out = {}
        for sname, d in self.g.shares(self.si).items():
            for shnum, p in d.items():
                out[(sname, shnum)] = p
        return out

    def fresh_node(self, verifycap):
        nm = self.g.make_nodemaker()
        return nm.create_from_cap(self.vcap if verifycap else self.cap)

    def run(self):
        g, rng = self.g, self.rng
        res = g.run(g.uploader.upload(upload.Data(self.data, convergence=b"conv%d" % self.idx)))
        self.cap = res.get_uri()
        u = uri.from_string(self.cap)
        self.vcap = u.get_verify_cap().to_string()
        self.si = u.get_storage_index()
        # pristine raw files and bodies per share number
        raw = {}
        for (sname, shnum), p in self.present().items():
            with open(p, "rb") as f:
                raw[shnum] = f.read()
        assert sorted(raw) == list(range(self.n)), sorted(raw)
        self.pristine = {n_: container_split(r)[1] for n_, r in raw.items()}
        for p in self.present().values():
            os.remove(p)
        # ---- layout: any placement of share numbers on servers, then damage ----
        servers = sorted(g.servers)
        lay = {s: {} for s in servers}
        fam = self.family
        if fam == "single":
            # full healthy placement with exactly one damaged / deleted share
            for n_ in range(self.n):
                lay[servers[n_ % len(servers)]][n_] = []
        else:
            # any placement: each share number on 0..3 servers; shapes chosen so that unhealthy,
            # unrecoverable, duplicated and crowded layouts all occur
            shape = rng.choice(["sparse", "sparse", "half", "dense", "spread"])
            for n_ in range(self.n):
                if shape == "sparse":
                    cnt = rng.choice([0, 0, 1, 1, 2])
                elif shape == "half":
                    cnt = rng.choice([0, 1, 1, 2])
                elif shape == "dense":
                    cnt = rng.choice([1, 2, 3])
                else:
                    cnt = 1 if rng.random() < 0.85 else 0
                for s in rng.sample(servers, min(cnt, len(servers))):
                    lay[s][n_] = []
        kinds = self.kinds or [x for x in ALLKINDS if x != "foreign_blocks"]
        positions = [(s, n_) for s in servers for n_ in lay[s]]
        if fam == "single":
            victim = rng.choice(positions)
            what = rng.choice(kinds + ["missing"])
            if what == "missing":
                del lay[victim[0]][victim[1]]
            else:
                lay[victim[0]][victim[1]] = [what]
        else:
            pd = rng.choice([0.0, 0.2, 0.5, 0.8])
            for (s, n_) in positions:
                if rng.random() < pd:
                    ks = [rng.choice(kinds)]
                    if rng.random() < 0.25:
                        ks.append(rng.choice(kinds))
                    lay[s][n_] = sorted(set(ks))
        self.where = []
        for s in servers:
            for n_, dmg in lay[s].items():
                body = self.pristine[n_]
                # the substitution first, single-bit flips afterwards (sections are disjoint)
                for kind in sorted(dmg, key=lambda x: (x != "foreign_blocks", x)):
                    others = [self.pristine[m] for m in sorted(self.pristine) if m != n_]
                    body, where = damage_body(body, kind, rng, others, self.pristine[n_])
                    self.where.append([s, n_, kind] + where)
                hdr, _, leases = container_split(raw[n_])
                p = self.sharepath(s, n_)
                fileutil.make_dirs(os.path.dirname(p))
                with open(p, "wb") as f:
                    f.write(hdr + body + leases)
        self.layout = {s: {str(n_): {"dmg": list(dmg)} for n_, dmg in lay[s].items()} for s in servers}

        # ---- check without and with verification ----
        for verify in (False, True):
            self.do_check(verify)
        # ---- check and repair ----
        before = {}
        for pos, p in self.present().items():
            with open(p, "rb") as f:
                before[pos] = container_split(f.read())[1]
        node = self.fresh_node(self.use_verifycap)
        ev = {"ev": "repair", "verify": self.repair_verify, "verifycap": self.use_verifycap}
        try:
            crr = g.run(node.check_and_repair(Monitor(), verify=self.repair_verify))
            g.drain()
            ev["outcome"] = "done"
            ev["attempted"] = bool(crr.get_repair_attempted())
            ev["successful"] = bool(crr.get_repair_successful())
            ev["pre"] = abstract_check(g, crr.get_pre_repair_results())
            ev["post"] = abstract_check(g, crr.get_post_repair_results())
        except Hang as e:
            ev["outcome"] = "hang"
            ev["attempted"] = True
            ev["successful"] = False
            ev["pre"] = {"status": "none"}
            ev["post"] = {"status": "none"}
        except Exception as e:
            g.drain()
            ev["outcome"] = "failed"
            ev["error"] = type(e).__name__
            ev["attempted"] = True
            ev["successful"] = False
            ev["pre"] = {"status": "none"}
            ev["post"] = {"status": "none"}
        # files read back: pre-existing same/altered, new genuine/bad
        after = self.present()
        obs_old, new = [], []
        for pos, body in sorted(before.items()):
            if pos not in after:
                obs_old.append([pos[0], pos[1], "vanished"])
                continue
            with open(after[pos], "rb") as f:
                b2 = container_split(f.read())[1]
            # share data (everything but the container's lease area, which allocate_buckets renews)
            obs_old.append([pos[0], pos[1], "same" if b2 == body else "altered"])
        for pos, p in sorted(after.items()):
            if pos in before:
                continue
            b2 = body_of(p)
            new.append([pos[0], pos[1], "genuine" if b2 == self.pristine[pos[1]] else "bad"])
        ev["old"] = obs_old
        ev["new"] = new
        self.events.append(ev)
        # ---- verify the repaired grid ----
        self.do_check(True)
        # ---- read from the repaired (new) shares alone, through the original read-cap ----
        for pos in before:
            if pos in after:
                os.remove(after[pos])
        self.do_read("read_new")
        g.close()
        return {"consts": {"K": self.k, "N": self.n, "Servers": servers, "family": self.family,
                           "size": self.size, "seg": self.seg, "idx": self.idx},
                "layout": self.layout, "events": self.events, "where": self.where}

    def do_check(self, verify):
        g = self.g
        node = self.fresh_node(self.use_verifycap)
        ev = {"ev": "check", "verify": verify, "verifycap": self.use_verifycap}
        try:
            cr = g.run(node.check(Monitor(), verify=verify))
            g.drain()
            ev["res"] = abstract_check(g, cr)
        except Hang:
            ev["res"] = {"status": "hang"}
        except Exception as e:
            g.drain()
            ev["res"] = {"status": "error", "error": type(e).__name__, "msg": str(e)[:200]}
        self.events.append(ev)

    def do_read(self, name):
        g = self.g
        node = self.fresh_node(False)
        ev = {"ev": name}
        try:
            got = g.run(download_to_data(node))
            g.drain()
            ev["res"] = "ok" if got == self.data else "wrong"
        except Hang:
            ev["res"] = "hang"
        except Exception as e:
            try:
                g.drain()
            except Exception:
                pass
            ev["res"] = "fail"
            ev["error"] = type(e).__name__
        self.events.append(ev)


def main():
    ap = argparse.ArgumentParser()
    ap.add_argument("--out")
    ap.add_argument("--seed", type=int, default=0)
    ap.add_argument("--tier", default="quick")
    ap.add_argument("--in", dest="inp")
    ap.add_argument("--n", type=int, default=100)
    ap.add_argument("--family", default="random")
    ap.add_argument("--kinds", default="")
    ap.add_argument("--salt", type=int, default=0)
    a = ap.parse_args()
    work = tempfile.mkdtemp(prefix="c45drv")
    if a.inp:
        with open(a.inp) as f:
            plan = json.load(f)["plan"]
    else:
        plan = [{"family": a.family, "n": a.n, "kinds": a.kinds, "salt": a.salt}]
    traces = []
    try:
        for part in plan:
            for i in range(part["n"]):
                spec = {"family": part["family"]}
                if part.get("kinds"):
                    spec["kinds"] = part["kinds"].split(",")
                sc = Scenario(i, a.seed * 101 + part.get("salt", 0), work, spec)
                tr = sc.run()
                tr["consts"]["part"] = part.get("name", part["family"])
                traces.append(tr)
                shutil.rmtree(sc.dir, ignore_errors=True)
    finally:
        shutil.rmtree(work, ignore_errors=True)
    with open(a.out, "w") as f:
        json.dump(traces, f)


if __name__ == "__main__":
    main()
