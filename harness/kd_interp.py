"""Independent interpreter of the derivation terms of spec/caps/KeyDerivation.tla.
Only hashlib: SHA256d(netstring(tag) + ...) as the specification documents describe it.
It does not import anything from allmydata.

evaluate(table, name, env)  value of derivation `name`; env maps names to given values
                            (bytes, or int for Dec); a name not in env is derived from the table.
"""
import hashlib


def netstring(b):
    return b"%d:" % len(b) + b + b","


def sha256d(b):
    return hashlib.sha256(hashlib.sha256(b).digest()).digest()


def value(table, name, env):
    if name in env:
        return env[name]
    if name not in table:
        raise KeyError("no value for input %r" % name)
    return term(table, table[name], env)


def term(table, t, env):
    op = t["op"]
    if op == "v":
        v = value(table, t["name"], env)
        assert isinstance(v, bytes), (t, v)
        return v
    if op == "lit":
        return t["s"].encode("ascii")
    if op == "dec":
        v = value(table, t["name"], env)
        assert isinstance(v, int)
        return b"%d" % v
    if op == "ns":
        return netstring(term(table, t["arg"], env))
    if op == "cat":
        return b"".join(term(table, p, env) for p in t["parts"])
    if op == "th":
        return sha256d(netstring(term(table, t["tag"], env)) + term(table, t["arg"], env))[:t["len"]]
    if op == "tph":
        return sha256d(netstring(term(table, t["tag"], env)) + netstring(term(table, t["a"], env)) +
                       netstring(term(table, t["b"], env)))[:t["len"]]
    raise ValueError("unknown term %r" % (t,))


def evaluate(table, name, env):
    return term(table, table[name], env)


def refs(t):
    """names whose value a term uses"""
    op = t["op"]
    if op in ("v", "dec"):
        return {t["name"]}
    if op == "lit":
        return set()
    if op == "ns":
        return refs(t["arg"])
    if op == "cat":
        return set().union(*[refs(p) for p in t["parts"]])
    if op == "th":
        return refs(t["tag"]) | refs(t["arg"])
    return refs(t["tag"]) | refs(t["a"]) | refs(t["b"])
