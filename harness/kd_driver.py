"""C17 driver: compare the real key/secret derivations of tahoe-lafs with the terms of
spec/caps/KeyDerivation.tla (table read from --in, produced by TLC), evaluated by the
independent interpreter harness/kd_interp.py.

  unit:  every derivation, at every call site that computes it (hashutil helpers, uri classes,
         SecretHolder, MutableFileNode secrets, derive_mutable_keys, dirnode rw-cap encryption),
         on seeded inputs of the documented lengths + the published lease test vectors;
  e2e:   on a SimGrid, the bytes that real uploads / publishes / lease additions present to each
         storage server (bucket renewal / cancel secrets, write enablers, storage indexes) and
         the bytes at rest (mutable share: data key, encrypted signing key; directory: child
         write-cap key) must be exactly what the terms predict from the primitive inputs.
"""
import argparse, base64, json, os, random, sys

from vreactor import vr, settle  # noqa: F401
from cryptography.hazmat.primitives.ciphers import Cipher, algorithms, modes

import kd_interp as KD


def b32(b):
    return base64.b32encode(b).rstrip(b"=").lower().decode()


def unb32(s):
    if isinstance(s, str):
        s = s.encode()
    s = s.upper()
    return base64.b32decode(s + b"=" * ((8 - len(s) % 8) % 8))


def aes_ctr(key, data):
    c = Cipher(algorithms.AES(key), modes.CTR(b"\x00" * 16)).encryptor()
    return c.update(data) + c.finalize()


class Out:
    def __init__(self):
        self.mism = {}
        self.n = 0
        self.per = {}
        self.samples = []

    def cmp(self, deriv, site, expected, got, inputs=None):
        self.n += 1
        k = "%s@%s" % (deriv, site)
        self.per[k] = self.per.get(k, 0) + 1
        if len(self.samples) < 5 and self.n % 211 == 7:
            self.samples.append({"derivation": deriv, "site": site, "spec": b32(expected) if isinstance(expected, bytes) else expected,
                                 "code": b32(got) if isinstance(got, bytes) else repr(got)})
        if expected != got:
            key = "C17:%s:%s" % (deriv, site)
            e = self.mism.setdefault(key, {"key": key, "count": 0, "examples": [],
                                           "what": "%s computed at %s differs from the specified term" % (deriv, site)})
            e["count"] += 1
            if len(e["examples"]) < 2:
                e["examples"].append({"inputs": {a: (b32(v) if isinstance(v, bytes) else v) for a, v in (inputs or {}).items()},
                                      "spec_b32": b32(expected) if isinstance(expected, bytes) else repr(expected),
                                      "code_b32": b32(got) if isinstance(got, bytes) else repr(got)})


VECTORS = [  # docs/specifications/derive_renewal_secret.py
    ("boity2cdh7jvl3ltaeebuiobbspjmbuopnwbde2yeh4k6x7jioga", "vrttmwlicrzbt7gh5qsooogr7u", "v67jiisoty6ooyxlql5fuucitqiok2ic", "osd6wmc5vz4g3ukg64sitmzlfiaaordutrez7oxdp5kkze7zp5zq"),
    ("boity2cdh7jvl3ltaeebuiobbspjmbuopnwbde2yeh4k6x7jioga", "75gmmfts772ww4beiewc234o5e", "v67jiisoty6ooyxlql5fuucitqiok2ic", "35itmusj7qm2pfimh62snbyxp3imreofhx4djr7i2fweta75szda"),
    ("boity2cdh7jvl3ltaeebuiobbspjmbuopnwbde2yeh4k6x7jioga", "75gmmfts772ww4beiewc234o5e", "lh5fhobkjrmkqjmkxhy3yaonoociggpz", "srrlruge47ws3lm53vgdxprgqb6bz7cdblnuovdgtfkqrygrjm4q"),
    ("vacviff4xfqxsbp64tdr3frg3xnkcsuwt5jpyat2qxcm44bwu75a", "75gmmfts772ww4beiewc234o5e", "lh5fhobkjrmkqjmkxhy3yaonoociggpz", "b4jledjiqjqekbm2erekzqumqzblegxi23i5ojva7g7xmqqnl5pq"),
]


class FakeServer:
    def __init__(self, peerid):
        self.peerid = peerid

    def get_lease_seed(self):
        return self.peerid

    def get_foolscap_write_enabler_seed(self):
        return self.peerid


def unit(T, rng, o, rounds):
    from allmydata.util import hashutil as H
    from allmydata import uri, hashtree, dirnode
    from allmydata.client import SecretHolder
    from allmydata.mutable.filenode import MutableFileNode
    from allmydata.mutable.common import derive_mutable_keys
    from allmydata.crypto import rsa
    E = lambda name, env: KD.evaluate(T, name, env)
    rb = lambda n: bytes(rng.randrange(256) for _ in range(n))
    rv = lambda: rb(rng.choice([0, 1, 15, 16, 17, 31, 32, 33, 64, rng.randrange(0, 300)]))

    # published vectors: the Spec + interpreter against the documentation, then the code
    for ls, si, tub, exp in VECTORS:
        env = {"lease_secret": unb32(ls), "storage_index": unb32(si), "peerid": unb32(tub)}
        o.cmp("bucket_renewal_secret", "published_vector(spec)", unb32(exp), E("bucket_renewal_secret", env), env)
        sh = SecretHolder(env["lease_secret"], b"")
        got = H.bucket_renewal_secret_hash(H.file_renewal_secret_hash(sh.get_renewal_secret(), env["storage_index"]), env["peerid"])
        o.cmp("bucket_renewal_secret", "published_vector(code)", unb32(exp), got, env)

    with open(os.path.join(os.path.dirname(os.path.abspath(__file__)), "rsa_keys.json")) as f:
        ders = [base64.b64decode(x) for x in json.load(f)]

    for r in range(rounds):
        d = rv()
        for name, fn, hasher in [("uri_extension_hash", H.uri_extension_hash, H.uri_extension_hasher), ("block_hash", H.block_hash, H.block_hasher),
                                 ("plaintext_hash", H.plaintext_hash, H.plaintext_hasher), ("crypttext_hash", H.crypttext_hash, H.crypttext_hasher),
                                 ("crypttext_segment_hash", H.crypttext_segment_hash, H.crypttext_segment_hasher),
                                 ("plaintext_segment_hash", H.plaintext_segment_hash, H.plaintext_segment_hasher)]:
            exp = E(name, {"data": d})
            o.cmp(name, "hashutil." + fn.__name__, exp, fn(d), {"data": d})
            h = hasher()
            cut = rng.randrange(len(d) + 1)
            h.update(d[:cut])
            h.update(d[cut:])
            o.cmp(name, "hashutil." + hasher.__name__, exp, h.digest(), {"data": d})
        o.cmp("backupdb_dirhash", "hashutil.backupdb_dirhash", E("backupdb_dirhash", {"data": d}), H.backupdb_dirhash(d), {"data": d})
        i = rng.choice([0, 1, 7, 255, rng.randrange(10 ** 6)])
        o.cmp("merkle_empty_leaf", "hashtree.empty_leaf_hash", E("merkle_empty_leaf", {"i": i}), hashtree.empty_leaf_hash(i), {"i": i})
        a, b = rb(32), rb(32)
        o.cmp("merkle_pair", "hashtree.pair_hash", E("merkle_pair", {"left": a, "right": b}), hashtree.pair_hash(a, b), {"left": a, "right": b})

        # immutable: key -> storage index; convergence
        key = rb(16)
        env = {"chk_key": key}
        exp = E("chk_storage_index", env)
        o.cmp("chk_storage_index", "hashutil.storage_index_hash", exp, H.storage_index_hash(key), env)
        u = uri.CHKFileURI(key, rb(32), 3, 10, 1234)
        o.cmp("chk_storage_index", "uri.CHKFileURI", exp, u.get_storage_index(), env)
        o.cmp("chk_storage_index", "uri.CHKFileURI.get_verify_cap", exp, u.get_verify_cap().get_storage_index(), env)
        o.cmp("chk_storage_index", "uri.from_string(CHK)", exp, uri.from_string(u.to_string()).get_storage_index(), env)
        k = rng.randrange(1, 20)
        n = rng.randrange(k, 40)
        env = {"convergence_secret": rb(rng.choice([32, 32, 0, 5])), "k": k, "n": n, "segsize": rng.choice([1, k, 131072, rng.randrange(1, 10 ** 7)]),
               "plaintext": rv()}
        exp = E("convergence_key", env)
        o.cmp("convergence_key", "hashutil.convergence_hash", exp,
              H.convergence_hash(env["k"], env["n"], env["segsize"], env["plaintext"], env["convergence_secret"]), env)
        h = H.convergence_hasher(env["k"], env["n"], env["segsize"], env["convergence_secret"])
        h.update(env["plaintext"])
        o.cmp("convergence_key", "hashutil.convergence_hasher", exp, h.digest(), env)

        # lease secrets, level by level and end to end
        ls, si, pid = rb(32), rb(16), rb(20)
        sh = SecretHolder(ls, b"conv")
        env = {"lease_secret": ls}
        o.cmp("client_renewal_secret", "hashutil.my_renewal_secret_hash", E("client_renewal_secret", env), H.my_renewal_secret_hash(ls), env)
        o.cmp("client_cancel_secret", "hashutil.my_cancel_secret_hash", E("client_cancel_secret", env), H.my_cancel_secret_hash(ls), env)
        o.cmp("client_renewal_secret", "client.SecretHolder", E("client_renewal_secret", env), sh.get_renewal_secret(), env)
        o.cmp("client_cancel_secret", "client.SecretHolder", E("client_cancel_secret", env), sh.get_cancel_secret(), env)
        crs, ccs = rb(32), rb(32)
        env = {"client_renewal_secret": crs, "client_cancel_secret": ccs, "storage_index": si}
        o.cmp("file_renewal_secret", "hashutil.file_renewal_secret_hash", E("file_renewal_secret", env), H.file_renewal_secret_hash(crs, si), env)
        o.cmp("file_cancel_secret", "hashutil.file_cancel_secret_hash", E("file_cancel_secret", env), H.file_cancel_secret_hash(ccs, si), env)
        frs, fcs = rb(32), rb(32)
        env = {"file_renewal_secret": frs, "file_cancel_secret": fcs, "peerid": pid}
        o.cmp("bucket_renewal_secret", "hashutil.bucket_renewal_secret_hash", E("bucket_renewal_secret", env), H.bucket_renewal_secret_hash(frs, pid), env)
        o.cmp("bucket_cancel_secret", "hashutil.bucket_cancel_secret_hash", E("bucket_cancel_secret", env), H.bucket_cancel_secret_hash(fcs, pid), env)

        # mutable chain from the keys of a real RSA key pair
        der = ders[r % len(ders)]
        priv, pub = rsa.create_signing_keypair_from_string(der)
        priv_s, pub_s = rsa.der_string_from_signing_key(priv), rsa.der_string_from_verifying_key(pub)
        env0 = {"privkey_der": priv_s, "pubkey_der": pub_s}
        wk, encpriv, fp = derive_mutable_keys((pub, priv))
        o.cmp("ssk_writekey", "mutable.common.derive_mutable_keys", E("ssk_writekey", env0), wk)
        o.cmp("ssk_fingerprint", "mutable.common.derive_mutable_keys", E("ssk_fingerprint", env0), fp)
        o.cmp("ssk_writekey", "derive_mutable_keys.encprivkey", priv_s, aes_ctr(E("ssk_writekey", env0), encpriv))
        o.cmp("ssk_writekey", "hashutil.ssk_writekey_hash", E("ssk_writekey", env0), H.ssk_writekey_hash(priv_s))
        o.cmp("ssk_fingerprint", "hashutil.ssk_pubkey_fingerprint_hash", E("ssk_fingerprint", env0), H.ssk_pubkey_fingerprint_hash(pub_s))
        x = rv()
        o.cmp("ssk_writekey", "hashutil.ssk_writekey_hash", E("ssk_writekey", {"privkey_der": x}), H.ssk_writekey_hash(x), {"privkey_der": x})
        o.cmp("ssk_fingerprint", "hashutil.ssk_pubkey_fingerprint_hash", E("ssk_fingerprint", {"pubkey_der": x}), H.ssk_pubkey_fingerprint_hash(x), {"pubkey_der": x})
        wk = rb(16) if r % 2 else wk
        fp = rb(32)
        env = {"ssk_writekey": wk, "peerid": pid}
        rk, sidx = E("ssk_readkey", env), E("ssk_storage_index", env)
        o.cmp("ssk_readkey", "hashutil.ssk_readkey_hash", rk, H.ssk_readkey_hash(wk), env)
        o.cmp("ssk_storage_index", "hashutil.ssk_storage_index_hash", E("ssk_storage_index", {"ssk_readkey": rk}), H.ssk_storage_index_hash(rk), {"ssk_readkey": rk})
        for cls, rocls, vcls, nm in [(uri.WriteableSSKFileURI, uri.ReadonlySSKFileURI, uri.SSKVerifierURI, "SSK"),
                                     (uri.WriteableMDMFFileURI, uri.ReadonlyMDMFFileURI, uri.MDMFVerifierURI, "MDMF")]:
            w = cls(wk, fp)
            o.cmp("ssk_readkey", "uri.Writeable%sFileURI" % nm, rk, w.readkey, env)
            o.cmp("ssk_storage_index", "uri.Writeable%sFileURI" % nm, sidx, w.get_storage_index(), env)
            o.cmp("ssk_readkey", "uri.Writeable%sFileURI.get_readonly" % nm, rk, w.get_readonly().readkey, env)
            o.cmp("ssk_storage_index", "uri.Writeable%sFileURI.get_readonly" % nm, sidx, w.get_readonly().get_storage_index(), env)
            o.cmp("ssk_storage_index", "uri.Writeable%sFileURI.get_verify_cap" % nm, sidx, w.get_verify_cap().get_storage_index(), env)
            ro = rocls(rk, fp)
            o.cmp("ssk_storage_index", "uri.Readonly%sFileURI" % nm, sidx, ro.get_storage_index(), env)
            o.cmp("ssk_storage_index", "uri.Readonly%sFileURI.get_verify_cap" % nm, sidx, ro.get_verify_cap().get_storage_index(), env)
            o.cmp("ssk_storage_index", "uri.from_string(%s)" % nm, sidx, uri.from_string(w.to_string()).get_storage_index(), env)
            dcap = uri.from_string(uri.wrap_dirnode_cap(w).to_string())
            o.cmp("ssk_storage_index", "uri.from_string(DIR2-%s)" % nm, sidx, dcap.get_storage_index(), env)
            o.cmp("ssk_readkey", "uri.from_string(DIR2-%s).get_readonly" % nm, rk, dcap.get_readonly().get_filenode_cap().readkey, env)
        iv = rb(16)
        o.cmp("ssk_datakey", "hashutil.ssk_readkey_data_hash", E("ssk_datakey", {"iv": iv, "ssk_readkey": rk}), H.ssk_readkey_data_hash(iv, rk), {"iv": iv, "ssk_readkey": rk})
        o.cmp("write_enabler_master", "hashutil.ssk_write_enabler_master_hash", E("write_enabler_master", env), H.ssk_write_enabler_master_hash(wk), env)
        o.cmp("write_enabler", "hashutil.ssk_write_enabler_hash", E("write_enabler", env), H.ssk_write_enabler_hash(wk, pid), env)
        # the secrets a MutableFileNode presents to a server
        node = MutableFileNode(None, sh, {"k": 3, "n": 10}, None).init_from_cap(uri.WriteableSSKFileURI(wk, fp))
        srv = FakeServer(pid)
        envn = {"lease_secret": ls, "ssk_writekey": wk, "peerid": pid, "storage_index": sidx}
        o.cmp("write_enabler", "MutableFileNode.get_write_enabler", E("write_enabler", envn), node.get_write_enabler(srv), envn)
        o.cmp("bucket_renewal_secret", "MutableFileNode.get_renewal_secret", E("bucket_renewal_secret", envn), node.get_renewal_secret(srv), envn)
        o.cmp("bucket_cancel_secret", "MutableFileNode.get_cancel_secret", E("bucket_cancel_secret", envn), node.get_cancel_secret(srv), envn)
        # directories: child write cap encryption
        child = uri.WriteableSSKFileURI(rb(16), rb(32)).to_string() if r % 3 else rv()
        envd = {"child_rw_uri": child, "ssk_writekey": wk}
        salt, dk = E("dirnode_rwcap_salt", envd), E("dirnode_rwcap_key", envd)
        o.cmp("dirnode_rwcap_salt", "hashutil.mutable_rwcap_salt_hash", salt, H.mutable_rwcap_salt_hash(child), envd)
        o.cmp("dirnode_rwcap_key", "hashutil.mutable_rwcap_key_hash", dk, H.mutable_rwcap_key_hash(salt, wk), envd)
        blob = dirnode._encrypt_rw_uri(wk, child)
        o.cmp("dirnode_rwcap_salt", "dirnode._encrypt_rw_uri", salt, blob[:16], envd)
        o.cmp("dirnode_rwcap_key", "dirnode._encrypt_rw_uri", child, aes_ctr(dk, blob[16:-32]), envd)


def split_netstrings(b):
    out = []
    while b:
        i = b.index(b":")
        n = int(b[:i])
        out.append(b[i + 1:i + 1 + n])
        assert b[i + 1 + n:i + 2 + n] == b","
        b = b[i + 2 + n:]
    return out


def e2e(T, rng, o, seed, rounds, r0=0):
    from grid import Grid, download_to_data
    from allmydata.immutable import upload
    from allmydata.client import SecretHolder
    from allmydata.monitor import Monitor
    from allmydata.interfaces import SDMF_VERSION, MDMF_VERSION
    from allmydata.mutable.layout import unpack_share
    from allmydata.mutable.publish import MutableData
    from allmydata.crypto import rsa
    from allmydata import uri
    import allmydata.mutable.publish as publish
    E = lambda name, env: KD.evaluate(T, name, env)
    rb = lambda n: bytes(rng.randrange(256) for _ in range(n))
    stats = {"allocate_buckets": 0, "slot_writev": 0, "add_lease": 0, "shares_decrypted": 0, "dir_entries": 0}
    for r in range(r0, r0 + rounds):
        k, n = [(1, 2), (2, 4), (3, 5)][r % 3]
        maxseg = rng.choice([64, 1024, 131072])
        g = Grid(num_servers=rng.randrange(n, n + 3), k=k, n=n, happy=1, max_segment_size=maxseg, seed=seed * 1000 + r)
        try:
            ls, conv = rb(32), rb(32)
            sh = SecretHolder(ls, conv)
            g.client._secret_holder = sh
            g.nodemaker = g.make_nodemaker(secret_holder=sh)
            peer = {name: s.serverid for name, s in g.servers.items()}
            if len(g.servers) >= 2 and r % 2 == 1:
                # one candidate server cannot take shares (read-only, truthfully advertised): the uploader filters it out of its
                # writable list -- every other server must still be given the secrets derived from its own lease seed
                ro = g.servers[sorted(g.servers)[rng.randrange(len(g.servers))]]
                ro.ss.readonly_storage = True
                ro.rref.version = ro.fss.remote_get_version()

            def server_secrets(si):
                return {name: (E("bucket_renewal_secret", {"lease_secret": ls, "storage_index": si, "peerid": pid}),
                               E("bucket_cancel_secret", {"lease_secret": ls, "storage_index": si, "peerid": pid})) for name, pid in peer.items()}

            # ---- immutable upload with convergence
            size = rng.choice([56, 57, 100, maxseg, maxseg + 1, rng.randrange(56, 3000)])
            data = rb(size)
            res = g.run(g.uploader.upload(upload.Data(data, convergence=conv)))
            cap = res.get_uri()
            fields = cap.split(b":")
            key = unb32(fields[2])
            segsize = min(maxseg, size)
            segsize = ((segsize + k - 1) // k) * k
            envc = {"convergence_secret": conv, "k": k, "n": n, "segsize": segsize, "plaintext": data}
            o.cmp("convergence_key", "upload(cap key)", E("convergence_key", envc), key, {"k": k, "n": n, "segsize": segsize, "size": size})
            si = E("chk_storage_index", {"chk_key": key})
            exp = server_secrets(si)
            for e in g.calllog:
                if e["meth"] == "allocate_buckets":
                    stats["allocate_buckets"] += 1
                    a = e["args"]
                    o.cmp("chk_storage_index", "upload.allocate_buckets(storage_index)", si, a[0])
                    o.cmp("bucket_renewal_secret", "upload.allocate_buckets", exp[e["server"]][0], a[1], {"server": e["server"]})
                    o.cmp("bucket_cancel_secret", "upload.allocate_buckets", exp[e["server"]][1], a[2], {"server": e["server"]})
            # ---- lease renewal by the checker
            del g.calllog[:]
            node = g.nodemaker.create_from_cap(cap)
            g.run(node.check(Monitor(), verify=False, add_lease=True))
            for e in g.calllog:
                if e["meth"] == "add_lease":
                    stats["add_lease"] += 1
                    a = e["args"]
                    o.cmp("chk_storage_index", "checker.add_lease(storage_index)", si, a[0])
                    o.cmp("bucket_renewal_secret", "checker.add_lease", exp[e["server"]][0], a[1], {"server": e["server"]})
                    o.cmp("bucket_cancel_secret", "checker.add_lease", exp[e["server"]][1], a[2], {"server": e["server"]})
            # ---- mutable files (SDMF and MDMF) created with known RSA keys
            for version, vname in ((SDMF_VERSION, "SDMF"), (MDMF_VERSION, "MDMF")):
                del g.calllog[:]
                der = g.keypool.ders[g.keypool.i % len(g.keypool.ders)]
                priv, pub = rsa.create_signing_keypair_from_string(der)
                env0 = {"privkey_der": rsa.der_string_from_signing_key(priv), "pubkey_der": rsa.der_string_from_verifying_key(pub)}
                contents = rb(rng.choice([0, 1, 40, 200]))
                if version == MDMF_VERSION:
                    # several segments, each encrypted under the key of its own salt
                    publish.DEFAULT_MUTABLE_MAX_SEGMENT_SIZE = rng.choice([24, 60, 128 * 1024])
                    contents = rb(rng.choice([1, 61, 200, 333]))
                mnode = g.run(g.nodemaker.create_mutable_file(MutableData(contents), version=version))
                mcap = mnode.get_uri()
                f = mcap.split(b":")
                wk, fp = E("ssk_writekey", env0), E("ssk_fingerprint", env0)
                o.cmp("ssk_writekey", "create_mutable_file(%s cap)" % vname, wk, unb32(f[2]))
                o.cmp("ssk_fingerprint", "create_mutable_file(%s cap)" % vname, fp, unb32(f[3]))
                rk = E("ssk_readkey", env0)
                msi = E("ssk_storage_index", env0)
                o.cmp("ssk_readkey", "create_mutable_file(%s readcap)" % vname, rk, unb32(mnode.get_readonly_uri().split(b":")[2]))
                mexp = server_secrets(msi)
                for e in g.calllog:
                    if e["meth"] == "slot_testv_and_readv_and_writev":
                        stats["slot_writev"] += 1
                        a = e["args"]
                        pid = peer[e["server"]]
                        o.cmp("ssk_storage_index", "publish.slot_testv_and_readv_and_writev(storage_index)", msi, a[0])
                        o.cmp("write_enabler", "publish.slot_testv_and_readv_and_writev", E("write_enabler", dict(env0, peerid=pid)), a[1][0], {"server": e["server"]})
                        o.cmp("bucket_renewal_secret", "publish.slot_testv_and_readv_and_writev", mexp[e["server"]][0], a[1][1], {"server": e["server"]})
                        o.cmp("bucket_cancel_secret", "publish.slot_testv_and_readv_and_writev", mexp[e["server"]][1], a[1][2], {"server": e["server"]})
                # bytes at rest (SDMF, k = 1: the share data is the ciphertext)
                if version == SDMF_VERSION and k == 1:
                    for srv, shares in g.shares(msi).items():
                        for shnum, path in shares.items():
                            from allmydata.storage.mutable import MutableShareFile
                            msf = MutableShareFile(path)
                            raw = msf.readv([(0, 10 ** 7)])[0]
                            (seqnum, root_hash, IV, kk, N, ss, datalen, pubkey, sig, shc, bht, share_data, enc_privkey) = unpack_share(raw)
                            dk = E("ssk_datakey", dict(env0, iv=IV))
                            o.cmp("ssk_datakey", "publish(share at rest)", contents, aes_ctr(dk, share_data)[:len(contents)])
                            o.cmp("ssk_writekey", "publish(encrypted signing key at rest)", env0["privkey_der"], aes_ctr(wk, enc_privkey))
                            stats["shares_decrypted"] += 1
                # bytes at rest (MDMF, k = 1: block i is segment i encrypted under the data key of salt i), and the
                # read path: an independent reader with only the read-cap must get the plaintext back
                if version == MDMF_VERSION:
                    from allmydata.mutable.layout import MDMFSlotReadProxy
                    from allmydata.storage.mutable import MutableShareFile
                    if k == 1:
                        for srv, shares in g.shares(msi).items():
                            for shnum, path in shares.items():
                                raw = MutableShareFile(path).readv([(0, 10 ** 7)])[0]
                                rp = MDMFSlotReadProxy(None, msi, shnum, data=raw, data_is_everything=True)
                                segsize_, datalen_ = g.run(rp.get_encoding_parameters())[2:4]
                                nseg = (datalen_ + segsize_ - 1) // segsize_ if segsize_ else 0
                                plain = b""
                                for i in range(nseg):
                                    block, salt = g.run(rp.get_block_and_salt(i))
                                    plain += aes_ctr(E("ssk_datakey", dict(env0, iv=salt)), block)
                                o.cmp("ssk_datakey", "publish(MDMF share at rest, %d segments)" % min(nseg, 3), contents, plain[:len(contents)])
                                o.cmp("ssk_writekey", "publish(MDMF encrypted signing key at rest)", env0["privkey_der"],
                                      aes_ctr(wk, g.run(rp.get_encprivkey())))
                                stats["shares_decrypted"] += 1
                    reader = g.make_nodemaker(secret_holder=sh).create_from_cap(mnode.get_readonly_uri())
                    o.cmp("ssk_datakey", "retrieve(MDMF, plaintext of every segment)", contents, g.run(reader.download_best_version()))
                    publish.DEFAULT_MUTABLE_MAX_SEGMENT_SIZE = 128 * 1024
                if version == SDMF_VERSION:
                    reader = g.make_nodemaker(secret_holder=sh).create_from_cap(mnode.get_readonly_uri())
                    o.cmp("ssk_datakey", "retrieve(SDMF plaintext)", contents, g.run(reader.download_best_version()))
                # a later modification presents the same secrets
                if version == SDMF_VERSION:
                    del g.calllog[:]
                    g.run(mnode.overwrite(MutableData(rb(30))))
                    for e in g.calllog:
                        if e["meth"] == "slot_testv_and_readv_and_writev":
                            stats["slot_writev"] += 1
                            o.cmp("write_enabler", "overwrite.slot_testv_and_readv_and_writev", E("write_enabler", dict(env0, peerid=peer[e["server"]])), e["args"][1][0])
                            o.cmp("bucket_renewal_secret", "overwrite.slot_testv_and_readv_and_writev", mexp[e["server"]][0], e["args"][1][1])
            # ---- directory: the child's write cap is stored under the key derived from the directory's write key
            der = g.keypool.ders[g.keypool.i % len(g.keypool.ders)]
            priv, pub = rsa.create_signing_keypair_from_string(der)
            envd = {"privkey_der": rsa.der_string_from_signing_key(priv), "pubkey_der": rsa.der_string_from_verifying_key(pub)}
            child = g.nodemaker.create_from_cap(mcap)
            dn = g.run(g.nodemaker.create_new_mutable_directory({u"kid": (child, {})}))
            packed = g.run(dn._node.download_best_version())
            for entry in split_netstrings(packed):
                name, ro, rwblob, meta = split_netstrings(entry)
                envk = dict(envd, child_rw_uri=mcap)
                o.cmp("dirnode_rwcap_salt", "directory(contents at rest)", E("dirnode_rwcap_salt", envk), rwblob[:16])
                o.cmp("dirnode_rwcap_key", "directory(contents at rest)", mcap, aes_ctr(E("dirnode_rwcap_key", envk), rwblob[16:-32]))
                stats["dir_entries"] += 1
        finally:
            g.close()
    return stats


def main():
    ap = argparse.ArgumentParser()
    ap.add_argument("--out")
    ap.add_argument("--in", dest="inp")
    ap.add_argument("--seed", type=int, default=0)
    ap.add_argument("--tier", default="quick")
    ap.add_argument("--unit", type=int, default=40)
    ap.add_argument("--e2e", type=int, default=3)
    a = ap.parse_args()
    T = json.load(open(a.inp))["table"]
    rng = random.Random("kd-%d" % a.seed)
    o = Out()
    import traceback
    stats = {}

    def guarded(phase, fn):
        # an exception of the real code where the Spec predicts a value is a disagreement, not a machinery failure
        try:
            return fn()
        except Exception as e:
            key = "C17:exception:%s:%s" % (phase, type(e).__name__)
            o.mism[key] = {"key": key, "count": 1, "what": "the real code raised %s during the %s comparisons" % (type(e).__name__, phase),
                           "examples": [{"traceback": traceback.format_exc()[-3000:]}]}
            return None

    guarded("unit", lambda: unit(T, rng, o, a.unit))
    n_unit = o.n
    for r in range(a.e2e):
        st = guarded("e2e", lambda: e2e(T, rng, o, a.seed * 100 + r, 1, r)) or {}
        for k, v in st.items():
            stats[k] = stats.get(k, 0) + v
    with open(a.out, "w") as f:
        json.dump({"mismatches": [o.mism[k] for k in sorted(o.mism)], "comparisons": o.n, "unit_comparisons": n_unit,
                   "per_site": o.per, "e2e": stats, "samples": o.samples}, f)


if __name__ == "__main__":
    main()
