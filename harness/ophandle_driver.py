"""X-web_ophandles driver: seeded histories of start / status / cancel requests, clock advances and slices of
grid work against the real web gateway (allmydata.web.root.Root + OphandleTable of a real WebishServer on a
real _Client, harness/webgrid.py), recorded as traces for spec/frontends/TraceOpHandles.tla.

Output {"traces": [{"consts": {"handles": [...], "family": ..., "template": ...}, "events": [...]}],
        "info": {...}}

* The gateway's clock is the virtual reactor (OphandleTable(clock=vr)); time.time is rebound to it (the table
  measures the duration of an operation with time.time()), so "four days, or the total time consumed by the
  operation" can be exercised.  Time only passes in Advance events.
* Requests are sent through StubTreq WITHOUT driving the grid: remote storage calls stay parked, so an
  operation makes progress only in Work events (k units; a unit = every parked call for the storage index of the
  oldest parked call).  One operation per directory tree at a time, the trees have disjoint storage indexes: at
  the boundary of a unit an operation has come to its end iff no parked call names a storage index of its tree.
  `reached` = number of distinct directories of the tree named by calls parked since the operation started.
* A start without ophandle= (h = "") or on a file (isdir false) must be refused with 400.
* Abstraction of a status page to [finished, kind, dir, full, listed]: kind from the shape of the page, dir from the
  storage index it reveals (origin / root-storage-index) or from the tree whose synchronous results
  (POST t=stream-manifest, t=stream-deep-check, run once at set-up) equal the page's results; `full` = they do;
  `listed` = a JSON manifest page carries manifest / verifycaps / storage-index lists at all.
* Families: "fresh" never uses a handle name twice; "reuse" draws names from a pool of three (re-registration
  after expiry / cancel / release and while still present).  Templates are short scripted histories with seeded
  parameters around the documented boundaries; the rest is a seeded random walk.
"""
import argparse, json, random, sys
import time as _time

from vreactor import vr, settle

_EPOCH = 1700000000.0
_time.time = lambda: _EPOCH + vr.seconds()       # the gateway's wall clock is the virtual clock

from webgrid import WebGrid, q                    # noqa: E402
from treq import collect                          # noqa: E402
from allmydata.util import base32                 # noqa: E402

DAY = 86400
KINDS = ["manifest", "deep-size", "deep-stats", "deep-check"]
RETAINS = [0, 60, 600, 3600, 100000, 400000]
LIFETIMES = [60, 600, 3600, DAY, 100000, 4 * DAY, 400000]


class Gateway:
    def __init__(self, seed):
        self.w = WebGrid(num_servers=3, k=1, n=2, happy=1, max_segment_size=64, seed=seed)
        self.g = self.w.g
        self.parklog = []
        self.parked_meths = {}
        orig = self.g._park

        def park(ref, methname, args, kwargs, d):
            si = args[0] if args and isinstance(args[0], bytes) and len(args[0]) == 16 else None
            self.parklog.append(base32.b2a(si).decode() if si else "")
            self.parked_meths[methname] = self.parked_meths.get(methname, 0) + 1
            return orig(ref, methname, args, kwargs, d)
        self.g._park = park
        self.trees = {}
        self.build()

    # ---- plain requests (drive the grid: set-up only) ----
    def _ok(self, r, codes=(200, 201)):
        if r.code not in codes:
            raise RuntimeError("set-up request failed: %r" % (r,))
        return r.body.decode()

    def mkdir(self, parent=None, name=None):
        if parent is None:
            return self._ok(self.w.request("POST", "/uri?t=mkdir"))
        return self._ok(self.w.request("POST", "/uri/%s?t=mkdir&name=%s" % (q(parent), name)))

    def put(self, parent, name, data, fmt=None):
        return self._ok(self.w.request("PUT", "/uri/%s/%s%s" % (q(parent), name, "?format=" + fmt if fmt else ""), body=data))

    def link(self, parent, name, cap):
        return self._ok(self.w.request("PUT", "/uri/%s/%s?t=uri" % (q(parent), name), body=cap.encode()))

    def build(self):
        def blob(tag, n):
            return (tag.encode() * n)[:n]
        t = {}
        a = self.mkdir()
        self.put(a, "f", blob("tree-A-file", 101)); self.put(a, "lit", b"aa")
        t["A"] = a
        b = self.mkdir()
        bs = self.mkdir(b, "sub")
        self.put(b, "f", blob("tree-B-file", 152)); self.put(bs, "m", b"mutable in B", "sdmf")
        t["B"] = b
        c = self.mkdir()
        c1 = self.mkdir(c, "d1"); c2 = self.mkdir(c1, "d2"); c3 = self.mkdir(c2, "d3")
        self.put(c, "f", blob("tree-C-file", 203)); self.put(c1, "m", b"mutable in C", "sdmf")
        self.put(c2, "g", blob("tree-C-second", 254)); self.put(c2, "lit", b"cccc"); self.put(c3, "h", blob("tree-C-third", 99))
        t["C"] = c
        d = self.mkdir()
        dx = self.mkdir(d, "x"); dy = self.mkdir(d, "y"); sh = self.mkdir(dx, "shared")
        self.link(dy, "shared", sh)
        self.put(sh, "f", blob("tree-D-file", 305)); self.put(dy, "lit", b"dddddd"); self.put(d, "k", blob("tree-D-k", 77))
        t["D"] = d
        for name, cap in sorted(t.items()):
            self.trees[name] = self.sync_results(name, cap)
        # disjoint storage indexes, distinguishable results
        names = sorted(self.trees)
        for i, x in enumerate(names):
            for y in names[i + 1:]:
                assert not (self.trees[x]["sis"] & self.trees[y]["sis"]), (x, y)
                assert self.trees[x]["stats"] != self.trees[y]["stats"] and self.trees[x]["size"] != self.trees[y]["size"]

    def sync_results(self, name, cap):
        """The synchronous traversals of the same directory: what the slow operations must end up with."""
        r = self.w.request("POST", "/uri/%s?t=stream-manifest" % q(cap))
        units = [json.loads(l) for l in self._ok(r).splitlines() if l.strip()]
        stats = [u for u in units if u["type"] == "stats"][0]["stats"]
        objs = [u for u in units if u["type"] != "stats"]
        r = self.w.request("POST", "/uri/%s?t=stream-deep-check" % q(cap))
        cunits = [json.loads(l) for l in self._ok(r).splitlines() if l.strip()]
        cobjs = [u for u in cunits if u["type"] != "stats"]
        checked = [u for u in cobjs if u["storage-index"]]
        return {
            "cap": cap,
            "file_cap": [u["cap"] for u in objs if u["path"] == ["f"] or u["path"] == ["k"]][0],
            "root_si": objs[0]["storage-index"],
            "sis": {u["storage-index"] for u in objs if u["storage-index"]},
            "dir_sis": {u["storage-index"] for u in objs if u["type"] == "directory"},
            "manifest": sorted((tuple(u["path"]), u["cap"]) for u in objs),
            "verifycaps": sorted(u["verifycap"] for u in objs if u["verifycap"]),
            "storage-index": sorted(u["storage-index"] for u in objs if u["storage-index"]),
            "stats": stats,
            "size": stats.get("size-immutable-files", 0) + stats.get("size-mutable-files", 0) + stats.get("size-directories", 0),
            "check": {"count-objects-checked": len(checked),
                      "count-objects-healthy": sum(1 for u in checked if u["check-results"]["results"]["healthy"]),
                      "count-objects-unhealthy": sum(1 for u in checked if not u["check-results"]["results"]["healthy"]),
                      "stats": [u for u in cunits if u["type"] == "stats"][0]["stats"]},
        }

    # ---- requests of a history: the grid is NOT driven ----
    def req(self, method, path):
        out = []
        d = self.w.stub.request(method, "http://127.0.0.1" + path, allow_redirects=False)

        def _got(resp):
            chunks = []
            d2 = collect(resp, chunks.append)
            d2.addCallback(lambda ign: (resp.code, {k.decode("latin-1").lower(): [v.decode("latin-1") for v in vs]
                                                    for k, vs in resp.headers.getAllRawHeaders()}, b"".join(chunks)))
            return d2
        d.addCallback(_got)
        d.addBoth(out.append)
        for _ in range(200):
            self.w.stub.flush()
            settle()
            if out:
                break
        if not out:
            raise RuntimeError("no response to %s %s without grid work" % (method, path))
        self.w.stub.flush()
        settle()
        r = out[0]
        if not isinstance(r, tuple):
            # no HTTP response at all (the server dropped the connection): reported as status 0, judged by the Spec
            return (0, {}, repr(r).encode())
        return r

    def tree_of_si(self, si):
        for n, t in self.trees.items():
            if t["root_si"] == si:
                return n
        return ""

    def abstract_page(self, code, body, keys=False):
        """HTTP answer of GET /operations/h or POST ?t=cancel -> [cls, finished, kind, dir, full]."""
        res = {"cls": "ok", "finished": False, "kind": "", "dir": "", "full": False, "listed": False, "code": code}
        if code == 404:
            res["cls"] = "notfound"
            return res
        if code != 200:
            res["cls"] = "error"
            return res
        text = body.decode("utf-8", "replace")
        try:
            j = json.loads(text)
        except ValueError:
            j = None
        if isinstance(j, dict):
            res["finished"] = j.get("finished") is True
            if keys:
                res["keys"] = sorted(j.keys())
            if "origin" in j or "origin_si" in j:
                res["kind"] = "manifest"
                res["dir"] = self.tree_of_si(j.get("origin_si", j.get("origin")))
                res["listed"] = any(k in j for k in ("manifest", "verifycaps", "storage-index"))
                if all(k in j for k in ("manifest", "verifycaps", "storage-index", "stats")):
                    got = (sorted((tuple(p), c) for p, c in j["manifest"]), sorted(j["verifycaps"]), sorted(j["storage-index"]), j["stats"])
                    for n, t in self.trees.items():
                        if got == (t["manifest"], t["verifycaps"], t["storage-index"], t["stats"]):
                            res["full"], res["dir"] = True, n
            elif "root-storage-index" in j:
                res["kind"] = "deep-check"
                res["dir"] = self.tree_of_si(j["root-storage-index"])
                for n, t in self.trees.items():
                    if all(j.get(k) == v for k, v in t["check"].items()) and j.get("count-corrupt-shares") == 0 \
                            and j.get("list-unhealthy-files") == []:
                        res["full"], res["dir"] = True, n
            elif "count-directories" in j:
                res["kind"] = "deep-stats"
                got = {k: v for k, v in j.items() if k != "finished"}
                for n, t in self.trees.items():
                    if got == t["stats"]:
                        res["full"], res["dir"] = True, n
            else:
                res["kind"] = "unknown-json"
            return res
        lines = text.split("\n")
        if lines and lines[0] in ("finished: yes", "finished: no"):
            res["finished"] = lines[0] == "finished: yes"
            rest = [x for x in lines[1:] if x != ""]
            if not rest or (len(rest) == 1 and rest[0].startswith("size: ")):
                res["kind"] = "deep-size"
                if rest:
                    for n, t in self.trees.items():
                        if rest[0] == "size: %d" % t["size"]:
                            res["full"], res["dir"] = True, n
            else:
                res["kind"] = "manifest"
                for n, t in self.trees.items():
                    want = [("/".join(p) + " " + c) for p, c in t["manifest"]]
                    if sorted(rest) == sorted(want):
                        res["full"], res["dir"] = True, n
            return res
        res["kind"] = "unknown-page"
        return res


def _si_of(p):
    a = p.args[0] if p.args else None
    if not (isinstance(a, bytes) and len(a) == 16):
        raise RuntimeError("parked call %s without a storage index: cannot be attributed to a directory tree" % p.methname)
    return base32.b2a(a).decode()


class History:
    def __init__(self, gw, idx, family, rng, max_ops):
        self.gw, self.idx, self.family, self.rng = gw, idx, family, rng
        self.max_ops = max_ops
        npool = max_ops if family == "fresh" else 3
        self.names = ["t%d-%s" % (idx, chr(ord("a") + i)) for i in range(npool)]
        self.never = "t%d-never" % idx
        self.used = []                 # names registered so far (bookkeeping for the generator only)
        self.last_kind = {}            # name -> kind of the latest start (to choose a page format)
        self.ops = []                  # {tree, start (index into parklog), end, quiet}
        self.events = []
        self.marks = [0]               # times (relative) at which something happened
        self.t = 0
        self.t_base = vr.seconds()

    # ---- bookkeeping ----
    def busy_trees(self):
        return {o["tree"] for o in self.ops if not o["quiet"]}

    def reached(self):
        out = []
        for o in self.ops:
            t = self.gw.trees[o["tree"]]
            end = o["end"] if o["end"] is not None else len(self.gw.parklog)
            out.append(len({si for si in self.gw.parklog[o["start"]:end] if si in t["dir_sis"]}))
        return out

    def pending_sis(self):
        return {_si_of(p) for p in self.gw.g.pending}

    def note_quiet(self):
        settle()
        pend = self.pending_sis()
        quiet = []
        for i, o in enumerate(self.ops):
            if not o["quiet"] and not (pend & self.gw.trees[o["tree"]]["sis"]):
                o["quiet"] = True
                o["end"] = len(self.gw.parklog)
                quiet.append(i + 1)
        return quiet

    # ---- events ----
    def start(self, h, kind, tree, retain, output, on_file=False):
        """h = "": a POST without ophandle=; on_file: the POST goes to the CHK file "f" of the tree instead of the tree."""
        target = self.gw.trees[tree]["file_cap"] if on_file else self.gw.trees[tree]["cap"]
        path = "/uri/%s?t=start-%s" % (q(target), kind)
        if h:
            path += "&ophandle=%s" % h
        if retain is not None:
            path += "&retain-for=%d" % retain
        if output:
            path += "&output=%s" % output
        mark = len(self.gw.parklog)
        code, hdrs, body = self.gw.req("POST", path)
        loc = (hdrs.get("location") or [""])[0]
        want = "http://127.0.0.1/operations/%s" % h + ("?output=%s" % output if output else "")
        cls = "redirect" if code in (301, 302, 303, 307) else ("badrequest" if code == 400 else "ok" if code == 200 else
                                                                "notfound" if code == 404 else "error")
        self.events.append({"ev": "Start", "h": h, "kind": kind, "dir": tree, "isdir": not on_file,
                            "retain": {"given": retain is not None, "secs": retain or 0},
                            "res": {"cls": cls, "loc": loc == want, "code": code}})
        if cls == "redirect":
            self.ops.append({"tree": tree, "start": mark, "end": None, "quiet": False})
            if h not in self.used:
                self.used.append(h)
            self.last_kind[h] = kind
        self.marks.append(self.t)

    def status(self, h, retain=None, release=False, fmt=None, keys=False):
        kind = self.last_kind.get(h, "manifest")
        if fmt is None:
            fmt = "text" if kind == "deep-size" else "JSON"
        path = "/operations/%s?t=status&output=%s" % (h, fmt)
        if retain is not None:
            path += "&retain-for=%d" % retain
        if release:
            path += "&release-after-complete=true"
        code, hdrs, body = self.gw.req("GET", path)
        self.events.append({"ev": "Status", "h": h, "retain": {"given": retain is not None, "secs": retain or 0},
                            "release": bool(release), "fmt": fmt, "res": self.gw.abstract_page(code, body, keys)})
        self.marks.append(self.t)

    def cancel(self, h):
        kind = self.last_kind.get(h, "manifest")
        fmt = "text" if kind == "deep-size" else "JSON"
        reached = self.reached()
        code, hdrs, body = self.gw.req("POST", "/operations/%s?t=cancel&output=%s" % (h, fmt))
        self.events.append({"ev": "Cancel", "h": h, "reached": reached, "res": self.gw.abstract_page(code, body)})

    def advance(self, dt):
        dt = int(dt)
        if dt <= 0:
            return
        vr.advance(dt)
        settle()
        self.t += dt
        self.events.append({"ev": "Advance", "dt": dt})

    def work(self, steps):
        """`steps` units of grid work (None: until nothing is parked).  A unit = every parked call that names the storage
        index of the oldest parked call, and the calls for the same index issued in consequence: a mutable read ends as soon
        as enough servers have answered and leaves its other queries parked, so only at the boundary of such a unit
        does "no parked call names the tree" mean that the traversal has ended."""
        g = self.gw.g
        n = 0
        while g.pending and (steps is None or n < steps):
            s = _si_of(g.pending[0])
            while True:
                idx = [i for i, p in enumerate(g.pending) if _si_of(p) == s]
                if not idx:
                    break
                g.deliver(idx[0])
                settle()
            n += 1
        quiet = self.note_quiet()
        self.events.append({"ev": "Work", "steps": n, "quiet": quiet, "reached": self.reached()})
        if quiet:
            self.marks.append(self.t)

    # ---- choices ----
    def pick_retain(self, p_none):
        if self.rng.random() < p_none:
            return None
        return self.rng.choice(RETAINS if self.rng.random() < 0.9 else [0])

    def pick_start(self):
        free = [t for t in sorted(self.gw.trees) if t not in self.busy_trees()]
        if not free or len(self.ops) >= self.max_ops:
            return False
        if self.family == "fresh":
            cand = [n for n in self.names if n not in self.used]
            if not cand:
                return False
            h = cand[0]
        else:
            h = self.rng.choice(self.names)
        kind = self.rng.choice(["manifest"] * 3 + ["deep-stats"] * 2 + ["deep-size"] * 2 + ["deep-check"])
        tree = self.rng.choice(free if self.rng.random() < 0.6 else [t for t in free if t in ("C", "D")] or free)
        self.start(h, kind, tree, self.pick_retain(0.6), self.rng.choice([None, "JSON", None]))
        return True

    def pick_handle(self):
        r = self.rng.random()
        if self.used and r < 0.9:
            return self.rng.choice(self.used)
        if r < 0.95:
            return self.rng.choice(self.names)
        return self.never

    def pick_advance(self):
        r = self.rng.random()
        if r < 0.42:
            dt = self.rng.choice([1, 30, 59, 60, 61, 599, 600, 601, 3599, 3600, 3601])
        elif r < 0.67:
            # land on / next to a documented boundary counted from something that happened earlier
            m = self.rng.choice(self.marks[-6:])
            dt = m + self.rng.choice(LIFETIMES) + self.rng.choice([-1, 0, 0, 1]) - self.t
            if dt <= 0:
                dt = self.rng.choice([DAY - 1, DAY, DAY + 1])
        elif r < 0.87:
            dt = self.rng.choice([DAY - 1, DAY, DAY + 1, 100000, 99999, 2 * DAY])
        else:
            dt = self.rng.choice([3 * DAY, 4 * DAY - 1, 4 * DAY, 4 * DAY + 1, 400000, 399999, 5 * DAY, 6 * DAY + 7])
        self.advance(dt)

    def random_walk(self, nevents):
        self.pick_start()
        while len(self.events) < nevents:
            r = self.rng.random()
            if r < 0.02:
                bad_file = self.rng.random() < 0.5
                self.start(self.pick_handle() if bad_file else "", self.rng.choice(KINDS), self.rng.choice(sorted(self.gw.trees)),
                           self.pick_retain(0.7), None, on_file=bad_file)
            elif r < 0.16:
                if not self.pick_start():
                    self.status(self.pick_handle())
            elif r < 0.48:
                fmt = None
                h = self.pick_handle()
                if self.last_kind.get(h) == "manifest" and self.rng.random() < 0.3:
                    fmt = "text"
                self.status(h, self.pick_retain(0.65), self.rng.random() < 0.25, fmt)
            elif r < 0.56:
                active = [e["h"] for e in self.events if e["ev"] == "Start" and e["res"]["cls"] == "redirect"]
                self.cancel(self.rng.choice(active) if active and self.rng.random() < 0.85 else self.pick_handle())
            elif r < 0.78:
                self.pick_advance()
            elif self.gw.g.pending:
                self.work(self.rng.choice([1, 1, 1, 2, 2, 3, 4, 6, None, None]))
            else:
                self.status(self.pick_handle(), self.pick_retain(0.8))
        self.epilogue()

    def epilogue(self):
        self.work(None)
        for h in self.used + [self.never]:
            self.status(h)
        self.pick_advance()
        for h in self.used:
            self.status(h)
        self.advance(self.rng.choice([DAY, 4 * DAY, 5 * DAY]))
        for h in self.used:
            self.status(h)

    # ---- templates: short scripted histories around one documented rule, seeded parameters ----
    def template(self, name):
        rng = self.rng
        kind = rng.choice(KINDS)
        tree = rng.choice(sorted(self.gw.trees))
        a = self.names[0]
        if name == "long_operation":          # "four days, or the total time consumed by the operation, whichever is greater"
            extra = rng.choice([1, 3600, DAY, 2 * DAY])
            self.start(a, kind, tree, None, None)
            self.work(rng.choice([0, 1, 2]))
            self.advance(4 * DAY + extra)
            self.status(a)
            self.work(None)
            self.advance(4 * DAY + extra + rng.choice([-1, 0]))
            if rng.random() < 0.5:
                self.status(a)
                self.advance(DAY + rng.choice([-1, 0]))
            self.status(a)
        elif name == "uncollected":
            self.start(a, kind, tree, None, rng.choice([None, "JSON"]))
            self.advance(rng.choice([1, 600, 3600]))
            self.work(None)
            self.advance(4 * DAY + rng.choice([-1, 0, 1]))
            self.status(a)
            self.advance(DAY + rng.choice([-1, 0]))
            self.status(a)
        elif name == "collected":
            self.start(a, kind, tree, None, None)
            self.work(None)
            self.advance(rng.choice([1, 3600, 3 * DAY]))
            self.status(a)
            self.advance(rng.choice([600, DAY - 1]))
            self.status(a)
            self.advance(DAY + rng.choice([-1, 0]))
            self.status(a)
            self.advance(DAY)
            self.status(a)
        elif name == "retain_start":
            r = rng.choice(RETAINS)
            self.start(a, kind, tree, r, None)
            if rng.random() < 0.5:
                self.work(None)
            self.advance(max(1, r + rng.choice([-1, 0, 1])))
            self.status(a)
            self.work(None)
            self.advance(rng.choice([DAY, 4 * DAY]))
            self.status(a)
        elif name == "retain_get":
            r = rng.choice(RETAINS[1:])
            self.start(a, kind, tree, rng.choice([None, 600]), None)
            self.work(rng.choice([1, None]))
            self.advance(rng.choice([1, 599]))
            self.status(a, retain=r)
            self.work(rng.choice([1, None]))
            self.advance(max(1, r + rng.choice([-1, 0])))
            self.status(a, retain=rng.choice([None, 60]))
            self.work(None)
            self.advance(rng.choice([60, DAY - 1, DAY]))
            self.status(a)
        elif name == "release":
            self.start(a, kind, tree, rng.choice([None, 3600]), None)
            self.work(1)
            self.status(a, release=True)
            self.work(None)
            self.status(a, retain=rng.choice([None, 600]), release=True)
            self.status(a)
            self.cancel(a)
        elif name == "cancel":
            tree = rng.choice(["C", "D", "B"])
            self.start(a, kind, tree, rng.choice([None, 100000]), None)
            self.work(rng.choice([0, 1, 2, 3, 4, 6]))
            self.status(a)
            self.cancel(a)
            self.status(a)
            self.work(rng.choice([1, 3, None]))
            self.work(None)
            self.cancel(a)
        elif name == "cancel_finished":
            self.start(a, kind, tree, None, None)
            self.work(None)
            self.cancel(a)
            self.status(a)
        elif name == "page_shape":            # the documented keys of the JSON pages
            self.start(a, "manifest", tree, None, "JSON")
            self.status(a, fmt="JSON", keys=True)
            self.work(None)
            self.status(a, fmt="JSON", keys=True)
        elif name == "reuse_after_release":   # reuse family
            self.start(a, kind, tree, None, None)
            self.work(None)
            self.status(a, release=True)
            self.start(a, rng.choice(KINDS), tree, None, None)
            if rng.random() < 0.5:
                self.work(None)
            self.advance(DAY + rng.choice([-1, 0, 3600]))
            self.status(a, retain=rng.choice([None, None, 600]))
            self.work(None)
            self.advance(3 * DAY)
            self.status(a)
        elif name == "reuse_after_cancel":    # reuse family
            self.start(a, kind, "C", None, None)
            self.work(1)
            self.cancel(a)
            self.start(a, rng.choice(KINDS), rng.choice(["A", "B", "D"]), None, None)
            self.work(rng.choice([2, 3, 4]))
            self.advance(rng.choice([3600, DAY]))
            self.work(None)
            self.advance(4 * DAY - rng.choice([1800, 1]))
            self.status(a)
        elif name == "reuse_after_expiry":    # reuse family: the expired handle's operation is still running
            self.start(a, kind, "A", 60, None)
            self.advance(rng.choice([60, 61]))
            self.status(a)
            self.start(a, rng.choice(KINDS), rng.choice(["C", "D"]), None, None)
            self.work(1)                          # the older operation (one directory) comes to its end
            self.advance(rng.choice([3600, DAY]))
            self.work(None)
            self.advance(4 * DAY - rng.choice([1800, 1]))
            self.status(a)
        elif name == "restart_while_present":  # reuse family: lifetime left open by the documentation
            self.start(a, kind, "C", rng.choice([None, 600]), None)
            self.work(rng.choice([1, None]))
            k2 = rng.choice(KINDS)
            self.start(a, k2, rng.choice(["A", "B", "D"]), rng.choice([None, 3600]), None)
            self.status(a)
            self.work(None)
            self.status(a)
            self.advance(rng.choice([600, DAY]))
            self.status(a)
        else:
            raise ValueError(name)
        self.epilogue()

    def finish(self):
        # leave nothing running for the next history
        while self.gw.g.pending:
            self.gw.g.deliver(0)
            settle()
        drift = vr.seconds() - self.t_base - self.t
        if abs(drift) > 0.5:
            raise RuntimeError("virtual clock drifted by %r s inside a history" % drift)
        handles = list(self.names) + [self.never]
        return {"consts": {"handles": handles, "family": self.family}, "events": self.events}


FRESH_TEMPLATES = ["long_operation", "uncollected", "collected", "retain_start", "retain_get", "release", "cancel", "cancel_finished"]
REUSE_TEMPLATES = ["reuse_after_release", "reuse_after_cancel", "reuse_after_expiry", "restart_while_present"]


def main():
    ap = argparse.ArgumentParser()
    ap.add_argument("--out"); ap.add_argument("--in", dest="inp"); ap.add_argument("--seed", type=int, default=0)
    ap.add_argument("--tier", default="quick")
    ap.add_argument("--n", type=int, default=120); ap.add_argument("--events", type=int, default=22)
    a = ap.parse_args()
    gw = Gateway(a.seed)
    traces = []
    for idx in range(a.n):
        rng = random.Random(a.seed * 1000003 + idx)
        m = idx % 10
        if m < 5:
            family, tmpl = "fresh", None
        elif m < 8:
            family, tmpl = "fresh", FRESH_TEMPLATES[(idx // 10 * 3 + (m - 5)) % len(FRESH_TEMPLATES)]
        elif m == 8:
            family, tmpl = "reuse", None
        else:
            family, tmpl = "reuse", REUSE_TEMPLATES[(idx // 10) % len(REUSE_TEMPLATES)]
        if idx == a.n - 1:
            family, tmpl = "fresh", "page_shape"
        h = History(gw, idx, family, rng, max_ops=max(6, a.events // 4))
        if tmpl:
            h.template(tmpl)
        else:
            h.random_walk(a.events)
        tr = h.finish()
        tr["consts"]["template"] = tmpl or "random"
        traces.append(tr)
    info = {"trees": {n: {"directories": len(t["dir_sis"]), "objects": len(t["manifest"]), "size": t["size"]}
                      for n, t in gw.trees.items()},
            "parked_calls": gw.parked_meths}
    with open(a.out, "w") as f:
        json.dump({"traces": traces, "info": info}, f)
    gw.w.close()


if __name__ == "__main__":
    main()
