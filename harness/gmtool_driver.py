"""Driver of the extra grid_manager_tool: walks the transition table printed by spec/net/MCGridManagerTool.tla through
the real grid manager - the click command line with --config DIR ("dir"), with --config - ("stdin"), and the
functions of allmydata/grid_manager.py on a live object ("api") - in a temporary directory with a controlled
clock, and records after every step the exit status, what was printed (abstracted) and what an observer sees
(directory content, document, object; every certificate judged by create_grid_manager_verifier, the validation
clients use).  The walk is a schedule over the Spec's table (every transition at least once, budget permitting);
the expected values are the Spec's, compared by gmtool_match; the check repeats the comparison itself."""
from vreactor import vr  # noqa: F401
import argparse, io, json, os, random, re, shutil, stat, sys, tempfile, time
from collections import deque
from datetime import datetime, timedelta, timezone

from click.testing import CliRunner
from twisted.python.filepath import FilePath

import allmydata.grid_manager as gm
import allmydata.cli.grid_manager as cli
from allmydata.crypto import ed25519
from allmydata.util import base32

import gmtool_match as M

DAY = timedelta(days=1)


def seeded_private(rng):
    return b"priv-v0-" + base32.b2a(bytes(rng.getrandbits(8) for _ in range(32)))


class World:
    """keys, names, clock of one class of walks"""

    def __init__(self, rng, consts, scratch):
        self.rng = rng
        self.names = consts["names"]
        self.keys = consts["keys"]
        self.probes = consts["probes"]
        self.scratch = scratch
        self.base = datetime(2030, 1, 1, tzinfo=timezone.utc) + timedelta(seconds=rng.randrange(10 ** 7), microseconds=rng.choice([0, 1, 999999]))
        self.suffix = rng.choice(["", "-srv", ".node", " 1", ".cert.0"])
        self.pub = {}
        for k in self.keys:
            sk, vk = ed25519.signing_keypair_from_string(seeded_private(rng))
            self.pub[k] = ed25519.string_from_verifying_key(vk)
        self.keyname = {v.decode("ascii"): k for k, v in self.pub.items()}
        fsk, self.foreign_vk = ed25519.signing_keypair_from_string(seeded_private(rng))
        self.garbage = rng.choice(["notakey", "pub-v0-garbage", "pub-v0-aaaa", "priv-v0-" + "a" * 52, ""])
        self.now = 0
        self.ticks = 0
        self.probe_at = None
        self.n = 0

    def real(self, n):
        return n + self.suffix

    def abstract(self, r):
        if self.suffix and r.endswith(self.suffix):
            r = r[:-len(self.suffix)]
        elif self.suffix:
            return "?" + r
        return r if r in self.names else "?" + r

    def clock(self):
        return self.base + DAY * self.now + timedelta(seconds=self.ticks)

    def day_of(self, dt):
        return (dt - self.base) // DAY

    def fresh(self, what):
        self.n += 1
        return os.path.join(self.scratch, "%s%d" % (what, self.n))

    def keyname_of(self, s):
        if isinstance(s, bytes):
            s = s.decode("ascii", "replace")
        return self.keyname.get(s, "?" + str(s)[:16])

    def cert_obs(self, sc, manager_vk):
        """a SignedCertificate as the Spec's CertObs: who it names, when it expires, and at which probes a client
        configured with the manager's key (resp. another manager's key) accepts it from a server with key k"""
        try:
            d = json.loads(sc.certificate)
            subject = self.keyname_of(d["public_key"])
            expires = self.day_of(datetime.fromisoformat(d["expires"]))
            if d.get("version") != 1:
                subject = "?version%r" % (d.get("version"),)
        except Exception as e:  # noqa: BLE001
            return {"subject": "?unreadable:%s" % type(e).__name__, "expires": 0, "permits": {k: [] for k in self.keys}, "foreign": []}
        permits, foreign = {}, set()
        for who, vk in (("mine", manager_vk), ("theirs", self.foreign_vk)):
            for k in self.keys:
                try:
                    verifier = gm.create_grid_manager_verifier([vk], [sc], self.pub[k], now_fn=lambda: self.probe_at,
                                                               bad_cert=lambda key, cert: None)
                    ok = []
                    for p in self.probes:
                        self.probe_at = self.base + DAY * p + timedelta(hours=12)       # midday of day p
                        if verifier():
                            ok.append(p)
                except Exception as e:  # noqa: BLE001
                    ok = ["?%s" % type(e).__name__]
                if who == "mine":
                    permits[k] = ok
                else:
                    foreign.update(ok)
        return {"subject": subject, "expires": expires, "permits": permits, "foreign": sorted(foreign, key=str)}

    def doc_view(self, text):
        """a configuration document -> (srv map over all names, private key string, problems)"""
        j = json.loads(text)
        problems = []
        if j.get("grid_manager_config_version") != 0:
            problems.append("version=%r" % (j.get("grid_manager_config_version"),))
        srv = {n: "-" for n in self.names}
        for r, v in j.get("storage_servers", {}).items():
            srv[self.abstract(r)] = self.keyname_of(v.get("public_key", "?nokey"))
        extra = sorted(set(j) - {"grid_manager_config_version", "private_key", "storage_servers"})
        if extra:
            problems.append("keys=%s" % extra)
        return srv, j.get("private_key"), problems

    def manager_vk(self, priv):
        return ed25519.signing_keypair_from_string(priv.encode("ascii"))[1]


def load_class(fn):
    """the documented failure classes of load_grid_manager: ValueError = invalid configuration, IOError = files that
    cannot be opened (BadSignature: the docstring of _load_certificates_for)"""
    try:
        return "ok", fn()
    except ValueError as e:
        return "invalid", e
    except ed25519.BadSignature as e:
        return "invalid", e
    except OSError as e:
        return "ioerror", e
    except Exception as e:  # noqa: BLE001
        return "crash:%s" % type(e).__name__, e


def marshal_view(w, g):
    srv = {n: "-" for n in w.names}
    for r, s in g.storage_servers.items():
        srv[w.abstract(r)] = w.keyname_of(s.public_key_string())
    return srv


def damage_doc(w, text, kind, n, manager_pub):
    j = json.loads(text)
    if kind == "notjson":
        return w.rng.choice(["{ this is not json", text[:len(text) // 2], "[1, 2"])
    if kind == "noversion":
        del j["grid_manager_config_version"]
    elif kind == "badversion":
        j["grid_manager_config_version"] = w.rng.choice([1, 2, "0", -1])
    elif kind == "noprivkey":
        del j["private_key"]
    elif kind == "badprivkey":
        j["private_key"] = w.rng.choice(["priv-v0-", manager_pub, "priv-v0-" + "a" * 10, "garbage", j["private_key"][:-1]])
    elif kind == "srv_nopubkey":
        j["storage_servers"][w.real(n)] = {}
    elif kind == "srv_keynoprefix":
        j["storage_servers"][w.real(n)]["public_key"] = j["storage_servers"][w.real(n)]["public_key"][len("pub-v0-"):]
    elif kind == "srv_keyshort":
        j["storage_servers"][w.real(n)]["public_key"] = "pub-v0-aaaa"
    else:
        raise RuntimeError("damage kind %s" % kind)
    return json.dumps(j, indent=4) + "\n"


class CliLeg:
    def __init__(self, w):
        self.w = w
        self.runner = CliRunner()

    def invoke(self, config, args, stdin=None):
        self.w.ticks += 1
        res = self.runner.invoke(cli.grid_manager, ["--config", config] + args, input=stdin)
        info = {}
        if res.exception is not None and not isinstance(res.exception, SystemExit):
            info["crash"] = type(res.exception).__name__
        elif res.exit_code != 0:
            info["stderr"] = (res.stderr or "")[-160:]
        return res.exit_code, res.stdout, info

    def args_of(self, c):
        w = self.w
        op = c["op"]
        if op == "create":
            return ["create"]
        if op == "identity":
            return ["public-identity"]
        if op == "list":
            return ["list"]
        if op == "add":
            return ["add", w.real(c["n"]), w.pub[c["k"]].decode("ascii") if c["k"] in w.pub else w.garbage]
        if op == "remove":
            return ["remove", w.real(c["n"])]
        if op == "sign":
            return ["sign", w.real(c["n"]), str(c["d"])]
        raise RuntimeError(op)

    def parse_out(self, c, code, stdout, priv_before, priv_after):
        """what was printed, in the Spec's shapes"""
        w = self.w
        op = c["op"]
        try:
            if code != 0:
                return {"t": "none"} if stdout.strip() == "" else {"t": "unexpected", "text": stdout[:200]}
            if op == "identity":
                want = ed25519.string_from_verifying_key(w.manager_vk(priv_before)).decode("ascii")
                return {"t": "id" if stdout.strip() == want else "id_wrong", "text": stdout[:80]}
            if op == "list":
                rows = []
                for line in stdout.splitlines():
                    m = re.match(r"^(\S.*|): (pub-v0-[a-z2-7]+)$", line)
                    m2 = re.match(r"^\s+cert (\d+): (valid until|expired) (.+?) \((.*)\)$", line)
                    if m:
                        rows.append({"name": w.abstract(m.group(1)), "key": w.keyname_of(m.group(2)), "certs": []})
                    elif m2 and rows:
                        rows[-1]["certs"].append({"index": int(m2.group(1)), "expires": w.day_of(datetime.fromisoformat(m2.group(3))),
                                                  "status": "valid" if m2.group(2) == "valid until" else "expired"})
                    else:
                        rows.append({"name": "?unparsed", "key": line[:60], "certs": []})
                return {"t": "list", "rows": rows}
            if op == "sign":
                sc = gm.SignedCertificate.load(io.StringIO(stdout))
                gm.parse_grid_manager_certificate(stdout)          # what the storage server's configuration applies to the file
                return {"t": "cert", "cert": w.cert_obs(sc, w.manager_vk(priv_before))}
            if stdout.strip() == "":
                return {"t": "none"}
            srv, priv, problems = w.doc_view(stdout)
            if problems or priv != priv_after:
                return {"t": "doc_wrong", "text": str(problems)}
            return {"t": "doc", "srv": srv}
        except Exception as e:  # noqa: BLE001
            return {"t": "unreadable", "text": "%s: %s / %r" % (type(e).__name__, e, stdout[:120])}


class DirLeg(CliLeg):
    leg = "dir"

    def reset(self):
        self.path = self.w.fresh("gm")
        self.priv0 = None
        self.backup = None
        self.frozen = None

    def priv(self):
        try:
            return json.load(open(os.path.join(self.path, "config.json")))["private_key"]
        except Exception:  # noqa: BLE001
            return None

    def snapshot(self):
        out = {}
        for fn in sorted(os.listdir(self.path)):
            with open(os.path.join(self.path, fn), "rb") as f:
                out[fn] = f.read()
        return out

    def do(self, c):
        op = c["op"]
        if op == "tick":
            self.w.now += 1
            return "ok", {"t": "none"}, {}
        if op == "damage":
            self.damage(c)
            return "ok", {"t": "none"}, {}
        if op == "restore":
            path, data = self.backup
            if data is None:
                os.remove(path)
            else:
                with open(path, "wb") as f:
                    f.write(data)
            self.backup = self.frozen = None
            return "ok", {"t": "none"}, {}
        before = self.priv0
        code, stdout, info = self.invoke(self.path, self.args_of(c))
        if op == "create" and code == 0:
            self.priv0 = self.priv()
        return ("ok" if code == 0 else "fail"), self.parse_out(c, code, stdout, before, self.priv0), info

    def damage(self, c):
        w = self.w
        kind = c["kind"]
        cfgp = os.path.join(self.path, "config.json")
        if kind == "missing":
            self.backup = (cfgp, open(cfgp, "rb").read())
            os.remove(cfgp)
        elif kind.startswith("cert_"):
            p = os.path.join(self.path, "%s.cert.%d" % (w.real(c["n"]), c["i"] - 1))
            data = open(p, "rb").read()
            self.backup = (p, data)
            j = json.loads(data)
            if kind == "cert_sig":
                sig = bytearray(base32.a2b(j["signature"].encode("ascii")))
                sig[w.rng.randrange(len(sig))] ^= 1 << w.rng.randrange(8)
                j["signature"] = base32.b2a(bytes(sig)).decode("ascii")
            else:
                d = json.loads(j["certificate"])
                if kind == "cert_forged":
                    d["expires"] = (datetime.fromisoformat(d["expires"]) + timedelta(days=3650)).isoformat()
                else:
                    d["version"] = 2
                body = json.dumps(d, separators=(",", ":"), sort_keys=True)
                j["certificate"] = body
                if kind == "cert_ver2":       # a properly signed certificate of a version this code does not know
                    sk = ed25519.signing_keypair_from_string(self.priv0.encode("ascii"))[0]
                    j["signature"] = base32.b2a(ed25519.sign_data(sk, body.encode("utf-8"))).decode("ascii")
            with open(p, "w") as f:
                json.dump(j, f, indent=4)
        else:
            text = open(cfgp).read()
            self.backup = (cfgp, text.encode("utf-8"))
            pub = ed25519.string_from_verifying_key(w.manager_vk(self.priv0)).decode("ascii")
            with open(cfgp, "w") as f:
                f.write(damage_doc(w, text, kind, c["n"], pub))
        self.frozen = self.snapshot()

    def observe(self):
        w = self.w
        cls, loaded = load_class(lambda: gm.load_grid_manager(FilePath(self.path)))
        if self.frozen is not None:
            return {"unchanged": self.snapshot() == self.frozen, "load": cls}
        obs = {"ex": os.path.isdir(self.path), "srv": {n: "-" for n in w.names}, "certs": {n: [] for n in w.names},
               "load": cls, "rt": "same", "stray": [], "gap": False, "private": True, "id": "same"}
        if not obs["ex"]:
            return obs
        obs["private"] = stat.S_IMODE(os.stat(self.path).st_mode) & 0o077 == 0
        files = sorted(os.listdir(self.path))
        try:
            srv, priv, problems = w.doc_view(open(os.path.join(self.path, "config.json")).read())
        except Exception as e:  # noqa: BLE001
            obs["stray"].append("config.json unreadable: %s" % type(e).__name__)
            return obs
        obs["srv"] = srv
        obs["stray"] += problems
        if priv != self.priv0:
            obs["id"] = "changed"
        vk = w.manager_vk(priv)
        found = {}
        for fn in files:
            m = re.match(r"^(.*)\.cert\.(\d+)$", fn)
            if fn == "config.json":
                continue
            if not m:
                obs["stray"].append(fn)
                continue
            found.setdefault(w.abstract(m.group(1)), {})[int(m.group(2))] = fn
        for n, idx in found.items():
            if n not in obs["certs"]:
                obs["stray"] += sorted(idx.values())
                continue
            if sorted(idx) != list(range(len(idx))):
                obs["gap"] = True
            for i in sorted(idx):
                try:
                    with open(os.path.join(self.path, idx[i])) as f:
                        sc = gm.SignedCertificate.load(f)
                    obs["certs"][n].append(w.cert_obs(sc, vk))
                except Exception as e:  # noqa: BLE001
                    obs["certs"][n].append({"subject": "?unreadable:%s" % type(e).__name__, "expires": 0,
                                            "permits": {k: [] for k in w.keys}, "foreign": []})
        if cls == "ok":
            # load . save = identity: what was loaded, saved somewhere else, is the same configuration
            tmp = w.fresh("rt")
            try:
                gm.save_grid_manager(FilePath(tmp), loaded)
                srv2, priv2, problems2 = w.doc_view(open(os.path.join(tmp, "config.json")).read())
                if (srv2, priv2, problems2) != (srv, priv, problems) or marshal_view(w, loaded) != srv:
                    obs["rt"] = "differs"
            except Exception as e:  # noqa: BLE001
                obs["rt"] = "differs:%s" % type(e).__name__
            shutil.rmtree(tmp, ignore_errors=True)
        return obs


class StdinLeg(CliLeg):
    leg = "stdin"

    def reset(self):
        self.doc = None          # the document the user pipes through
        self.priv0 = None
        self.backup = None

    def do(self, c):
        w = self.w
        op = c["op"]
        if op == "tick":
            w.now += 1
            return "ok", {"t": "none"}, {}
        if op == "damage":
            self.backup = self.doc
            pub = ed25519.string_from_verifying_key(w.manager_vk(self.priv0)).decode("ascii")
            self.doc = damage_doc(w, self.doc, c["kind"], c["n"], pub)
            return "ok", {"t": "none"}, {}
        if op == "restore":
            self.doc, self.backup = self.backup, None
            return "ok", {"t": "none"}, {}
        before = self.priv0
        code, stdout, info = self.invoke("-", self.args_of(c), stdin=self.doc or "")
        if code == 0 and op in ("create", "add", "remove"):
            self.doc = stdout                                           # "the new configuration will be printed to stdout"
            self.backup = None
            if op == "create":
                try:
                    self.priv0 = json.loads(stdout)["private_key"]
                except Exception:  # noqa: BLE001
                    self.priv0 = None
        return ("ok" if code == 0 else "fail"), self.parse_out(c, code, stdout, before, self.priv0), info

    def load(self):
        saved = sys.stdin
        sys.stdin = io.StringIO(self.doc or "")
        try:
            return gm.load_grid_manager(None)
        finally:
            sys.stdin = saved

    def observe(self):
        w = self.w
        cls, loaded = load_class(self.load)
        if self.backup is not None:
            return {"unchanged": True, "load": cls}        # the document is the driver's own: nothing can touch it
        obs = {"ex": self.doc is not None, "srv": {n: "-" for n in w.names}, "certs": {n: [] for n in w.names},
               "load": cls, "rt": "same", "stray": [], "gap": False, "private": True, "id": "same"}
        if self.doc is None:
            return obs
        try:
            srv, priv, problems = w.doc_view(self.doc)
        except Exception as e:  # noqa: BLE001
            obs["stray"].append("document unreadable: %s" % type(e).__name__)
            return obs
        obs["srv"] = srv
        obs["stray"] += problems
        if priv != self.priv0:
            obs["id"] = "changed"
        if cls == "ok" and marshal_view(w, loaded) != srv:
            obs["rt"] = "differs"
        return obs


class ApiLeg:
    leg = "api"

    def __init__(self, w):
        self.w = w

    def reset(self):
        self.g = None
        self.priv0 = None

    def do(self, c):
        w = self.w
        op = c["op"]
        if op == "tick":
            w.now += 1
            return "ok", {"t": "none"}, {}
        w.ticks += 1
        try:
            if op == "create":
                self.g = gm.create_grid_manager()
                self.priv0 = self.g.marshal()["private_key"]
                return "ok", {"t": "none"}, {}
            if op == "identity":
                want = ed25519.string_from_verifying_key(w.manager_vk(self.priv0))
                return "ok", {"t": "id" if self.g.public_identity() == want else "id_wrong"}, {}
            if op == "list":
                rows = [{"name": w.abstract(r), "key": w.keyname_of(self.g.storage_servers[r].public_key_string()), "certs": []}
                        for r in sorted(self.g.storage_servers.keys())]
                return "ok", {"t": "list", "rows": rows}, {}
            if op == "add":
                self.g.add_storage_server(w.real(c["n"]), ed25519.verifying_key_from_string(w.pub[c["k"]]))
                return "ok", {"t": "none"}, {}
            if op == "remove":
                self.g.remove_storage_server(w.real(c["n"]))
                return "ok", {"t": "none"}, {}
            if op == "sign":
                sc = self.g.sign(w.real(c["n"]), timedelta(days=c["d"]))
                return "ok", {"t": "cert", "cert": w.cert_obs(sc, w.manager_vk(self.priv0))}, {}
        except Exception as e:  # noqa: BLE001
            return "fail", {"t": "none"}, {"raised": type(e).__name__}
        raise RuntimeError(op)

    def observe(self):
        w = self.w
        obs = {"ex": self.g is not None, "srv": {n: "-" for n in w.names}, "certs": {n: [] for n in w.names},
               "load": "ok", "rt": "same", "stray": [], "gap": False, "private": True, "id": "same"}
        if self.g is None:
            obs["load"] = load_class(lambda: gm.load_grid_manager(FilePath(w.fresh("nothing"))))[0]
            return obs
        obs["srv"] = srv = marshal_view(w, self.g)
        try:
            if self.g.marshal()["private_key"] != self.priv0:
                obs["id"] = "changed"
            # save to a new directory and load; print and load from stdin
            tmp = w.fresh("api")
            gm.save_grid_manager(FilePath(tmp), self.g)
            obs["private"] = stat.S_IMODE(os.stat(tmp).st_mode) & 0o077 == 0
            cls, g2 = load_class(lambda: gm.load_grid_manager(FilePath(tmp)))
            obs["load"] = cls
            srv2, priv2, problems2 = w.doc_view(open(os.path.join(tmp, "config.json")).read())
            obs["stray"] += problems2 + sorted(set(os.listdir(tmp)) - {"config.json"})
            shutil.rmtree(tmp, ignore_errors=True)
            saved_out, saved_in = sys.stdout, sys.stdin
            sys.stdout = buf = io.StringIO()
            try:
                gm.save_grid_manager(None, self.g)
            finally:
                sys.stdout = saved_out
            sys.stdin = io.StringIO(buf.getvalue())
            try:
                g3 = gm.load_grid_manager(None)
            finally:
                sys.stdin = saved_in
            if not (srv2 == srv and priv2 == self.priv0 and cls == "ok" and marshal_view(w, g2) == srv and marshal_view(w, g3) == srv
                    and g2.public_identity() == self.g.public_identity() == g3.public_identity()):
                obs["rt"] = "differs"
        except Exception as e:  # noqa: BLE001
            obs["rt"] = "differs:%s" % type(e).__name__
        return obs


LEGS = {"dir": DirLeg, "stdin": StdinLeg, "api": ApiLeg}


def walk_class(cls, seed, scratch, maxwalk):
    """cover the transitions of one table: greedy tour, breadth-first search to the nearest state with something
    left to do, a new walk (new directory) when stuck or after maxwalk steps"""
    table = M.Table(cls["table"])
    rng = random.Random("X-gmtool/%s/%d" % (cls["name"], seed))
    budget = cls["budget"]          # real steps per binding
    todo = {k: set(range(len(st["trans"]))) for k, st in table.states.items()}
    bad = set()                     # (state, transition) after which the real state was not an allowed one
    chosen = {}                     # (state, transition) -> the one of several allowed outcomes the code was seen to take
    walks = []
    total = 0
    stats = {"transitions": table.ntrans, "states": len(table.states), "covered": 0, "walks": 0, "steps": 0, "blocked": 0, "legs": {}}

    adj = {k: [(ti, [(oi, o["k2"]) for oi, o in enumerate(tr["outs"])]) for ti, tr in enumerate(st["trans"])] for k, st in table.states.items()}

    def route(src):
        """shortest list of transition indices from src to a state that still has something to do"""
        if todo[src]:
            return []
        prev = {src: None}
        q = deque([src])
        while q:
            k = q.popleft()
            for ti, outs in adj[k]:
                if (k, ti) in bad:
                    continue
                for oi, k2 in outs:
                    if k2 in prev or (len(outs) > 1 and chosen.get((k, ti), oi) != oi):
                        continue
                    prev[k2] = (k, ti)
                    if todo[k2]:
                        path = []
                        while prev[k2] is not None:
                            k2, ti2 = prev[k2]
                            path.append(ti2)
                        return path[::-1]
                    q.append(k2)
        return None

    for init in table.inits:
        legname = table.states[init]["s"]["leg"]
        steps = 0
        while steps < budget:
            first = route(init)
            if first is None:
                break
            w = World(random.Random("X-gmtool/%s/%s/%d/%d" % (cls["name"], legname, seed, len(walks))), cls["consts"], scratch)
            gm.current_datetime_with_zone = w.clock
            cli.current_datetime_with_zone = w.clock
            leg = LEGS[legname](w)
            leg.reset()
            cur = init
            walk = {"cls": cls["name"], "leg": legname, "world": {"base": w.base.isoformat(), "suffix": w.suffix, "garbage": w.garbage},
                    "init_obs": leg.observe(), "steps": []}
            walks.append(walk)
            pending = list(first)
            while len(walk["steps"]) < maxwalk and steps < budget:
                if not pending:
                    if todo[cur]:
                        pending = [rng.choice(sorted(todo[cur]))]
                    else:
                        r = route(cur)
                        if not r:
                            break
                        pending = list(r)
                ti = pending.pop(0)
                t = table.states[cur]["trans"][ti]
                rc, out, info = leg.do(t["c"])
                real = {"rc": rc, "out": out, "obs": leg.observe(), "info": info}
                j, diff = M.judge(table, t, real)
                walk["steps"].append({"sid": table.states[cur]["id"], "ti": ti, "real": real, "j": j, "diff": diff})
                steps += 1
                total += 1
                if ti in todo[cur]:
                    todo[cur].discard(ti)
                    stats["covered"] += 1
                if j < 0:
                    bad.add((cur, ti))
                    break
                if diff and any(not d.startswith("obs.load") and not d.startswith("obs.rt") for d in diff):
                    # the state is an allowed one but the answer was not: do not route through this step again
                    bad.add((cur, ti))
                if len(t["outs"]) > 1:
                    chosen[(cur, ti)] = j
                    pending = []            # the code chose one of several allowed outcomes: plan again from where we are
                cur = t["outs"][j]["k2"]
            shutil.rmtree(scratch, ignore_errors=True)
            os.makedirs(scratch, exist_ok=True)
        mine = [k for k in todo if table.states[k]["s"]["leg"] == legname]
        left = sum(len(todo[k]) for k in mine)
        stats["legs"][legname] = {"steps": steps, "transitions": sum(len(table.states[k]["trans"]) for k in mine), "left": left}
        if steps < budget:
            stats["blocked"] += left          # not reachable: behind a reported disagreement, or behind an allowed outcome the code never takes
    stats["walks"] = len(walks)
    stats["steps"] = total
    return walks, stats


def main():
    ap = argparse.ArgumentParser()
    ap.add_argument("--out")
    ap.add_argument("--seed", type=int, default=0)
    ap.add_argument("--tier", default="quick")
    ap.add_argument("--in", dest="inp")
    ap.add_argument("--maxwalk", type=int, default=120)
    a = ap.parse_args()
    spec = json.load(open(a.inp))
    scratch = tempfile.mkdtemp(prefix="gmtool_")
    t0 = time.time()
    res = {"classes": []}
    try:
        for cls in spec["classes"]:
            walks, stats = walk_class(cls, a.seed, scratch, a.maxwalk)
            stats["wall_s"] = round(time.time() - t0, 2)
            res["classes"].append({"name": cls["name"], "walks": walks, "stats": stats})
    finally:
        shutil.rmtree(scratch, ignore_errors=True)
    with open(a.out, "w") as f:
        json.dump(res, f)


if __name__ == "__main__":
    main()
