"""Drive a real StorageServer through seeded histories for the Spec modules
StorageMore.tla / CrawlerMore.tla (extra `storage_more`).

profile adv    the histories of storage_driver.py (allocate, write, close, abort,
               time, disk space, leases, mutable writes - the Scenario class is
               reused) mixed with corruption advisories (server method and
               BucketReader method, for held / incoming / unknown shares, with
               report sizes around the available space) and get_version calls.
               Output: traces for TraceStorageMore.tla.
profile crawl  the two crawlers every StorageServer runs (bucket_counter,
               lease_checker), started with startService() and driven by the
               virtual reactor; slice ends are forced by moving the interposed
               `allmydata.storage.crawler.time` from inside the documented hooks
               (DESIGN.md A.12), kills are a BaseException from a hook, restarts
               are a new StorageServer on the same directory.
               Output: traces for TraceCrawlMore.tla.

No rule about advisories, versions, counts or histories lives here: the driver
records what was asked, what came back and what can be read back.
"""
import argparse, json, os, random, re, shutil, struct, sys, tempfile

from vreactor import vr
from storage_driver import Scenario, SI, SHNUMS, RS, CS, b2l, l2b
from crawler_driver import FakeTime, Killed
import allmydata.storage.crawler as crawler_mod
import allmydata.storage.expirer as expirer_mod
from allmydata.storage.server import StorageServer, FoolscapStorageServer
from allmydata.storage.common import si_b2a, storage_index_to_dir
from allmydata.util import fileutil

SI = dict(SI)
SI["u0"] = b"\xc4" * 16            # a storage index the server never hears of otherwise
ALLSH = SHNUMS + ["7"]             # "7": a share number no upload uses
FLAG_KEYS = {"overrun": b"tolerates-immutable-read-overrun",
             "delzero": b"delete-mutable-shares-with-zero-length-writev",
             "fillzero": b"fills-holes-with-zero-bytes",
             "noreadpast": b"prevents-read-past-end-of-share-data"}
V1 = b"http://allmydata.org/tahoe/protocols/storage/v1"


# --------------------------------------------------------------------------------------------
# profile adv
# --------------------------------------------------------------------------------------------
class Twin:
    """The same code on a server with plenty of space holding every share: the size of the report it writes for
    (type, storage index, share number, reason) is the size of the report text."""
    def __init__(self, workdir):
        self.dir = tempfile.mkdtemp(prefix="twin", dir=workdir)
        saved = fileutil.get_available_space
        fileutil.get_available_space = lambda d, r: 10 ** 9
        try:
            self.ss = StorageServer(self.dir, b"\x01" * 20, clock=vr)
            for si in SI.values():
                already, writers = self.ss.allocate_buckets(si, b"t" * 32, b"u" * 32, set(int(s) for s in ALLSH), 1)
                for w in writers.values():
                    w.write(0, b"x")
                    w.close()
        finally:
            fileutil.get_available_space = saved

    def report_size(self, typ, si, sh, reason):
        saved = fileutil.get_available_space
        fileutil.get_available_space = lambda d, r: 10 ** 9
        try:
            d = self.ss.corruption_advisory_dir
            before = set(os.listdir(d))
            self.ss.advise_corrupt_share(typ, si, sh, reason)
            new = set(os.listdir(d)) - before
            n = sum(os.path.getsize(os.path.join(d, f)) for f in new)
            for f in new:
                os.unlink(os.path.join(d, f))
        finally:
            fileutil.get_available_space = saved
        if not new:
            # the twin recorded nothing: fall back to the report format of server.py as of this writing
            n = 66 + len(typ) + len(si_b2a(si)) + len(str(sh)) + len(reason)
        return n


class MoreScenario(Scenario):
    def __init__(self, rng, workdir, nevents, twin):
        Scenario.__init__(self, rng, workdir, "imm", nevents)
        # a server of our own choosing (the base class only varies read-only / space in its imm profile)
        for c in list(vr.getDelayedCalls()):
            c.cancel()
        self.profile = "lease"          # lease operations of the base class then use both kinds of storage index
        self.twin = twin
        self.readonly = rng.random() < 0.12
        self.readonly0 = self.readonly
        self.reserved = rng.choice([0, 0, 7, 1000])
        self.dir = tempfile.mkdtemp(prefix="srvm", dir=workdir)
        self.ss = StorageServer(self.dir, b"\x00" * 20, reserved_space=self.reserved,
                                readonly_storage=self.readonly, clock=vr)
        self.fss = FoolscapStorageServer(self.ss)
        self.disk.capacity = self.reserved + self.pick_space()
        self.nadv = 0
        self.sizes = [140]

    def pick_space(self):
        r = self.rng
        k = r.random()
        if k < 0.15:
            return r.randint(0, 14)
        if k < 0.60:
            # around the size of a report
            return max(0, r.choice(self.sizes if getattr(self, "sizes", None) else [140]) + r.randint(-30, 40))
        return 10 ** 6

    # ---------- observations ----------
    def reports(self):
        d = self.ss.corruption_advisory_dir
        out, total = [], 0
        b32 = {si_b2a(v).decode("ascii"): k for k, v in SI.items()}
        for fn in sorted(os.listdir(d)):
            p = os.path.join(d, fn)
            total += os.path.getsize(p)
            with open(p, "r", encoding="utf-8") as f:
                txt = f.read()
            si = [k for s, k in b32.items() if s in txt]
            m = re.search(r"share_number: (\d+)", txt) or re.search(r"-(\d+)$", fn)
            rs = re.findall(r"\bR\d+q[a-z]*", txt)
            t = re.search(r"type: (\w+)", txt)
            out.append({"type": t.group(1) if t else ("immutable" if "immutable" in txt else ("mutable" if "mutable" in txt else "none")),
                        "si": si[0] if len(si) == 1 else "unknown",
                        "sh": m.group(1) if m else "none",
                        "reason": rs[0] if len(rs) == 1 else "unknown"})
        return out, total

    def obsall(self):
        return {si: self.obs(si) for si in self.sisI + self.sisM}

    # ---------- new operations ----------
    def op_advise(self):
        r = self.rng
        # favour storage indexes that hold something
        cands = []
        for si in self.sisI + self.sisM:
            o = self.obs(si)
            w = 4 if any(s.get("st") == "final" or s.get("present") for s in o.values()) else 1
            w += 2 if any(s.get("st") == "incoming" for s in o.values()) else 0
            cands += [si] * w
        cands.append("u0")
        si = r.choice(cands)
        sh = r.choice(ALLSH if r.random() < 0.25 else SHNUMS)
        held = [(s, n) for s in self.sisI + self.sisM for n, x in self.obs(s).items() if x.get("st") == "final" or x.get("present")]
        if held and r.random() < 0.55:
            si, sh = r.choice(held)
        typ = r.choice(["immutable", "mutable"])
        self.nadv += 1
        reason = "R%dq" % self.nadv + "".join(r.choice("abcdefghijklmnop") for _ in range(r.choice([0, 3, 10, 25, 60])))
        via = "server"
        reader = None
        if si in self.sisI and r.random() < 0.45:
            bs = self.fss.remote_get_buckets(SI[si])
            if bs:
                shn = r.choice(sorted(bs))
                sh, typ, via, reader = str(shn), "immutable", "reader", bs[shn]
        replen = self.twin.report_size(typ.encode("ascii"), SI[si], int(sh), reason.encode("ascii"))
        self.sizes.append(replen)
        free_before = self.avail()
        _, before = self.reports()
        if reader is not None:
            res = reader.remote_advise_corrupt_share(reason.encode("ascii"))
        elif r.random() < 0.5:
            res = self.fss.remote_advise_corrupt_share(typ.encode("ascii"), SI[si], int(sh), reason.encode("ascii"))
        else:
            res = self.ss.advise_corrupt_share(typ.encode("ascii"), SI[si], int(sh), reason.encode("ascii"))
        reps, after = self.reports()
        written = after - before
        self.disk.capacity -= written          # the report lives on the same disk as the shares
        self.events.append({"ev": "Advise", "si": si, "sh": sh, "type": typ, "reason": reason.split("q")[0] + "q", "via": via,
                            "replen": replen, "free": free_before, "res": "none" if res is None else "other",
                            "written": written, "reports": [dict(x, reason=x["reason"].split("q")[0] + "q") for x in reps],
                            "obsall": self.obsall(), "inprog": self.inprogress()})

    def op_version(self):
        free_before = self.avail()
        v = self.fss.remote_get_version() if self.rng.random() < 0.5 else self.ss.get_version()
        p = v.get(V1, {})

        def num(x):
            return x if isinstance(x, int) and 0 <= x < 2 ** 31 else -2
        res = {"avail": num(p.get(b"available-space")), "maximm": num(p.get(b"maximum-immutable-share-size")),
               "maxmut": str(p.get(b"maximum-mutable-share-size")),
               "flags": {k: (p.get(name) is True) for k, name in FLAG_KEYS.items()},
               "appver": isinstance(v.get(b"application-version"), bytes) and len(v.get(b"application-version")) > 0}
        self.events.append({"ev": "Version", "res": res, "free": free_before, "obsall": self.obsall(), "inprog": self.inprogress()})

    def op_reconfigure(self):
        """The operator stops the node and starts it again with the other readonly_storage setting."""
        self.ss.stopService()             # aborts the uploads in progress
        self.readonly = not self.readonly
        self.ss = StorageServer(self.dir, b"\x00" * 20, reserved_space=self.reserved,
                                readonly_storage=self.readonly, clock=vr)
        self.fss = FoolscapStorageServer(self.ss)
        reps, _ = self.reports()
        self.events.append({"ev": "Reconfigure", "readonly": self.readonly, "obsall": self.obsall(), "inprog": self.inprogress(),
                            "reports": [dict(x, reason=x["reason"].split("q")[0] + "q") for x in reps]})

    def op_setfree2(self):
        self.disk.capacity = self.reserved + self.pick_space()
        self.events.append({"ev": "SetFree", "capacity": self.disk.capacity})

    def run(self):
        table = [(self.op_allocate, 14), (self.op_write, 10), (self.op_close, 12), (self.op_abort, 3),
                 (self.op_advance, 3), (self.op_disconnect, 2), (self.op_setfree2, 8),
                 (self.op_rtw, 8), (self.op_addlease, 2), (self.op_getbuckets, 1),
                 (self.op_advise, 26), (self.op_version, 11), (self.op_reconfigure, 2)]
        ops = [o for o, w in table for _ in range(w)]
        guard = 0
        while len(self.events) < self.nevents and guard < self.nevents * 20:
            guard += 1
            op = self.rng.choice(ops)
            try:
                op()
            except Exception as e:
                import traceback
                self.events.append({"ev": "Crash", "op": getattr(op, "__name__", "op"), "exc": type(e).__name__,
                                    "family": "MORE", "tb": traceback.format_exc()[-800:]})
                break
        return {"consts": {"sisI": self.sisI, "sisM": self.sisM, "shnums": SHNUMS, "readonly": self.readonly0,
                           "capacity0": 0, "profile": "more"},
                "events": self.events}


def run_adv(a, rng, work):
    twin = Twin(work)
    traces = []
    for i in range(a.n):
        sc = MoreScenario(rng, work, a.events, twin)
        cap0 = sc.disk.capacity
        try:
            tr = sc.run()
            tr["consts"]["capacity0"] = cap0
            tr["consts"]["reserved"] = sc.reserved
            traces.append(tr)
        finally:
            sc.cleanup()
    return traces


# --------------------------------------------------------------------------------------------
# profile crawl
# --------------------------------------------------------------------------------------------
NP = 3


class CrawlScenario:
    def __init__(self, rng, workdir, nevents, ft, long_):
        self.rng, self.ft, self.nevents, self.long = rng, ft, nevents, long_
        self.dir = tempfile.mkdtemp(prefix="crawlm", dir=workdir)
        self.events = []
        self.ss = None
        self.cur_slice = None
        self.plans = {}
        # NP of the 1024 prefix directories stand for the Spec's prefixes 1..NP (first / last favoured), three
        # storage indexes in each: buckets 10*p + k in the crawler's order
        bits_of = {si_b2a(struct.pack(">H", i << 6))[:2].decode("ascii"): i for i in range(1024)}
        self.names = sorted(bits_of)
        pick = set()
        if rng.random() < 0.4:
            pick.add(0)
        if rng.random() < 0.4:
            pick.add(1023)
        while len(pick) < NP:
            pick.add(rng.randrange(1024))
        self.pidx = sorted(pick)
        self.pabs = {self.names[ci]: p for p, ci in enumerate(self.pidx, 1)}
        self.index_of = {n: i for i, n in enumerate(self.names)}
        self.si = {}
        for p, ci in enumerate(self.pidx, 1):
            bits = bits_of[self.names[ci]]
            sis = set()
            while len(sis) < 3:
                sis.add(struct.pack(">H", (bits << 6) | rng.randrange(64)) + bytes(rng.randrange(256) for _ in range(14)))
            for k, s in enumerate(sorted(sis, key=lambda x: si_b2a(x)), 1):
                self.si[10 * p + k] = s
        self.babs = {si_b2a(s).decode("ascii"): b for b, s in self.si.items()}
        self.min_cycle = {"bc": rng.choice([400, 900, 3600]), "lc": rng.choice([500, 1100, 43200])}
        if long_:
            # many lease-checker cycles (the history keeps the last 10): it must come round at least as often
            self.min_cycle = {"bc": rng.choice([900, 3600]), "lc": rng.choice([400, 500])}

    # ---------------- the server and its crawlers ----------------
    def crawlers(self):
        return {"bc": self.ss.bucket_counter, "lc": self.ss.lease_checker}

    def new_server(self):
        self.ss = StorageServer(self.dir, b"\x07" * 20, clock=vr)
        for k, c in self.crawlers().items():
            assert list(c.prefixes) == self.names
            c.minimum_cycle_time = self.min_cycle[k]      # "all three of these can be changed at any time"
            self.wrap(k, c)
        self.ss.startService()

    def wrap(self, k, c):
        sc = self
        orig_start, orig_fp, orig_fc = c.start_slice, c.finished_prefix, c.finished_cycle

        def hook(kind, arg, cycle):
            sl = sc.cur_slice
            sl["hooks"].append([kind, arg, cycle])
            plan = sc.plans.get(k) or {}
            n = len(sl["hooks"])
            if plan.get("kill") == n:
                raise Killed()
            if plan.get("yield") == n:
                sc.ft.now += 2 * c.cpu_slice

        def start_slice():
            sl = {"ev": "Slice", "who": k, "hooks": [], "end": "yield"}
            sc.cur_slice = sl
            sc.slices.append(sl)
            try:
                orig_start()
            except Killed:
                sl["end"] = "killed"
                raise
            except Exception as e:
                import traceback
                sl["end"] = "crash"
                sl["exc"] = type(e).__name__
                sl["tb"] = traceback.format_exc()[-700:]
                return
            sl["obs"] = sc.observe(k)
            sl["disk"] = sc.real_disk()

        def finished_prefix(cycle, prefix):
            orig_fp(cycle, prefix)
            if prefix in sc.pabs:
                hook("prefix", sc.pabs[prefix], cycle)

        def finished_cycle(cycle):
            orig_fc(cycle)
            sc.cur_slice["end"] = "finished"

        c.start_slice, c.finished_prefix, c.finished_cycle = start_slice, finished_prefix, finished_cycle
        if k == "lc":
            orig_pb = c.process_bucket

            def process_bucket(cycle, prefix, prefixdir, name):
                orig_pb(cycle, prefix, prefixdir, name)
                hook("bucket", sc.babs.get(name, -99), cycle)
            c.process_bucket = process_bucket

    # ---------------- observations ----------------
    def nmapped_upto(self, name):
        if name is None:
            return 0
        ci = self.index_of[name]
        return len([x for x in self.pidx if x <= ci])

    def observe(self, k):
        c = self.crawlers()[k]
        try:
            st = c.get_state()
        except Exception as e:
            return {"crash": type(e).__name__}
        o = {"lcf": -1 if st["last-cycle-finished"] is None else st["last-cycle-finished"],
             "cur": -1 if st["current-cycle"] is None else st["current-cycle"],
             "lcp": self.nmapped_upto(st["last-complete-prefix"])}
        if k == "bc":
            n = st.get("last-complete-bucket-count")
            o["last"] = -1 if n is None else n
            o["stat"] = self.ss.get_stats().get("storage_server.total_bucket_count", 0)
        else:
            ctd = st.get("cycle-to-date")
            o["exam"] = ctd["space-recovered"]["examined-buckets"] if ctd is not None else -1
            o["hist"] = [{"c": int(cy), "exam": h.get("space-recovered", {}).get("examined-buckets", -1), "keys": sorted(h.keys())}
                         for cy, h in sorted(st["history"].items(), key=lambda kv: int(kv[0]))]
        return o

    def listed_not_visited(self):
        """buckets the lease checker has in its listing of the prefix it stopped in (same prefix as its
        last-complete-bucket, later in the order) but has not visited yet"""
        try:
            lcb = self.babs.get(self.ss.lease_checker.get_state().get("last-complete-bucket"))
        except Exception:
            lcb = None
        return [y for y in self.real_disk() if lcb is not None and y // 10 == lcb // 10 and y > lcb]

    def real_disk(self):
        return sorted(b for b, s in self.si.items() if os.path.isdir(os.path.join(self.ss.sharedir, storage_index_to_dir(s))))

    def log(self, e):
        e["disk"] = self.real_disk()
        self.events.append(e)

    # ---------------- environment actions ----------------
    def add_bucket(self, b):
        already, writers = self.ss.allocate_buckets(self.si[b], bytes([b]) * 32, bytes([b + 100]) * 32, {0}, 5)
        writers[0].write(0, b"share")
        writers[0].close()

    def kill(self):
        for dc in list(vr.getDelayedCalls()):
            dc.cancel()
        self.alive = False

    def do_slice(self):
        r = self.rng
        cs = self.crawlers()
        calls = [dc.getTime() for dc in vr.getDelayedCalls()]      # only the crawlers have timers here
        if not calls:
            return False
        t = min(calls)
        self.plans = {}
        for k in cs:
            x = r.random()
            if self.long:
                self.plans[k] = {} if x < 0.85 else {"yield": r.randint(1, 3)}
            elif x < 0.40:
                self.plans[k] = {}
            elif x < 0.90:
                self.plans[k] = {"yield": r.randint(1, 5)}
            else:
                self.plans[k] = {"kill": r.randint(1, 5)}
        self.slices = []
        dt = max(0.0, t - vr.seconds()) + 1e-6
        self.ft.now += dt
        try:
            vr.advance(dt)
        except Killed:
            self.kill()
        for sl in self.slices:
            if "disk" not in sl:
                sl["disk"] = self.real_disk()
            self.events.append(sl)
        return True

    def run(self):
        r = self.rng
        disk0 = sorted(r.sample(sorted(self.si), r.randint(0, 4)))
        self.new_server()
        self.alive = True
        for b in disk0:
            self.add_bucket(b)
        guard = 0
        while len(self.events) < self.nevents and guard < self.nevents * 10:
            guard += 1
            x = r.random()
            try:
                if not self.alive:
                    if x < 0.8:
                        self.new_server()
                        self.alive = True
                        self.log({"ev": "Restart", "obs": {k: self.observe(k) for k in ("bc", "lc")}})
                    else:
                        present = self.real_disk()
                        if present:
                            b = r.choice(present)
                            shutil.rmtree(os.path.join(self.ss.sharedir, storage_index_to_dir(self.si[b])))
                            self.log({"ev": "Remove", "b": b})
                    continue
                pslice = 0.86 if self.long else 0.62
                later = self.listed_not_visited()
                if later and not self.long and r.random() < 0.3:
                    b = r.choice(later)
                    shutil.rmtree(os.path.join(self.ss.sharedir, storage_index_to_dir(self.si[b])))
                    self.log({"ev": "Remove", "b": b})
                    continue
                if x < pslice:
                    if not self.do_slice():
                        # no crawler has a timer left (both died): only a restart helps
                        self.kill()
                        self.log({"ev": "Kill"})
                elif x < pslice + 0.12:
                    absent = [b for b in self.si if b not in self.real_disk()]
                    if absent:
                        b = r.choice(absent)
                        self.add_bucket(b)
                        self.log({"ev": "Add", "b": b})
                elif x < pslice + 0.20:
                    present = self.real_disk()
                    if present:
                        b = r.choice(present)
                        later = self.listed_not_visited()
                        if later and r.random() < 0.5:
                            b = r.choice(later)
                        shutil.rmtree(os.path.join(self.ss.sharedir, storage_index_to_dir(self.si[b])))
                        self.log({"ev": "Remove", "b": b})
                elif x < pslice + 0.29 or self.long:
                    self.ss.stopService()
                    self.kill()
                    self.log({"ev": "Stop"})
                else:
                    self.kill()
                    self.log({"ev": "Kill"})
            except Exception as e:
                import traceback
                self.events.append({"ev": "Crash", "exc": type(e).__name__, "tb": traceback.format_exc()[-800:], "disk": []})
                break
        for dc in list(vr.getDelayedCalls()):
            dc.cancel()
        return {"consts": {"disk0": disk0, "prefixes": self.pidx, "min_cycle": self.min_cycle, "long": self.long},
                "events": self.events}


def run_crawl(a, rng, work):
    ft = FakeTime()
    crawler_mod.time = ft
    expirer_mod.time = ft
    traces = []
    for i in range(a.n):
        long_ = (i % 5 == 4)
        sc = CrawlScenario(rng, work, a.events * 2 if long_ else a.events, ft, long_)
        try:
            traces.append(sc.run())
        finally:
            for dc in list(vr.getDelayedCalls()):
                dc.cancel()
            shutil.rmtree(sc.dir, ignore_errors=True)
    return traces


def main():
    ap = argparse.ArgumentParser()
    ap.add_argument("--out"); ap.add_argument("--seed", type=int, default=0); ap.add_argument("--tier", default="quick")
    ap.add_argument("--in", dest="inp")
    ap.add_argument("--profile", default="adv"); ap.add_argument("--n", type=int, default=100); ap.add_argument("--events", type=int, default=30)
    a = ap.parse_args()
    rng = random.Random("more-%s-%d" % (a.profile, a.seed))
    vr.advance(1000000000)
    work = tempfile.mkdtemp(prefix="more")
    try:
        traces = run_adv(a, rng, work) if a.profile == "adv" else run_crawl(a, rng, work)
    finally:
        shutil.rmtree(work, ignore_errors=True)
    with open(a.out, "w") as f:
        json.dump(traces, f)


if __name__ == "__main__":
    main()
