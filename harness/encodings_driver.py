"""Driver of the real encoders / decoders for C38 (base32, base62, netstring, URI extension block,
lease records, share container headers).  Replays the cases printed by spec/util/GenEncodings.tla and
compares every real result with the Spec's verdict.

Outcome classes per case:
  agree     the code did what the strict Spec says;
  lenient   the code differs from the strict verdict but does exactly what the Spec's *lenient* reading says
            (Python int() length forms, duplicate/empty UEB keys, base62 without validation): counted, reported
            in the evidence notes, kept out of the verdict (DESIGN.md section 10);
  mismatch  anything else (returned with a structural kind)."""
import argparse, json

from allmydata.util import base32, base62, netstring as ns, hashutil
from allmydata import uri
from allmydata.storage.lease import LeaseInfo
from allmydata.storage import immutable_schema, mutable_schema

B32 = base32.chars
B62 = base62.chars
OUTSIDE = {32: b"A", 33: b"1", 34: b"="}


def b32text(sy):
    return b"".join(B32[x:x + 1] if x < 32 else OUTSIDE[x] for x in sy)


def b62text(ds):
    return b"".join(B62[x:x + 1] for x in ds)


def attempt(f, *a, **kw):
    try:
        return True, f(*a, **kw)
    except Exception as e:   # every exception is a rejection
        return False, type(e).__name__


def be(b):
    return int.from_bytes(bytes(b), "big")


def run_case(c):
    """-> (class, kind, detail)"""
    k = c["kind"]
    if k == "b32dec":
        text = b32text(c["text"])
        ok_c, could = attempt(base32.could_be_base32_encoded, text)
        ok, val = attempt(base32.a2b, text)
        st = c["strict"]
        if st["ok"]:
            if ok and val == bytes(st["val"]) and ok_c and could:
                return "agree", None, None
            return "mismatch", "base32:a2b:valid_text_rejected_or_wrong", {"text": text.decode(), "real": [ok, repr(val)], "could_be": repr(could)}
        if not ok:
            if ok_c and could:
                return "mismatch", "base32:could_be_base32_encoded:true_for_text_a2b_rejects", {"text": text.decode()}
            return "agree", None, None
        if st["why"] == "padbits" and val == bytes(c["loose"]):
            return "mismatch", "base32:noncanonical_tail_accepted:%s" % c["padclass"], {
                "text": text.decode(), "a2b": list(val), "canonical_text_of_that_value": base32.b2a(val).decode(),
                "could_be_base32_encoded": bool(could)}
        return "mismatch", "base32:a2b:malformed_accepted:%s" % st["why"], {"text": text.decode(errors="replace"), "a2b": list(val)}
    if k == "b32enc":
        data = bytes(c["bytes"])
        text = b32text(c["text"])
        if base32.b2a(data) != text:
            return "mismatch", "base32:b2a", {"bytes": c["bytes"], "real": base32.b2a(data).decode(), "spec": text.decode()}
        ok, val = attempt(base32.a2b, text)
        if not ok or val != data:
            return "mismatch", "base32:roundtrip", {"bytes": c["bytes"], "real": repr(val)}
        return "agree", None, None
    if k == "b62enc":
        data = bytes(c["bytes"])
        text = b62text(c["text"])
        ok, enc = attempt(base62.b2a, data)
        if not ok or enc != text:
            return "mismatch", "base62:b2a", {"bytes": c["bytes"], "real": repr(enc), "spec": text.decode()}
        ok, val = attempt(base62.a2b, text)
        if not ok or val != data:
            return "mismatch", "base62:roundtrip", {"bytes": c["bytes"], "real": repr(val)}
        return "agree", None, None
    if k == "b62dec":
        text = b62text(c["text"])
        ok, val = attempt(base62.a2b, text)
        st = c["strict"]
        if st["ok"]:
            if ok and val == bytes(st["val"]):
                return "agree", None, None
            return "mismatch", "base62:a2b:valid_text_rejected_or_wrong", {"text": text.decode(), "real": repr(val)}
        if not ok:
            return "agree", None, None
        if val == bytes(c["loose"]):
            return "lenient", "base62:noncanonical_text_accepted:%s" % st["why"], {"text": text.decode(), "a2b": list(val)}
        return "mismatch", "base62:a2b:malformed_accepted", {"text": text.decode(), "a2b": list(val)}
    if k == "netsplit":
        data = bytes(c["data"])
        trailer = bytes(c["trailer"]) if c["has_trailer"] else None
        ok, res = attempt(ns.split_netstring, data, c["num"], position=c["pos"], required_trailer=trailer)
        real = {"ok": ok, "val": [list(x) for x in res[0]] if ok else [], "pos": res[1] if ok else 0}

        def same(v):
            return v["ok"] == real["ok"] and (not v["ok"] or (v["val"] == real["val"] and v["pos"] == real["pos"]))
        if same(c["strict"]):
            return "agree", None, None
        if same(c["lenient"]):
            return "lenient", "netstring:lenient_length_prefix", {"data": data.decode(errors="replace"), "real": real}
        kind = "netstring:split:malformed_accepted" if ok and not c["strict"]["ok"] else \
               "netstring:split:valid_rejected" if not ok else "netstring:split:wrong_value"
        return "mismatch", kind, {"data": data.decode(errors="replace"), "num": c["num"], "pos": c["pos"], "trailer": repr(trailer),
                                  "real": real if ok else res, "spec": c["strict"]}
    if k == "netenc":
        data = bytes(c["bytes"])
        enc = ns.netstring(data)
        if enc != bytes(c["enc"]):
            return "mismatch", "netstring:encode", {"real": enc.decode(errors="replace")}
        ok, res = attempt(ns.split_netstring, enc, 1, required_trailer=b"")
        if not ok or res[0] != [data] or res[1] != len(enc):
            return "mismatch", "netstring:roundtrip", {"real": repr(res)}
        return "agree", None, None
    if k == "uebunpack":
        data = bytes(c["data"])
        ok, res = attempt(uri.unpack_extension, data)

        def expect(v):
            if not v["ok"]:
                return None
            d = {}
            for (key, val), n in zip(v["items"], v["ints"]):
                d[bytes(key).decode("utf-8")] = n["n"] if n["is"] else bytes(val)
            return d
        real = res if ok else None
        if real == expect(c["strict"]):
            return "agree", None, None
        if real == expect(c["lenient"]):
            return "lenient", "ueb:lenient_form", {"data": data.decode(errors="replace"), "real": repr(real)}
        kind = "ueb:unpack:malformed_accepted" if ok and not c["strict"]["ok"] else \
               "ueb:unpack:valid_rejected" if not ok else "ueb:unpack:wrong_value"
        return "mismatch", kind, {"data": data.decode(errors="replace"), "real": repr(res), "spec": c["strict"]}
    if k == "uebpack":
        d = {}
        for (key, val), n in zip(c["items"], c["ints"]):
            d[bytes(key).decode()] = n["n"] if n["is"] else bytes(val)
        ok, enc = attempt(uri.pack_extension, dict(d))
        if not ok or enc != bytes(c["enc"]):
            return "mismatch", "ueb:pack", {"real": repr(enc), "spec": bytes(c["enc"]).decode(errors="replace")}
        ok, back = attempt(uri.unpack_extension, enc)
        if not ok or back != d:
            return "mismatch", "ueb:roundtrip", {"real": repr(back)}
        return "agree", None, None
    if k == "lease":
        v = c["value"]
        imm = c["variant"] == 1
        li = LeaseInfo(owner_num=be(v["owner_num"]), renew_secret=bytes(v["renew_secret"]), cancel_secret=bytes(v["cancel_secret"]),
                       expiration_time=be(v["expiration_time"]), nodeid=bytes(v["nodeid"]))
        ok, enc = attempt(li.to_immutable_data if imm else li.to_mutable_data)
        if not ok or enc != bytes(c["enc"]):
            return "mismatch", "lease:%s:encode" % ("immutable" if imm else "mutable"), {"real": list(enc) if ok else enc, "spec": c["enc"]}
        size = li.immutable_size() if imm else li.mutable_size()
        if size != c["size"]:
            return "mismatch", "lease:size", {"real": size}
        ok, back = attempt(LeaseInfo.from_immutable_data if imm else LeaseInfo.from_mutable_data, bytes(c["enc"]))
        if not ok or not c["back"]["ok"]:
            return "mismatch", "lease:decode:valid_rejected", {"real": repr(back)}
        want = {name: val for (name, val) in c["back"]["val"]}
        got = {"owner_num": back.owner_num, "renew_secret": back.renew_secret, "cancel_secret": back.cancel_secret,
               "expiration_time": back.get_expiration_time(), "nodeid": back.nodeid}
        for name, val in want.items():
            exp = be(val) if name in ("owner_num", "expiration_time") else bytes(val)
            if got[name] != exp:
                return "mismatch", "lease:%s:decode:%s" % ("immutable" if imm else "mutable", name), {"real": repr(got[name]), "spec": val}
        if imm and back.nodeid is not None:
            return "mismatch", "lease:immutable:decode:nodeid", {"real": repr(back.nodeid)}
        return "agree", None, None
    if k == "leasebad":
        imm = c["variant"] == 1
        ok, back = attempt(LeaseInfo.from_immutable_data if imm else LeaseInfo.from_mutable_data, bytes(c["data"]))
        if ok:
            return "mismatch", "lease:decode:wrong_size_accepted", {"len": len(c["data"])}
        return "agree", None, None
    if k == "immheader":
        schema = immutable_schema.schema_from_version(c["version"])
        ok, enc = attempt(schema.header, be(c["max_size"]))
        if not ok or enc != bytes(c["enc"]):
            return "mismatch", "header:immutable", {"real": list(enc) if ok else enc, "spec": c["enc"], "max_size": be(c["max_size"])}
        return "agree", None, None
    if k == "mutheader":
        schema = [s for s in mutable_schema.ALL_SCHEMAS if s.version == c["version"]][0]
        human = u"Tahoe mutable container v{:d}\n".format(c["version"]).encode("ascii")
        fill = hashutil.tagged_hash(b"allmydata_mutable_container_header", human, truncate_to=5)
        spec = list(c["enc"])
        j = 0
        for i, x in enumerate(spec):
            if x == -1:
                spec[i] = fill[j]
                j += 1
        ok, enc = attempt(schema.header, bytes(c["nodeid"]), bytes(c["write_enabler"]))
        if not ok or enc != bytes(spec):
            return "mismatch", "header:mutable", {"real": list(enc) if ok else enc, "spec": spec}
        if len(enc) != c["size"] or mutable_schema._EXTRA_LEASE_OFFSET != c["extra_lease_offset"]:
            return "mismatch", "header:mutable:sizes", {"len": len(enc), "extra_lease_offset": mutable_schema._EXTRA_LEASE_OFFSET}
        found = mutable_schema.schema_from_header(enc)
        if found is None or found.version != c["version"]:
            return "mismatch", "header:mutable:schema_from_header", {"real": repr(found)}
        return "agree", None, None
    return "mismatch", "unknown_case_kind:%s" % k, None


def replay(cases):
    mism, lenient = [], {}
    stats = {}
    lenient_samples = {}
    for c in cases:
        stats[c["kind"]] = stats.get(c["kind"], 0) + 1
        try:
            cls, kind, detail = run_case(c)
        except Exception as e:
            cls, kind, detail = "mismatch", "driver_exception:%s:%s" % (c["kind"], type(e).__name__), repr(e)[:400]
        if cls == "lenient":
            lenient[kind] = lenient.get(kind, 0) + 1
            lenient_samples.setdefault(kind, detail)
        elif cls == "mismatch":
            n = sum(1 for m in mism if m["kind"] == kind)
            mism.append({"kind": kind, "detail": detail, "case": c} if n < 5 else {"kind": kind})
    return {"mismatches": mism, "lenient": lenient, "lenient_samples": lenient_samples, "stats": stats}


def gen_traces(n, nevents, seed):
    """Seeded longer values through the real encoders/decoders, recorded for TraceEncodings.tla."""
    import random
    traces = []
    for ti in range(n):
        rng = random.Random("c38-%d-%d" % (seed, ti))
        events = []

        def rbytes(lo, hi):
            return bytes(rng.randrange(256) for _ in range(rng.randint(lo, hi)))
        while len(events) < nevents:
            r = rng.random()
            if r < 0.3:
                data = rbytes(0, 40)
                text = base32.b2a(data)
                events.append({"ev": "b32", "bytes": list(data), "text": [B32.index(bytes([ch])) for ch in text],
                               "back": list(base32.a2b(text))})
            elif r < 0.4:
                data = rbytes(0, 2)
                text = base62.b2a(data)
                events.append({"ev": "b62", "bytes": list(data), "text": [B62.index(bytes([ch])) for ch in text],
                               "back": list(base62.a2b(text))})
            elif r < 0.65:
                elems = [rbytes(0, rng.choice([3, 12, 120])) for _ in range(rng.randint(1, 4))]
                prefix = rbytes(0, 3)
                trailer = rng.choice([b"", b"", b"tail", rbytes(1, 5)])
                enc = prefix + b"".join(ns.netstring(e) for e in elems) + trailer
                ok, res = attempt(ns.split_netstring, enc, len(elems), position=len(prefix), required_trailer=trailer)
                events.append({"ev": "net", "elems": [list(e) for e in elems], "prefix": list(prefix), "pos": len(prefix),
                               "trailer": list(trailer), "enc": list(enc),
                               "split": {"ok": ok, "val": [list(x) for x in res[0]] if ok else [], "pos": res[1] if ok else 0}})
            elif r < 0.8:
                # damage a valid encoding: truncate, or overwrite one byte with a letter
                elems = [rbytes(1, 12) for _ in range(rng.randint(1, 3))]
                enc = bytearray(b"".join(ns.netstring(bytes(b % 26 + 97 for b in e)) for e in elems))
                if rng.random() < 0.5:
                    enc = enc[:rng.randrange(len(enc))]
                else:
                    enc[rng.randrange(len(enc))] = rng.choice(b"xyz:,")
                enc = bytes(enc)
                ok, res = attempt(ns.split_netstring, enc, len(elems), required_trailer=b"")
                events.append({"ev": "netbad", "num": len(elems), "enc": list(enc),
                               "split": {"ok": ok, "val": [list(x) for x in res[0]] if ok else [], "pos": res[1] if ok else 0}})
            else:
                keys = rng.sample([b"codec_name", b"codec_params", b"tail_codec_params", b"crypttext_hash", b"share_root_hash", b"x", b"xy", b"X-y_z"],
                                  rng.randint(0, 5))
                d = {k.decode(): rbytes(0, 34) for k in keys}
                enc = uri.pack_extension(dict(d))
                ok, back = attempt(uri.unpack_extension, enc)
                events.append({"ev": "ueb", "items": [[list(k.encode()), list(v)] for k, v in d.items()], "enc": list(enc),
                               "back": {"ok": ok, "items": [[list(k.encode()), list(v)] for k, v in sorted(back.items(), key=lambda kv: kv[0].encode())] if ok else []}})
        # share containers of both on-disk versions (a server that was upgraded still holds version-1 containers): what was
        # written into a container - data and lease records - is what a fresh reader object decodes from it
        events += container_events(rng)
        traces.append({"consts": {"seed": seed}, "events": events})
    return traces


def container_events(rng):
    import os, shutil, tempfile
    from allmydata.storage.immutable import ShareFile
    from allmydata.storage.mutable import MutableShareFile
    from allmydata.storage import immutable_schema, mutable_schema
    from allmydata.storage.lease import LeaseInfo
    out = []
    d = tempfile.mkdtemp(prefix="c38c")
    try:
        for kind, mod, cls in (("imm", immutable_schema, ShareFile), ("mut", mutable_schema, MutableShareFile)):
            for version in (1, 2):
                schema = mod.schema_from_version(version) if kind == "imm" else [sc for sc in mod.ALL_SCHEMAS if sc.version == version][0]
                path = os.path.join(d, "%s%d" % (kind, version))
                data = bytes(rng.randrange(256) for _ in range(rng.randint(1, 40)))
                leases = [{"rs": bytes([10 + i]) * 32, "cs": bytes([60 + i]) * 32, "exp": 1000000 + rng.randrange(10 ** 6), "owner": i + 1}
                          for i in range(rng.randint(1, 6 if kind == "mut" else 3))]
                ev = {"ev": "container", "kind": kind, "version": version, "nleases": len(leases), "error": ""}
                try:
                    if kind == "imm":
                        sf = ShareFile(path, max_size=len(data), create=True, lease_count_format="L", schema=schema)
                        sf.write_share_data(0, data)
                    else:
                        sf = MutableShareFile(path, schema=schema)
                        sf.create(b"n" * 20, b"w" * 32)
                        sf.writev([(0, data)], None)
                    for l in leases:
                        sf.add_lease(10 ** 9, LeaseInfo(owner_num=l["owner"], renew_secret=l["rs"], cancel_secret=l["cs"],
                                                        expiration_time=l["exp"], nodeid=b"n" * 20)) if kind == "mut" else \
                            sf.add_lease(LeaseInfo(owner_num=l["owner"], renew_secret=l["rs"], cancel_secret=l["cs"],
                                                   expiration_time=l["exp"], nodeid=b"n" * 20))
                    del sf
                    rd = cls(path)            # a fresh reader: the version comes from the header
                    got = list(rd.get_leases())
                    back = rd.read_share_data(0, len(data) + 5) if kind == "imm" else rd.readv([(0, len(data) + 5)])[0]
                    ev["data_ok"] = (back == data)
                    ev["count_ok"] = (len(got) == len(leases))
                    ev["leases"] = [{"renew_answers": any(g.is_renew_secret(l["rs"]) for g in got),
                                     "cancel_answers": any(g.is_cancel_secret(l["cs"]) for g in got),
                                     "exp_ok": any(g.is_renew_secret(l["rs"]) and int(g.get_expiration_time()) == l["exp"] for g in got)}
                                    for l in leases]
                    # the owner renews: the record that answers to the secret moves, no record is added
                    l0 = leases[0]
                    rd.renew_lease(l0["rs"], l0["exp"] + 777)
                    got2 = list(cls(path).get_leases())
                    ev["renew_ok"] = (len(got2) == len(leases) and any(g.is_renew_secret(l0["rs"]) and int(g.get_expiration_time()) == l0["exp"] + 777 for g in got2))
                except Exception as e:
                    ev["error"] = "%s: %s" % (type(e).__name__, str(e)[:120])
                    ev.setdefault("data_ok", False); ev.setdefault("count_ok", False); ev.setdefault("leases", []); ev.setdefault("renew_ok", False)
                out.append(ev)
    finally:
        shutil.rmtree(d, ignore_errors=True)
    return out


def main():
    ap = argparse.ArgumentParser()
    ap.add_argument("--out")
    ap.add_argument("--in", dest="inp")
    ap.add_argument("--seed", type=int, default=0)
    ap.add_argument("--tier", default="quick")
    ap.add_argument("--mode", default="replay")
    ap.add_argument("--n", type=int, default=10)
    ap.add_argument("--events", type=int, default=40)
    a = ap.parse_args()
    if a.mode == "trace":
        out = gen_traces(a.n, a.events, a.seed)
    else:
        with open(a.inp) as f:
            out = replay(json.load(f))
    with open(a.out, "w") as f:
        json.dump(out, f)


if __name__ == "__main__":
    main()
