"""Drive a real allmydata.frontends.sftpd.SFTPUserHandler (with its GeneralSFTPFile / ShortReadOnlySFTPFile
handles) on a SimGrid and record one event per SFTP request for spec/frontends/TraceSftpHandles.tla.

One history = one fresh grid (1 server, 1-of-1), one user whose root directory holds the names a, b, c with a
seeded initial population (absent, LIT / CHK immutable file, no-write link, SDMF / MDMF mutable file by write or
read cap - the same mutable file may be linked twice -, directory, unknown cap) plus a fixed sub-directory "ro"
linked by its READ cap (children: i = immutable file, m = mutable file M1).  /uri/<cap> paths name M1 by write
and by read cap, an immutable file, a directory and an unknown cap.

Requests: openFile with any subset of the six flags on any of those paths, readChunk / writeChunk / setAttrs(size)
/ getAttrs / close on the handles (also on closed ones), getAttrs / renameFile / posix-rename extension /
removeFile / removeDirectory / makeDirectory / openDirectory on the paths.

Profile "seq": every request is driven to its answer and the grid to quiescence before the next one is sent.
Profile "piped": after an open for writing or a close, the next request about the same name (getAttrs, rename,
remove, re-open) is sent BEFORE the first one has been answered (none or a few of the parked storage calls are
delivered in between) - the overlaps the code's comments promise to handle.  Events are recorded in the order of
sending; `piped` marks a request sent while an earlier one was unanswered; a request that is never answered
although the grid is quiescent is recorded as st = "hang" and ends the history.

Whenever no request is outstanding after a request that may change something, the directory and the mutable files
are read back through separate node objects (not through SFTP) and attached to the event as `obs`.
The driver decides nothing: generation only looks at what the real handler answered (which handles exist)."""
from vreactor import vr, settle  # noqa: F401  (must be first)
import argparse, json, os, random, shutil, stat as statmod, struct, sys, tempfile

from twisted.internet import defer
from twisted.python.failure import Failure
from twisted.conch.ssh import filetransfer as ft

from grid import Grid
from allmydata.frontends import sftpd
from allmydata.immutable import upload
from allmydata.interfaces import IDirectoryNode, MDMF_VERSION, SDMF_VERSION
from allmydata.mutable.publish import MutableData
from allmydata.util.consumer import download_to_data

NAMES = ["a", "b", "c"]
BITS = {"R": ft.FXF_READ, "W": ft.FXF_WRITE, "A": ft.FXF_APPEND, "C": ft.FXF_CREAT, "T": ft.FXF_TRUNC, "X": ft.FXF_EXCL}
CODES = {ft.FX_OK: "ok", ft.FX_EOF: "eof", ft.FX_NO_SUCH_FILE: "nosuch", ft.FX_PERMISSION_DENIED: "denied",
         ft.FX_FAILURE: "failure", ft.FX_BAD_MESSAGE: "badmsg", ft.FX_OP_UNSUPPORTED: "unsupported"}
UNKNOWN_CAP = b"x-tahoe-crazy:future"
COMMON_FLAGS = (["RW"] * 4 + ["RWC"] * 3 + ["RWCT"] * 2 + ["R"] * 3 + ["W"] * 2 + ["WC"] * 2 + ["WCT"] * 2 + ["RWA"] * 2 +
                ["WCX", "RWCX", "WA", "WCA", "WCTA", "RC", "WT", "RWT", "RCT"])
NOOBS = {"present": False, "dir": {}, "mut": {}}


def entry(kind, c=b"", fid="", nw=False):
    return {"kind": kind, "c": list(c), "fid": fid, "nw": bool(nw)}


class SClient:
    """what SFTPUserHandler needs from the client"""
    convergence = b"sftp-handles-convergence"

    def __init__(self, g):
        self.g = g

    def create_node_from_uri(self, writecap, readcap=None):
        return self.g.nodemaker.create_from_cap(writecap, readcap)


class Hist:
    def __init__(self, rng, idx, workdir, profile):
        self.rng, self.idx, self.profile = rng, idx, profile
        sftpd._reload()
        self.threshold = rng.choice([1000, 4])
        sftpd.SIZE_THRESHOLD = self.threshold
        self.g = g = Grid(os.path.join(workdir, "h%d" % idx), num_servers=1, k=1, n=1, happy=1, seed=idx)
        run = g.run
        nm = g.nodemaker
        self.root = run(nm.create_new_mutable_directory())
        self.m = {"M1": run(nm.create_mutable_file(MutableData(b"mutable-one"), version=SDMF_VERSION)),
                  "M2": run(nm.create_mutable_file(MutableData(b"MDMF-two-xy"), version=MDMF_VERSION))}
        self.mut0 = {"M1": b"mutable-one", "M2": b"MDMF-two-xy"}
        self.fid_by_ro = {n.get_readonly_uri(): f for f, n in self.m.items()}
        self.imm_cache = {}
        # the read-only sub-directory
        rod = run(nm.create_new_mutable_directory())
        self.ro_i = bytes((40 + 3 * i) % 251 for i in range(70))
        inode = run(rod.add_file("i", upload.Data(self.ro_i, SClient.convergence)))
        run(rod.set_node("m", self.m["M1"]))
        run(self.root.set_node("ro", nm.create_from_cap(rod.get_readonly_uri())))
        self.ro = {"i": entry("imm", self.ro_i), "m": entry("mro", fid="M1")}
        self.uricaps = {"M1": self.m["M1"].get_uri(), "M1ro": self.m["M1"].get_readonly_uri(), "I": inode.get_uri(),
                        "D": rod.get_readonly_uri(), "U": UNKNOWN_CAP}
        self.uri = {"M1": entry("mut", fid="M1"), "M1ro": entry("mro", fid="M1"), "I": entry("imm", self.ro_i),
                    "D": entry("dir"), "U": entry("unk")}
        # the initial population of the root directory
        self.dir0 = {}
        kinds = ["none"] * 7 + ["lit"] * 5 + ["chk"] * 5 + ["nw"] * 2 + ["M1"] * 3 + ["M2"] * 2 + ["M2ro"] + ["dir"] * 2 + ["unk"]
        for i, n in enumerate(NAMES):
            k = rng.choice(kinds)
            if k == "none":
                self.dir0[n] = entry("none")
            elif k in ("lit", "chk", "nw"):
                data = bytes((17 * (i + 1) + 5 * j) % 251 for j in range(rng.choice([0, 3, 9]) if k != "chk" else rng.choice([56, 64, 90])))
                run(self.root.add_file(n, upload.Data(data, SClient.convergence), metadata={"no-write": True} if k == "nw" else None))
                self.dir0[n] = entry("imm", data, nw=(k == "nw"))
            elif k in ("M1", "M2"):
                run(self.root.set_node(n, self.m[k]))
                self.dir0[n] = entry("mut", fid=k)
            elif k == "M2ro":
                run(self.root.set_node(n, nm.create_from_cap(self.m["M2"].get_readonly_uri())))
                self.dir0[n] = entry("mro", fid="M2")
            elif k == "dir":
                run(self.root.create_subdirectory(n))
                self.dir0[n] = entry("dir")
            else:
                run(self.root.set_node(n, nm.create_from_cap(None, UNKNOWN_CAP)))
                self.dir0[n] = entry("unk")
        # overlapping requests: the parked storage calls are delivered in a seeded random order in half of the piped histories
        self.order = "fifo"
        if profile == "piped" and rng.random() < 0.5:
            self.order = "random"
            g.policy = random.Random(rng.getrandbits(32))
        self.handler = sftpd.SFTPUserHandler(SClient(g), self.root, "alice")
        self.events = []
        self.unanswered = []
        self.hs = {}            # handle id -> {"obj", "F", "closed", "name"}
        self.nh = 0
        self.hung = False
        self.kinds = {n: self.dir0[n]["kind"] for n in NAMES}      # as last read back (generation only)
        self.setup_calls = len(g.calllog)

    # ---- abstraction of answers -------------------------------------------------------------------
    def st_of(self, r):
        if isinstance(r, Failure):
            if r.check(ft.SFTPError):
                return CODES.get(r.value.code, "code%d" % r.value.code)
            return "exc:" + r.type.__name__
        return "ok"

    def attrs_of(self, a):
        perms = a.get("permissions", 0)
        if statmod.S_ISDIR(perms):
            return {"type": "dir", "size": -1, "w": False}
        if statmod.S_ISREG(perms):
            return {"type": "file", "size": int(a.get("size", -1)), "w": bool(perms & statmod.S_IWUSR)}
        return {"type": "unk", "size": -1, "w": False}

    # ---- the grid as it is (read back without SFTP) ----------------------------------------------
    def observe(self):
        g = self.g
        out = {"present": True, "dir": {}, "mut": {}}
        children = g.run(self.root.list())
        for n in NAMES:
            if n not in children:
                out["dir"][n] = entry("none")
                continue
            child, md = children[n]
            if IDirectoryNode.providedBy(child):
                out["dir"][n] = entry("dir")
            elif child.is_unknown():
                out["dir"][n] = entry("unk")
            elif child.is_mutable():
                fid = self.fid_by_ro.get(child.get_readonly_uri(), "?")
                out["dir"][n] = entry("mro" if child.is_readonly() else "mut", fid=fid)
            else:
                u = child.get_uri()
                if u not in self.imm_cache:
                    self.imm_cache[u] = g.run(download_to_data(child))
                out["dir"][n] = entry("imm", self.imm_cache[u], nw=md.get("no-write", False))
        for f, node in self.m.items():
            out["mut"][f] = list(g.run(node.download_best_version()))
        self.kinds = {n: out["dir"][n]["kind"] for n in NAMES}
        return out

    # ---- sending requests ----------------------------------------------------------------------
    def pathbytes(self, p):
        t, n = p["t"], p["n"]
        if t == "name":
            return n.encode()
        if t == "ro":
            return b"ro/" + n.encode()
        if t == "uri":
            return b"/uri/" + self.uricaps[n]
        if t == "nodir":
            return b"nodir/" + n.encode()
        return b""

    def send(self, ev, thunk, on_ok=None, shape=None):
        rec = dict(ev)
        rec["piped"] = bool(self.unanswered)
        rec["res"] = {}
        rec["obs"] = NOOBS
        self.events.append(rec)
        self.unanswered.append(rec)
        try:
            d = thunk()
        except Exception:
            d = defer.fail(Failure())

        def done(r):
            res = {"st": self.st_of(r)}
            if res["st"] == "ok" and not isinstance(r, Failure):
                if on_ok:
                    on_ok(r)
            if shape:
                shape(res, r)
            rec["res"] = res
            self.unanswered.remove(rec)
        d.addBoth(done)
        settle()
        return rec

    def wait(self, observe):
        """drive the grid until every request is answered (or nothing moves), then to quiescence"""
        g = self.g
        while self.unanswered:
            if not g.step(max_timer=1.0):
                break
        g.drain(max_timer=1.0)
        if self.unanswered:
            self.hung = True
            for rec in list(self.unanswered):
                rec["res"] = {"st": "hang", "data": [], "type": "", "size": -1, "w": False, "listing": {}}
            self.unanswered = []
            return
        if observe:
            self.events[-1]["obs"] = self.observe()

    def progress(self, k):
        for _ in range(k):
            if not self.g.pending:
                break
            c = self.g.choose()
            self.g.deliver(c[1], c[2])
            settle()

    # ---- the requests --------------------------------------------------------------------------
    def op_open(self, p, flags):
        self.nh += 1
        hid = "h%d" % self.nh
        bits = 0
        for f in flags:
            bits |= BITS[f]
        self.hs[hid] = {"obj": None, "F": set(flags), "closed": False, "name": p["n"] if p["t"] == "name" else None}

        def ok(f):
            self.hs[hid]["obj"] = f
        return self.send({"ev": "Open", "p": p, "F": sorted(flags), "h": hid},
                         lambda: self.handler.openFile(self.pathbytes(p), bits, {}), on_ok=ok)

    def op_read(self, hid, off, ln):
        def shape(res, r):
            res["data"] = list(r) if res["st"] == "ok" else []
        return self.send({"ev": "Read", "h": hid, "off": off, "len": ln}, lambda: self.hs[hid]["obj"].readChunk(off, ln), shape=shape)

    def op_write(self, hid, off, data):
        return self.send({"ev": "Write", "h": hid, "off": off, "data": list(data)}, lambda: self.hs[hid]["obj"].writeChunk(off, bytes(data)))

    def op_setsize(self, hid, n):
        return self.send({"ev": "SetSize", "h": hid, "n": n}, lambda: self.hs[hid]["obj"].setAttrs({"size": n}))

    def shape_attrs(self, res, r):
        res.update(self.attrs_of(r) if res["st"] == "ok" else {"type": "", "size": -1, "w": False})

    def op_fstat(self, hid):
        return self.send({"ev": "FStat", "h": hid}, lambda: self.hs[hid]["obj"].getAttrs(), shape=self.shape_attrs)

    def op_close(self, hid):
        self.hs[hid]["closed"] = True
        return self.send({"ev": "Close", "h": hid}, lambda: self.hs[hid]["obj"].close())

    def op_stat(self, p):
        return self.send({"ev": "Stat", "p": p}, lambda: self.handler.getAttrs(self.pathbytes(p), True), shape=self.shape_attrs)

    def op_opendir(self, p):
        def shape(res, r):
            res["listing"] = {}
            if res["st"] == "ok":
                for (name, longname, attrs) in r:
                    if name.decode() in NAMES:
                        res["listing"][name.decode()] = self.attrs_of(attrs)
        return self.send({"ev": "Opendir", "p": p}, lambda: self.handler.openDirectory(self.pathbytes(p)), shape=shape)

    def op_rename(self, p, p2, ow):
        a, b = self.pathbytes(p), self.pathbytes(p2)

        def moved(r):
            for h in self.hs.values():
                if h["name"] == p["n"] and p["t"] == "name" and p2["t"] == "name" and not h["closed"]:
                    h["name"] = p2["n"]
        if ow:
            ext = struct.pack(">L", len(a)) + a + struct.pack(">L", len(b)) + b
            return self.send({"ev": "Rename", "p": p, "p2": p2, "ow": True},
                             lambda: self.handler.extendedRequest(b"posix-rename@openssh.com", ext), on_ok=moved)
        return self.send({"ev": "Rename", "p": p, "p2": p2, "ow": False}, lambda: self.handler.renameFile(a, b), on_ok=moved)

    def op_remove(self, p):
        return self.send({"ev": "Remove", "p": p}, lambda: self.handler.removeFile(self.pathbytes(p)))

    def op_rmdir(self, p):
        return self.send({"ev": "Rmdir", "p": p}, lambda: self.handler.removeDirectory(self.pathbytes(p)))

    def op_mkdir(self, p):
        return self.send({"ev": "Mkdir", "p": p}, lambda: self.handler.makeDirectory(self.pathbytes(p), {}))

    # ---- generation ----------------------------------------------------------------------------
    def rand_path(self, for_open=False, plain=0.80):
        rng = self.rng
        if rng.random() < plain:
            return {"t": "name", "n": rng.choice(NAMES)}
        x = rng.random()
        if x < 0.4:
            return {"t": "ro", "n": rng.choice(["i", "m", "x"])}
        if x < 0.8:
            return {"t": "uri", "n": rng.choice(["M1", "M1ro", "I", "D", "U"] if for_open else ["M1", "M1ro", "I"])}
        if x < 0.9:
            return {"t": "nodir", "n": "x"}
        return {"t": "empty", "n": ""}

    def rand_flags(self, p):
        rng = self.rng
        if rng.random() < 0.85:
            fl = set(rng.choice(COMMON_FLAGS))
        else:
            fl = {f for f in "RWACTX" if rng.random() < 0.45}
        # FXF_CREAT without FXF_WRITE where no commit is possible: nothing says what should happen (see the Spec)
        if "C" in fl and "W" not in fl and (p["t"] in ("ro", "uri") or (p["t"] == "name" and self.kinds.get(p["n"]) == "mro")):
            fl.add("W")
        if "T" in fl and not fl & {"W", "C"}:
            fl.add("W")
        # generation only: lean towards opens that the last read-back of the directory suggests will be granted
        k = self.kinds.get(p["n"]) if p["t"] == "name" else None
        if k == "none" and "C" not in fl and rng.random() < 0.6:
            fl.add("C")
            fl.add("W")
        if k not in (None, "none") and "X" in fl and rng.random() < 0.6:
            fl.discard("X")
        return fl

    def likely_refused(self, rec):
        """generation only: an open that the last read-back of the directory suggests will be refused"""
        p, fl = rec["p"], set(rec["F"])
        k = self.kinds.get(p["n"]) if p["t"] == "name" else None
        return (not fl & {"R", "W"} or ("X" in fl and "C" not in fl) or k in ("dir", "unk") or (k == "none" and "C" not in fl)
                or (k != "none" and "X" in fl) or (k == "mro" and "W" in fl))

    def open_handles(self, writing=None):
        out = []
        for hid, h in self.hs.items():
            if h["obj"] is not None and not h["closed"]:
                if writing is None or bool(h["F"] & {"W"}) == writing:
                    out.append(hid)
        return out

    def rand_data(self, big=False):
        rng = self.rng
        n = rng.choice([60, 75]) if big else rng.choice([0, 1, 1, 2, 3, 4, 6])
        return [rng.randint(1, 250) for _ in range(n)]

    def pick(self, want=None):
        """a handle for a request: mostly an open one opened with flag `want`, sometimes any (closed, wrong mode)"""
        rng = self.rng
        known = [hid for hid, h in self.hs.items() if h["obj"] is not None]
        live = self.open_handles()
        good = [h for h in live if want is None or want in self.hs[h]["F"]]
        if good and rng.random() < 0.85:
            return rng.choice(good)
        if live and rng.random() < 0.5:
            return rng.choice(live)
        return rng.choice(known)

    def one_request(self):
        """send one randomly chosen request; returns (record, may_change, name it is about or None)"""
        rng = self.rng
        known = [hid for hid, h in self.hs.items() if h["obj"] is not None]
        live = self.open_handles()
        x = rng.random()
        if self.profile == "piped" and live and rng.random() < 0.15:
            x = 0.7                                   # more closes (and so more overlaps) in the piped profile
        if x < 0.20 or not known or (not live and x < 0.5):
            p = self.rand_path(for_open=True)
            fl = self.rand_flags(p)
            return self.op_open(p, fl), True, (p["n"] if p["t"] == "name" else None)
        if x < 0.40:
            # a commit of more than 55 bytes is a CHK upload (several round trips), less is a LIT cap (none): the piped
            # profile needs commits that are still on their way when the next request arrives
            big = rng.random() < (0.5 if self.profile == "piped" else 0.08)
            return self.op_write(self.pick("W"), rng.choice([0, 0, 1, 2, 3, 5, 8, 12]), self.rand_data(big=big)), False, None
        if x < 0.52:
            off, ln = rng.choice([(0, 1000), (0, 1000), (0, 1000), (rng.randint(0, 12), rng.randint(0, 8)), (rng.randint(0, 80), 1000)])
            return self.op_read(self.pick("R"), off, ln), False, None
        if x < 0.58:
            return self.op_setsize(self.pick("W"), rng.choice([0, 1, 2, 4, 7, 12, 20])), False, None
        if x < 0.62:
            return self.op_fstat(self.pick()), False, None
        if x < 0.74:
            hid = rng.choice(live or known)
            return self.op_close(hid), True, self.hs[hid]["name"]
        if x < 0.81:
            p = self.rand_path()
            return self.op_stat(p), False, None
        if x < 0.89:
            p, p2 = self.rand_path(), self.rand_path()
            if rng.random() < 0.9:
                p = {"t": "name", "n": rng.choice(NAMES)}
                p2 = {"t": "name", "n": rng.choice([n for n in NAMES if n != p["n"]] if rng.random() < 0.97 else NAMES)}
            return self.op_rename(p, p2, rng.random() < 0.45), True, None
        if x < 0.93:
            return self.op_remove(self.rand_path(plain=0.92)), True, None
        if x < 0.95:
            return self.op_rmdir(self.rand_path(plain=0.92)), True, None
        if x < 0.98:
            p = self.rand_path(plain=0.92)
            if p["t"] in ("uri", "nodir"):
                p = {"t": "name", "n": rng.choice(NAMES)}
            return self.op_mkdir(p), True, None
        p = self.rand_path()
        if p["t"] in ("uri",):
            p = {"t": "empty", "n": ""}
        return self.op_opendir(p), False, None

    def follow_up(self, name, after_close):
        """the second request of a documented overlap, about the same name"""
        rng = self.rng
        p = {"t": "name", "n": name}
        other = {"t": "name", "n": rng.choice([n for n in NAMES if n != name])}
        x = rng.random()
        if after_close:
            if x < 0.30:
                return self.op_open(p, self.rand_flags(p)), True
            if x < 0.50:
                return self.op_stat(p), False
            if x < 0.78:
                return self.op_rename(p, other, rng.random() < 0.5), True
            return self.op_remove(p), True
        if x < 0.6:
            return self.op_stat(p), False
        if x < 0.85:
            return self.op_rename(p, other, rng.random() < 0.5), True
        return self.op_remove(p), True

    # ---- scripted beginnings: each anchors one mechanism; the seeded walk continues from there ---------------
    def a_name(self, kinds):
        c = [n for n in NAMES if self.kinds[n] in kinds]
        return self.rng.choice(c) if c else None

    def opened(self, rec):
        return not self.hung and self.hs[rec["h"]]["obj"] is not None

    def tpl_written_handle(self, p, big_p=0.3):
        """open a path for writing and write through the handle; -> the Open record or None"""
        rng = self.rng
        k = self.kinds.get(p["n"]) if p["t"] == "name" else "mut"
        rec = self.op_open(p, set("RWC") if k == "none" else set(rng.choice(["RW", "W", "RWA", "RWC"])))
        self.wait(observe=True)
        if not self.opened(rec):
            return None
        self.op_write(rec["h"], rng.choice([0, 1, 3]), self.rand_data(big=rng.random() < big_p) or [7])
        self.wait(observe=False)
        return rec

    def template_reopen(self):
        """write a file, send its close and - before the close is answered - open the same name again, then read through
        the new handle ("if a file has been written, then closed, and is now being reopened, then we have to delay the open
        until the previous upload/publish has completed")"""
        rng = self.rng
        files = [n for n in NAMES if self.kinds[n] in ("imm", "mut")] or [n for n in NAMES if self.kinds[n] == "none"]
        muts = [n for n in files if self.kinds[n] == "mut"]
        if muts and rng.random() < 0.85:
            p = {"t": "name", "n": rng.choice(muts)}
        elif not files or (not muts and rng.random() < 0.5):
            p = {"t": "uri", "n": "M1"}                  # the mutable file by its write cap
        else:
            p = {"t": "name", "n": rng.choice(files)}
        rec = self.tpl_written_handle(p, big_p=0.5)
        if rec is None:
            return
        self.op_close(rec["h"])
        if self.unanswered:
            self.progress(rng.choice([0, 0, 0, 0, 1, 2, 4]))
        rec2 = self.op_open(p, set(rng.choice(["R", "R", "RW"])))
        self.wait(observe=True)
        if self.opened(rec2):
            self.op_read(rec2["h"], 0, 1000)
            self.wait(observe=False)

    def template_close_then(self):
        """a commit that is still on its way when a rename / remove / getAttrs of the name arrives"""
        rng = self.rng
        n = self.a_name(("imm", "none")) or self.a_name(("mut",))
        if n is None:
            return
        p = {"t": "name", "n": n}
        rec = self.tpl_written_handle(p, big_p=0.7)
        if rec is None:
            return
        self.op_close(rec["h"])
        if self.unanswered:
            self.progress(rng.choice([0, 0, 0, 1, 2, 4]))
        other = {"t": "name", "n": rng.choice([m for m in NAMES if m != n])}
        x = rng.random()
        if x < 0.4:
            self.op_remove(p)
        elif x < 0.8:
            self.op_rename(p, other, rng.random() < 0.5)
        else:
            self.op_stat(p)
        self.wait(observe=True)

    def template_open_then(self):
        """an open for writing that is still on its way when a getAttrs / rename / remove of the name arrives"""
        rng = self.rng
        n = self.a_name(("none", "imm", "mut"))
        if n is None:
            return
        p = {"t": "name", "n": n}
        self.op_open(p, set(rng.choice(["WC", "RWC", "WCT", "RWCT"])))
        if self.unanswered:
            self.progress(rng.choice([0, 0, 1, 2]))
        other = {"t": "name", "n": rng.choice([m for m in NAMES if m != n])}
        x = rng.random()
        if x < 0.4:
            self.op_stat(p)
        elif x < 0.75:
            self.op_rename(p, other, rng.random() < 0.5)
        else:
            self.op_remove(p)
        self.wait(observe=True)

    def template_unlink_or_move_open(self):
        """remove or rename a name while a handle written through is open, then close the handle: a removed file does not
        come back, a renamed one is committed at the new name and nothing reappears under the old one"""
        rng = self.rng
        n = self.a_name(("imm", "none", "mut"))
        if n is None:
            return
        p = {"t": "name", "n": n}
        rec = self.tpl_written_handle(p)
        if rec is None:
            return
        if rng.random() < 0.5:
            self.op_remove(p)
        else:
            self.op_rename(p, {"t": "name", "n": rng.choice([m for m in NAMES if m != n])}, rng.random() < 0.5)
        self.wait(observe=True)
        if self.hung:
            return
        if rng.random() < 0.5:
            self.op_stat(p)
            self.wait(observe=False)
        self.op_close(rec["h"])
        self.wait(observe=True)

    def template_eof(self):
        """reads at, before and past the end of the file as the handle reports it"""
        rng = self.rng
        n = self.a_name(("imm", "mut", "mro"))
        p = {"t": "name", "n": n} if n and rng.random() < 0.8 else rng.choice([{"t": "ro", "n": "i"}, {"t": "uri", "n": "I"}, {"t": "ro", "n": "m"}])
        rec = self.op_open(p, set(rng.choice(["R", "R", "RW"])) if p["t"] == "name" else {"R"})
        self.wait(observe=False)
        if not self.opened(rec):
            return
        st = self.op_fstat(rec["h"])
        self.wait(observe=False)
        size = st["res"].get("size", 0) if st["res"].get("st") == "ok" else 0
        for off in (size, max(size - 1, 0), size + 1):
            if self.hung:
                return
            self.op_read(rec["h"], off, rng.choice([1, 5, 1000]))
            self.wait(observe=False)

    def template(self):
        rng = self.rng
        if self.profile == "piped":
            t = rng.choice([self.template_reopen] * 4 + [self.template_close_then] * 3 + [self.template_open_then] * 2 +
                           [self.template_unlink_or_move_open])
        else:
            t = rng.choice([self.template_unlink_or_move_open] * 2 + [self.template_eof])
        t()

    def run(self, nreq):
        rng = self.rng
        if rng.random() < (0.8 if self.profile == "piped" else 0.5):
            self.template()
        while len(self.events) < nreq and not self.hung:
            rec, may_change, name = self.one_request()
            overlap = (self.profile == "piped" and name is not None and rng.random() < 0.6 and
                       ((rec["ev"] == "Open" and set(rec["F"]) & {"W", "C"}) or rec["ev"] == "Close"))
            if overlap and rec["ev"] == "Open" and self.likely_refused(rec) and rng.random() < 0.8:
                overlap = False      # a request that overlaps a refused open is never answered (see the notes): keep it rare
            if overlap and self.unanswered:
                self.progress(rng.choice([0, 0, 0, 1, 2, 4]))
                if self.unanswered:
                    rec2, ch2 = self.follow_up(name, rec["ev"] == "Close")
                    may_change = may_change or ch2
                    if rec2["ev"] == "Open" and "R" in rec2["F"]:
                        # what does a handle opened while the close was on its way read?
                        self.wait(observe=may_change)
                        if not self.hung and self.hs[rec2["h"]]["obj"] is not None:
                            self.op_read(rec2["h"], 0, 1000)
                            may_change = False
            self.wait(observe=may_change)
        if not self.hung and not self.events[-1]["obs"]["present"]:
            self.events[-1]["obs"] = self.observe()
        return self.trace()

    def trace(self):
        consts = {"names": NAMES, "handles": ["h%d" % i for i in range(1, self.nh + 1)] or ["h1"], "dir": self.dir0,
                  "mut": {f: list(c) for f, c in self.mut0.items()}, "ro": self.ro, "uri": self.uri,
                  "profile": self.profile, "order": self.order, "threshold": self.threshold, "sizerule": "contract", "tolerate": [], "idx": self.idx,
                  "hung": self.hung}
        return {"consts": consts, "events": self.events}

    def close(self):
        self.g.close()
        shutil.rmtree(self.g.basedir, ignore_errors=True)


def main():
    ap = argparse.ArgumentParser()
    ap.add_argument("--out")
    ap.add_argument("--seed", type=int, default=0)
    ap.add_argument("--tier", default="quick")
    ap.add_argument("--n", type=int, default=100)
    ap.add_argument("--events", type=int, default=14)
    ap.add_argument("--piped", type=float, default=0.5)
    a = ap.parse_args()
    sftpd.noisy = False
    workdir = tempfile.mkdtemp(prefix="sftph", dir=os.getcwd())
    rng = random.Random(1000003 * a.seed + 77)
    traces = []
    ncalls = 0
    for i in range(a.n):
        profile = "piped" if rng.random() < a.piped else "seq"
        h = Hist(random.Random(rng.getrandbits(48)), i, workdir, profile)
        traces.append(h.run(a.events + rng.choice([0, 0, 4, 10])))
        ncalls += len(h.g.calllog) - h.setup_calls
        h.close()
    shutil.rmtree(workdir, ignore_errors=True)
    json.dump({"traces": traces, "info": {"histories": len(traces), "storage_calls": ncalls}}, open(a.out, "w"))


if __name__ == "__main__":
    main()
