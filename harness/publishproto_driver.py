"""Driver for the extra `publish_protocol`: the mutable publisher as a protocol towards the storage servers.

One real mutable file (SDMF or MDMF, 6-byte segments) with several published versions on a SimGrid; the
shares are then laid out on the real storage servers (canonical placement, gaps, missing share numbers,
extra copies, stale shares of an older version, shares of a competing version with the same seqnum,
shares with a damaged signed prefix, more shares than servers, servers without upload permission), a real
ServermapUpdater surveys the grid (MODE_WRITE / MODE_CHECK, some servers failing), shares of the map may be
marked bad, and then ONE real operation of the write-cap holder runs:

    publish   MutableFileNode.upload(new_contents, servermap)            -> Publish.publish
    update    MutableFileVersion.update(data, offset)  (MDMF, in place)  -> Publish.update
    modify    MutableFileVersion.modify(modifier)   (retry loop on UncoordinatedWriteError)

Everything is observed from outside the publisher: the `slot_testv_and_readv_and_writev` calls parked on the
grid (test vectors, write vectors, secrets), their answers, the share files, the ServerMap through its public
methods, the result of the operation, a download by an independent node.  At the moment the publisher has
parked its requests (and before any of them is delivered) the driver may change the grid behind the
publisher's back (a competitor's share appears, a share vanishes, ...): the servermap is then out of date,
exactly the situation test-and-set writes exist for.  Requests are delivered in seeded random order, some
fail before execution ("raise", "disconnect") or are executed with the answer lost ("post").

Events (one trace per operation, judged by spec/mutable/TracePublishPlan.tla; this file computes no verdicts):
  Layout  L                          ground truth: server -> shnum -> checkstring code (0 = no share)
  Map     M bad reach                the servermap the publisher works from (public ServerMap methods)
  Send    goal[{s,sh,test,...}] ...  the publisher parked its requests
  Write   s sh fault wrote reads obs one request delivered
  Finish  res                        the operation's Deferred fired
  After   M placed L cls dl          servermap / share files / fresh download afterwards

A checkstring code is v + 100*x: v = version id (1.. in order of registration), x = 0 for the genuine
checkstring of v, x > 0 for a damaged copy of it (each damaged prefix has its own x).
"""
from vreactor import vr, settle  # noqa: F401  (must be first)
import argparse, hashlib, json, os, random, shutil, struct

import mutread_driver as md
from grid import Grid, GridBroker, Hang
from twisted.python.failure import Failure
from foolscap.api import DeadReferenceError
from allmydata import hashtree
from allmydata.util import hashutil
from allmydata.mutable.servermap import ServermapUpdater, ServerMap
from allmydata.interfaces import NotEnoughSharesError
from allmydata.mutable.common import (MODE_CHECK, MODE_WRITE, MODE_READ, UncoordinatedWriteError, NotEnoughServersError,
                                      UnrecoverableFileError)
from allmydata.mutable.publish import MutableData
from allmydata.monitor import Monitor

RTW = "slot_testv_and_readv_and_writev"
SEGSIZE = md.SEGSIZE


class RealOrderBroker(GridBroker):
    """StorageFarmBroker.get_servers_for_psi has for_upload=False by default (grid.GridBroker: True): the mutable
    publisher gets every connected server and filters with upload_permitted() itself."""
    def get_servers_for_psi(self, peer_selection_index, for_upload=False):
        return GridBroker.get_servers_for_psi(self, peer_selection_index, for_upload)


# --------------------------------------------------------------------------- share validation (abstraction of a share file)
def validate_share(raw, fmt, shnum, n):
    """True iff the blocks of the share hash up to the root hash of its own header (block hash tree, share hash
    chain): what a reader checks before it uses the share.  Pure function of the bytes (allmydata.hashtree only)."""
    try:
        f = md.fields(raw, fmt)
        roothash = raw[f["roothash"][0]:f["roothash"][1]]
        a, b = f["share_data"]
        sd = raw[a:b]
        segsize = int.from_bytes(raw[f["segsize"][0]:f["segsize"][1]], "big")
        datalen = int.from_bytes(raw[f["datalen"][0]:f["datalen"][1]], "big")
        k = raw[f["k"][0]]
        if b > len(raw) or f["bht"][1] > len(raw) or f["shc"][1] > len(raw):
            return False
        leaves = []
        if fmt == "SDMF":
            if datalen:
                leaves.append(hashutil.block_hash(sd))
            nseg = 1 if datalen else 0
        else:
            nseg = (datalen + segsize - 1) // segsize if segsize else 0
            bs = segsize // k
            tail = datalen % segsize if segsize else 0
            tbs = ((tail + k - 1) // k) if tail else bs
            pos = 0
            for i in range(nseg):
                ln = 16 + (tbs if i == nseg - 1 else bs)
                piece = sd[pos:pos + ln]
                if len(piece) != ln:
                    return False
                leaves.append(hashutil.block_hash(piece))
                pos += ln
            if pos != len(sd):
                return False
        a, b = f["bht"]
        stored = [raw[i:i + 32] for i in range(a, b, 32)]
        if nseg == 0:
            t = list(hashtree.HashTree([None] * 0)) if False else None
            # an empty file: the publisher hashes an empty leaf list; accept what is stored as the tree
            r = stored[0] if stored else None
            if r is None:
                return False
        else:
            t = hashtree.HashTree(leaves)
            if list(t) != stored:
                return False
            r = t[0]
        a, b = f["shc"]
        chain = {}
        for i in range(a, b, 34):
            (idx, h) = struct.unpack(">H32s", raw[i:i + 34])
            chain[idx] = h
        ht = hashtree.IncompleteHashTree(n)
        ht.set_hashes({0: roothash})
        ht.set_hashes(chain, leaves={shnum: r})
        return True
    except Exception:
        return False


# --------------------------------------------------------------------------- one scenario
class Scen:
    def __init__(self, g, rng, k, n, fmt, idx):
        self.g, self.rng, self.k, self.n, self.fmt, self.idx = g, rng, k, n, fmt, idx
        self.w = md.World(g, None, fmt, rng, k, n)
        self.keys = {}            # first 41 bytes of a stored share -> code
        self.nx = 0
        self.events = []
        self.newvers = {}         # code -> {"seq":..}
        self.attempt = 0
        self.seen_rtw = set()
        self.faults_used = 0
        self.comp = 0
        self.contents = {}
        self.next_content = None

    # ---- checkstring codes
    def register_versions(self):
        for i, v in enumerate(self.w.vers):
            sh0 = sorted(v["shares"])[0]
            self.keys.setdefault(bytes(v["shares"][sh0][:41]), i + 1)

    def code_of(self, raw, register_from=0):
        if not raw:
            return 0
        key = bytes(raw[:41])
        if key not in self.keys:
            if register_from:
                self.nx += 1
                self.keys[key] = register_from + 100 * self.nx
            else:
                return 9999
        return self.keys[key]

    def new_version_code(self, key41):
        """the version a publisher is writing: registered when its first request is seen"""
        key41 = bytes(key41)
        if key41 not in self.keys:
            vid = len(self.w.vers) + len(self.newvers) + 1
            self.keys[key41] = vid
            self.newvers[vid] = {"seq": struct.unpack(">Q", key41[1:9])[0], "rhkey": key41[9:41]}
        return self.keys[key41]

    def disk_codes(self, only=None):
        L = {}
        for sname in self.w.order:
            if only is not None and sname != only:
                continue
            row = {}
            for sh in range(self.n):
                raw = self.w.raw(sname, sh)
                if raw is not None:
                    row[str(sh)] = self.code_of(raw)
            L[sname] = row
        return L

    def ev_layout(self, why):
        self.events.append({"ev": "Layout", "L": self.disk_codes(), "why": why})

    # ---- the servermap through its public methods
    def snap_map(self, sm):
        M = {}
        for (server, shnum), (verinfo, ts) in sm.get_known_shares().items():
            prefix = verinfo[-2]
            M.setdefault(server.get_nickname(), {})[str(shnum)] = self.code_of(prefix)
        bad = []
        for (server, shnum), cs in sm.get_bad_shares().items():
            bad.append({"s": server.get_nickname(), "sh": str(shnum), "cs": self.code_of(cs), "len": len(cs)})
        best = sm.best_recoverable_version()
        return {"M": M, "bad": sorted(bad, key=lambda b: (b["s"], b["sh"])),
                "reach": sorted(s.get_nickname() for s in sm.get_reachable_servers()),
                "best": self.code_of(best[-2]) if best else 0, "hiseq": sm.highest_seqnum()}

    # ---- abstraction of a request
    def abstract_test(self, sname, shnum, testv):
        testv = list(testv)
        if len(testv) != 1:
            return {"kind": "none" if not testv else "other", "c": 0}
        t = testv[0]
        off, ln, spec = t[0], t[1], t[-1]
        op = t[2] if len(t) == 4 else "eq"
        if op not in ("eq", b"eq"):
            return {"kind": "other", "c": 0}
        if off == 0 and spec == b"" and ln >= 1:
            return {"kind": "absent", "c": 0}
        if off == 0 and ln == len(spec) and ln >= 41:
            want = 41 if self.fmt == "MDMF" else 57
            return {"kind": "eq", "c": self.code_of(spec), "len": ln, "short": ln < want}
        return {"kind": "other", "c": 0}

    def expected_secrets(self, node, srv):
        si = node.get_storage_index()
        we = hashutil.ssk_write_enabler_hash(node.get_writekey(), srv.get_foolscap_write_enabler_seed())
        sh = self.g.client._secret_holder
        frs = hashutil.file_renewal_secret_hash(sh.get_renewal_secret(), si)
        fcs = hashutil.file_cancel_secret_hash(sh.get_cancel_secret(), si)
        return (we, hashutil.bucket_renewal_secret_hash(frs, srv.get_lease_seed()),
                hashutil.bucket_cancel_secret_hash(fcs, srv.get_lease_seed()))

    def on_send(self, node, sm, new_rtws):
        """the publisher has just parked its requests"""
        self.attempt += 1
        self.ev_layout("at_send")
        m = self.snap_map(sm)
        m["ev"] = "Map"
        m["att"] = self.attempt
        self.last_update_at_send = sm.get_last_update()
        self.events.append(m)
        reqs = []
        newv = 0
        conflict = False
        for p in new_rtws:
            (si, secrets, tw, rv) = p.args
            srv = self.g.servers[p.server]
            exp = self.expected_secrets(node, srv)
            for shnum, (testv, datav, newlen) in tw.items():
                key41 = None
                for (off, data) in datav:
                    if off == 0 and len(data) >= 41:
                        key41 = data[:41]
                c = self.new_version_code(key41) if key41 is not None else 0
                if newv == 0:
                    newv = c
                elif c != newv:
                    conflict = True
                reqs.append({"s": p.server, "sh": str(shnum), "test": self.abstract_test(p.server, shnum, testv),
                             "newc": c, "we_ok": bytes(secrets[0]) == exp[0],
                             "lease_ok": (bytes(secrets[1]), bytes(secrets[2])) == exp[1:],
                             "si_ok": si == node.get_storage_index(), "nshares": len(tw),
                             "whole": any(off == 0 for (off, d) in datav),
                             "nvec": len(datav), "newlen": -1 if newlen is None else newlen})
        reqs.sort(key=lambda r: (r["s"], int(r["sh"])))
        if newv and self.next_content is not None:
            lst = self.contents.setdefault(bytes(self.next_content), [])
            if newv not in lst:
                lst.append(newv)
        self.events.append({"ev": "Send", "att": self.attempt, "reqs": reqs, "newc": newv, "conflict": conflict,
                            "newseq": self.newvers.get(newv, {}).get("seq", 0)})

    # ---- interference: somebody else changes the grid between the survey and the writes
    def interfere(self, kinds):
        w, rng = self.w, self.rng
        done = []
        for kind in kinds:
            slots = sorted(w.disk().keys())
            if kind == "comp_replace" and slots and self.comp:
                (s, sh) = rng.choice(slots)
                w.put(s, sh, self.comp, how="interf")
                done.append([kind, s, sh])
            elif kind == "old_replace" and slots:
                (s, sh) = rng.choice(slots)
                w.put(s, sh, 1, how="interf")
                done.append([kind, s, sh])
            elif kind == "vanish" and slots:
                (s, sh) = rng.choice(slots)
                w.delete(s, sh)
                done.append([kind, s, sh])
            elif kind == "appear":
                s = rng.choice(w.order)
                sh = rng.randrange(self.n)
                v = rng.choice([1, 2] + ([self.comp] if self.comp else []))
                if w.raw(s, sh) is None:
                    w.put(s, sh, v, how="interf")
                    done.append([kind, s, sh])
        if done:
            self.events.append({"ev": "Interfere", "what": done})
            self.ev_layout("interfered")
        return done

    # ---- running the operation
    def classify(self, r):
        if not isinstance(r, Failure):
            return "ok"
        for cls, name in ((UncoordinatedWriteError, "UCWE"), (NotEnoughServersError, "NotEnough"),
                          (UnrecoverableFileError, "Unrecoverable"), (NotEnoughSharesError, "NotEnoughShares")):
            if r.check(cls):
                return name
        return "other:" + r.type.__name__

    def drive(self, node, sm, d, plan):
        """plan: dict(pfault, dead, interf=[kinds], order='random'|'fifo', interf_at=attempt)"""
        g, rng = self.g, self.rng
        out = []
        d.addBoth(out.append)
        steps = 0
        while not out:
            settle()
            if out:
                break
            fresh = [p for p in g.pending if p.methname == RTW and p.seq not in self.seen_rtw]
            if fresh:
                for p in fresh:
                    self.seen_rtw.add(p.seq)
                self.on_send(node, sm, fresh)
                if plan.get("interf") and self.attempt == plan.get("interf_at", 1):
                    self.interfere(plan["interf"])
            if not g.pending:
                nt = vr.next_timer()
                if nt is None or nt > 7200:
                    self.events.append({"ev": "Finish", "res": "hang", "detail": "quiescent", "att": self.attempt})
                    return "hang"
                vr.advance(nt)
                continue
            steps += 1
            if steps > 6000:
                self.events.append({"ev": "Finish", "res": "hang", "detail": "no end", "att": self.attempt})
                g.pending = []
                return "hang"
            i = rng.randrange(len(g.pending)) if plan.get("order") == "random" else 0
            p = g.pending[i]
            if p.methname != RTW:
                fault = None
                if p.methname == "slot_readv" and p.server in plan.get("dead", ()):
                    fault = "raise"
                g.deliver(i, fault)
                continue
            self.deliver_write(i, p, plan)
        settle()
        r = out[0]
        res = self.classify(r)
        ev = {"ev": "Finish", "res": res, "att": self.attempt}
        if isinstance(r, Failure):
            ev["detail"] = (r.getErrorMessage() or "")[:200]
        if isinstance(r, Failure) and res.startswith("other"):
            tb = r.getTraceback().strip().splitlines()
            ev["where"] = [l.strip() for l in tb if "allmydata" in l][-2:]
        self.events.append(ev)
        try:
            g.policy = "fifo"
            g.drain(max_steps=5000)
        except Exception:
            g.pending = []
        return res

    def deliver_write(self, i, p, plan):
        g, rng = self.g, self.rng
        (si, secrets, tw, rv) = p.args
        fault = ""
        if p.server in plan.get("dead", ()):
            fault = rng.choice(["raise", "disconnect"])
        elif plan.get("pfault", 0) and rng.random() < plan["pfault"]:
            fault = rng.choice(["raise", "disconnect", "post"])
        shnums = sorted(tw.keys())
        ev = {"ev": "Write", "att": self.attempt, "s": p.server, "sh": str(shnums[0]), "fault": fault, "wrote": False,
              "reads": {}}
        if fault == "post":
            g.pending.pop(i)
            try:
                res = p.ref.original.remote_slot_testv_and_readv_and_writev(*p.args, **p.kwargs)
                ev["wrote"] = bool(res[0])
                ev["reads"] = {str(sh): self.code_of(dv[0]) for sh, dv in res[1].items()}
            except Exception as ex:
                ev["fault"] = "raise"
                ev["exc"] = type(ex).__name__
            ev["obs"] = self.disk_codes(p.server)[p.server]
            self.events.append(ev)
            p.ref.fire_disconnect()
            p.d.errback(Failure(DeadReferenceError("connection lost after the request was executed (injected)")))
            return
        e = g.deliver(i, fault or None)
        if not fault:
            if e["outcome"] == "ok":
                ev["wrote"] = bool(e["result"][0])
                ev["reads"] = {str(sh): self.code_of(dv[0]) for sh, dv in e["result"][1].items()}
            else:
                ev["fault"] = "raise"
                ev["exc"] = e["outcome"]
        ev["obs"] = self.disk_codes(p.server)[p.server]
        self.events.append(ev)

    def after(self, sm):
        """servermap, share files (with validity) and a fresh download after the operation"""
        w = self.w
        m = self.snap_map(sm)
        L = self.disk_codes()
        cls = {}
        for sname, row in L.items():
            for sh in row:
                raw = w.raw(sname, int(sh))
                cls.setdefault(sname, {})[sh] = "intact" if validate_share(raw, self.fmt, int(sh), self.n) else "bodybad"
        # which known content does an independent reader get (0: error, -1: unknown bytes)
        dl, dl_detail = [], ""
        try:
            self.g.policy = "fifo"
            # an independent reader that looks at every server (a MODE_READ survey may stop at the first k shares it meets,
            # which is the subject of C11, not of the publisher)
            rd = w.fresh_node("ro")
            st, sm2 = w.run(rd.get_servermap(MODE_CHECK))
            if st == "ok":
                # download_version() accepts a map only if it was last updated in MODE_READ: refresh the complete map in that mode
                st, sm2 = w.run(ServermapUpdater(rd, self.g.broker, Monitor(), sm2, MODE_READ).update())
            best = sm2.best_recoverable_version() if st == "ok" else None
            if st == "ok" and best is not None:
                st, data = w.run(rd.download_version(sm2, best))
                if st == "ok":
                    dl = list(self.contents.get(bytes(data), [-1]))
                else:
                    dl_detail = str(data)[:80]
            else:
                dl_detail = "no recoverable version" if st == "ok" else str(sm2)[:80]
        except Exception as ex:
            dl_detail = type(ex).__name__
        self.events.append({"ev": "After", "M": m["M"], "bad": m["bad"], "best": m["best"], "L": L, "cls": cls, "dl": dl,
                            "dl_detail": dl_detail,
                            "mapmoved": sm.get_last_update() != getattr(self, "last_update_at_send", None)})

    def trace(self, consts):
        vers = []
        rk = self.w.ranks()
        for v in self.w.vers:
            vers.append({"seq": v["seq"], "rh": rk[v["roothash"]]})
        for vid in sorted(self.newvers):
            vers.append({"seq": self.newvers[vid]["seq"], "rh": 0})
        c = {"K": self.k, "N": self.n, "servers": list(self.w.order), "fmt": self.fmt, "vers": vers, "idx": self.idx}
        c.update(consts)
        return {"consts": c, "events": self.events}


# --------------------------------------------------------------------------- layouts
def lay_out(sc, pattern):
    """shares of version 2 (the newest) in canonical placement, then the pattern's edits"""
    w, rng = sc.w, sc.rng
    order, n = w.order, sc.n
    ns = len(order)
    w.wipe()
    newest, older, comp = 2, 1, sc.comp
    for sh in range(n):
        w.put(order[sh % ns], sh, newest, how="front")
    slots = lambda: sorted(w.lay.keys())
    def corrupt(s, sh):
        ent = w.lay[(s, sh)]
        t = md.tampered(w, ent["v"], sh, ["seq", "roothash"], rng)
        if t:
            w.put(s, sh, ent["v"], "prefixbad", t[0], "bad:" + t[2])
            sc.code_of(t[0], register_from=ent["v"])
    if pattern in ("front", "hidden"):
        pass
    elif pattern == "missing":
        for (s, sh) in rng.sample(slots(), rng.randint(1, max(1, n - sc.k))):
            w.delete(s, sh)
    elif pattern == "dup":
        for _ in range(rng.randint(1, 2)):
            s = rng.choice(order)
            sh = rng.randrange(n)
            if (s, sh) not in w.lay:
                w.put(s, sh, rng.choice([newest, newest, older]), how="dup")
    elif pattern == "stale":
        for (s, sh) in rng.sample(slots(), rng.randint(1, max(1, n - sc.k))):
            w.put(s, sh, older, how="stale")
    elif pattern == "newer":
        # the older version everywhere, fewer than k shares of the newest: the best recoverable version is not the
        # one with the highest seqnum
        for (s, sh) in slots():
            w.put(s, sh, older, how="newer_old")
        for (s, sh) in rng.sample(slots(), max(1, sc.k - 1))[:max(0, sc.k - 1)]:
            w.put(s, sh, newest, how="newer_new")
        if sc.k == 1:
            # k = 1: every share is recoverable; use a damaged share of the newest version instead
            (s, sh) = rng.choice(slots())
            w.put(s, sh, newest, how="newer_new")
            corrupt(s, sh)
    elif pattern == "comp" and comp:
        for (s, sh) in rng.sample(slots(), rng.randint(1, max(1, n - sc.k))):
            w.put(s, sh, comp, how="comp")
    elif pattern == "bad":
        for (s, sh) in rng.sample(slots(), rng.randint(1, max(1, n - sc.k))):
            corrupt(s, sh)
    elif pattern == "beyond":
        # a share far back in the permuted list (a MODE_WRITE survey may stop before it)
        s = order[-1]
        sh = rng.randrange(n)
        w.put(s, sh, rng.choice([newest, older]), how="beyond")
        if rng.random() < 0.5:
            for (s2, sh2) in [x for x in slots() if x[1] == sh and x[0] != s]:
                w.delete(s2, sh2)
    elif pattern == "gaps":
        w.wipe()
        pos = sorted(rng.sample(range(ns), min(ns, n)))
        for sh, p in enumerate(pos):
            w.put(order[p], sh % n, newest, how="gaps")
    else:   # random edits
        for _ in range(rng.randint(1, 4)):
            kind = rng.choice(["del", "dup", "stale", "comp", "bad", "move"])
            sl = slots()
            if kind == "del" and len(sl) > sc.k:
                w.delete(*rng.choice(sl))
            elif kind == "dup":
                s, sh = rng.choice(order), rng.randrange(n)
                if (s, sh) not in w.lay:
                    w.put(s, sh, rng.choice([newest, older]), how="dup")
            elif kind == "stale" and sl:
                s, sh = rng.choice(sl)
                w.put(s, sh, older, how="stale")
            elif kind == "comp" and comp and sl:
                s, sh = rng.choice(sl)
                w.put(s, sh, comp, how="comp")
            elif kind == "bad" and sl:
                s, sh = rng.choice(sl)
                if w.lay[(s, sh)]["cls"] == "intact":
                    corrupt(s, sh)
            elif kind == "move" and sl:
                s, sh = rng.choice(sl)
                v = w.lay[(s, sh)]["v"]
                if w.lay[(s, sh)]["cls"] == "intact":
                    w.delete(s, sh)
                    s2 = rng.choice(order)
                    if (s2, sh) not in w.lay:
                        w.put(s2, sh, v, how="moved")


PATTERNS = ["front", "front", "missing", "missing", "dup", "stale", "stale", "newer", "newer", "comp", "bad", "bad", "beyond", "gaps",
            "random", "random", "random"]


def scenario(g, rng, idx, k, n, thorough):
    op = rng.choice(["publish"] * 6 + ["update"] * 2 + ["modify"] * 2)
    # update(): in place for MDMF, by re-encoding the whole file (the modify() loop) for SDMF
    fmt = rng.choice(["MDMF", "MDMF", "SDMF"]) if op == "update" else rng.choice(["SDMF", "MDMF"])
    sc = Scen(g, rng, k, n, fmt, idx)
    w = sc.w
    ln = rng.randint(13, 30) if fmt == "MDMF" else rng.randint(2, 24)
    if op == "update" and ln % SEGSIZE == 0:
        ln += 1
    c1 = w.new_content(ln, ln)
    w.create(c1)
    c2 = w.new_content(ln, ln)
    w.publish_all_up(c2)
    sc.comp = 0
    if rng.random() < 0.45:
        # a competitor that only saw version 1 publishes another version with the seqnum of version 2
        w.wipe()
        for sh in range(n):
            w.put(w.order[sh % len(w.order)], sh, 1, how="for_competitor")
        c = w.new_content(ln, ln)
        st, r = w.run(w.fresh_node("rw").overwrite(MutableData(c)))
        if st == "ok":
            sc.comp = w.register_published(c)
        w.wipe()
    sc.register_versions()
    contents = {}
    for i, v in enumerate(w.vers):
        contents.setdefault(bytes(v["content"]), []).append(i + 1)
    pattern = rng.choice(PATTERNS)
    if pattern == "comp" and not sc.comp:
        pattern = "stale"
    if op != "publish" and rng.random() < 0.15:
        pattern = "hidden"
    lay_out(sc, pattern)
    # upload permission (grid manager certificates)
    unperm = []
    if rng.random() < (0.5 if pattern == "missing" else 0.25):
        unperm = [s for s in w.order if rng.random() < 0.3]
        if len(unperm) == len(w.order) and rng.random() < 0.7:
            unperm = unperm[1:]
    for s in g.servers:
        g.servers[s].permitted = s not in unperm
    plan = {"pfault": rng.choice([0, 0, 0, 0.15, 0.3]), "dead": [], "order": rng.choice(["random", "fifo"]), "interf": [],
            "interf_at": 1}
    if rng.random() < 0.2:
        plan["dead"] = [s for s in w.order if rng.random() < 0.2]
    if rng.random() < 0.4:
        kinds = ["comp_replace", "comp_replace", "old_replace", "vanish", "appear", "appear"]
        plan["interf"] = [rng.choice(kinds) for _ in range(rng.choice([1, 1, 2]))]
    if op == "modify":
        # the retry loop re-surveys the grid; a share that vanished is the subject of a finding of the servermap extra
        plan["interf"] = [x for x in plan["interf"] if x != "vanish"]
        plan["dead"] = []
    node = w.fresh_node("rw")
    sm = ServerMap()
    survey_failing = {s: "raise" for s in w.order if s in plan["dead"]}
    if rng.random() < 0.15 and not plan["dead"]:
        survey_failing = {s: "raise" for s in w.order if rng.random() < 0.2}
    if pattern == "hidden":
        # a copy of one share of the newest version sits on a server that does not answer the first survey (it answers
        # later); somebody else replaces a share behind the writer's back: the retry loop meets the old version again
        empty = [s for s in w.order if not any(k[0] == s for k in w.lay)] or [w.order[-1]]
        hid = rng.choice(empty)
        sh = rng.randrange(n)
        if (hid, sh) not in w.lay:
            w.put(hid, sh, 2, how="hidden")
        survey_failing = {hid: "raise"}
        plan.update({"pfault": 0, "dead": [], "interf": [rng.choice(["old_replace", "comp_replace"])]})
    # update() / modify() take the map only if it was last updated in MODE_WRITE (else they survey again into a map of
    # their own, which this driver could not observe)
    mode = MODE_CHECK if (rng.random() < 0.2 and op == "publish") else MODE_WRITE
    u = ServermapUpdater(node, g.broker, Monitor(), sm, mode)

    def pol(grid):
        if not grid.pending:
            return ("timer",)
        p = grid.pending[0]
        if p.methname == "slot_readv" and p.server in survey_failing:
            return ("call", 0, survey_failing[p.server])
        return ("call", 0, None)
    g.policy = pol
    if mode == MODE_CHECK:
        # a MODE_CHECK survey asks everybody but does not fetch the private key: survey for writing first
        st, r = w.run(ServermapUpdater(node, g.broker, Monitor(), sm, MODE_WRITE).update())
        g.policy = pol
    st, r = w.run(u.update())
    g.policy = "fifo"
    consts = {"op": op, "pattern": pattern, "unperm": unperm, "perm": [s for s in w.order if s not in unperm],
              "surveymode": "CHECK" if mode == MODE_CHECK else "WRITE", "comp": sc.comp,
              "plan": {"pfault": plan["pfault"], "dead": plan["dead"], "interf": plan["interf"], "order": plan["order"]},
              "base": 0, "markbad": []}
    if st != "ok":
        sc.events.append({"ev": "SetupFailed", "detail": "survey: %s" % r})
        return sc.trace(consts)
    # the caller marks shares bad, as Retrieve does when a share fails validation (checkstring = the version's prefix)
    if op == "publish" and rng.random() < 0.2:
        known = sorted(((s.get_nickname(), sh) for (s, sh) in sm.get_known_shares()), key=str)
        for (sname, sh) in rng.sample(known, min(len(known), rng.choice([1, 1, 2]))):
            srv = g.servers[sname]
            verinfo = sm.get_known_shares()[(srv, sh)][0]
            sm.mark_bad_share(srv, sh, verinfo[-2])
            consts["markbad"].append([sname, sh])
    if not sm.recoverable_versions() and op != "publish":
        op = consts["op"] = "publish"
    if node.get_pubkey() is None or node.get_privkey() is None:
        # the survey met no usable share: the node has no keys, upload() is not applicable
        sc.events.append({"ev": "Skip", "why": "survey found no keys"})
        return sc.trace(consts)
    sc.contents = contents            # bytes -> list of version codes with these contents
    sc.ev_layout("start")
    newc = w.new_content(ln, ln)
    if op == "publish":
        sc.next_content = newc
        d = node.upload(MutableData(newc), sm)
    else:
        st, mfv = w.run(node.get_best_mutable_version(servermap=sm))
        if st != "ok":
            sc.events.append({"ev": "Skip", "why": "get_best_mutable_version: %s" % mfv})
            return sc.trace(consts)
        seq, rh = mfv.get_sequence_number(), None
        base, basedata = 0, None
        best = sm.best_recoverable_version()
        if best is not None:
            base = sc.code_of(best[-2])
        if 1 <= base <= len(w.vers):
            basedata = w.vers[base - 1]["content"]
        consts["base"] = base
        if basedata is None or w.vers[base - 1]["seq"] != seq:
            sc.events.append({"ev": "Skip", "why": "base version not identified"})
            return sc.trace(consts)
        if op == "update":
            off = rng.randrange(0, max(1, len(basedata) - 1))
            piece = bytes(rng.randrange(256) for _ in range(rng.randint(1, 7)))
            consts["update"] = {"off": off, "len": len(piece)}
            sc.next_content = basedata[:off] + piece + basedata[off + len(piece):]
            d = mfv.update(MutableData(piece), off)
        else:
            tag = bytes(rng.randrange(256) for _ in range(4))

            def modifier(old, servermap, first_time, tag=tag):
                old = bytes(old)
                sc.events.append({"ev": "Modifier", "first": bool(first_time), "oldc": list(sc.contents.get(old, []))})
                # what this attempt is going to publish (registered when its requests are seen)
                sc.next_content = old if old.endswith(tag) else old + tag
                return sc.next_content
            consts["modify"] = {"taglen": 4}
            d = mfv.modify(modifier)
    try:
        res = sc.drive(node, sm, d, plan)
    except Exception as ex:
        sc.events.append({"ev": "Finish", "res": "other:driver:" + type(ex).__name__, "detail": str(ex)[:200], "att": sc.attempt})
        res = "crash"
        g.pending = []
    for s in g.servers:
        g.servers[s].permitted = True
    sc.after(sm)
    return sc.trace(consts)


# (k, N, servers)
ENCODINGS_QUICK = [(2, 3, 5), (2, 4, 6), (1, 2, 4), (2, 4, 3), (2, 3, 10), (1, 2, 2), (2, 4, 12), (2, 3, 3)]
ENCODINGS = ENCODINGS_QUICK + [(3, 5, 7), (1, 3, 4), (3, 6, 4), (2, 5, 8), (1, 4, 6), (3, 10, 12), (4, 6, 6)]


def main():
    ap = argparse.ArgumentParser()
    ap.add_argument("--out")
    ap.add_argument("--seed", type=int, default=0)
    ap.add_argument("--tier", default="quick")
    ap.add_argument("--in", dest="inp")
    ap.add_argument("--n", type=int, default=60)
    a = ap.parse_args()
    md.pubmod.DEFAULT_MUTABLE_MAX_SEGMENT_SIZE = SEGSIZE
    thorough = a.tier != "quick"
    rng0 = random.Random("publishproto-%d" % a.seed)
    work = os.path.join(os.getcwd(), "publishproto_%d" % os.getpid())
    traces = []
    grids = {}
    encs = ENCODINGS if thorough else ENCODINGS_QUICK
    for i in range(a.n):
        rng = random.Random(rng0.randrange(10 ** 9))
        enc = encs[i % len(encs)]
        if enc not in grids:
            k, n, ns = enc
            g = Grid(os.path.join(work, "g%d_%d_%d" % enc), num_servers=ns, k=k, n=n, happy=1, seed=a.seed)
            g.broker = RealOrderBroker(g)
            g.nodemaker = g.make_nodemaker()
            g.log_calls = False
            grids[enc] = g
        g = grids[enc]
        g.keypool.i = rng.randrange(len(g.keypool.ders))
        g.removed = set()
        g.policy = "fifo"
        g.pending = []
        try:
            tr = scenario(g, rng, i, enc[0], enc[1], thorough)
        except AssertionError as ex:
            tr = {"consts": {"K": enc[0], "N": enc[1], "servers": sorted(g.servers), "fmt": "-", "vers": [], "idx": i, "op": "-",
                             "pattern": "-", "unperm": [], "perm": sorted(g.servers), "surveymode": "-", "comp": 0,
                             "plan": {}, "base": 0, "markbad": []},
                  "events": [{"ev": "SetupFailed", "detail": "assert %s" % str(ex)[:200]}]}
        traces.append(tr)
        for sname in g.servers:
            sd = g.servers[sname].ss.sharedir
            for pfx in os.listdir(sd):
                if pfx != "incoming":
                    shutil.rmtree(os.path.join(sd, pfx), ignore_errors=True)
            g.servers[sname].rref.connected = True
            g.servers[sname].permitted = True
        g.pending = []
        for c in list(vr.getDelayedCalls()):
            try:
                c.cancel()
            except Exception:
                pass
    for g in grids.values():
        g.close()
    shutil.rmtree(work, ignore_errors=True)
    with open(a.out, "w") as f:
        json.dump(traces, f)


if __name__ == "__main__":
    main()
