"""Driver of real tahoe-lafs directories (allmydata.dirnode / nodemaker / unknown / deep_stats) on SimGrid.

  --mode c20   histories of set_node / set_nodes / delete / set_metadata_for / move_child_to on real
               mutable directories with time pinned; output = traces for spec/dir/TraceDirnode.tla
  --mode c19cases  every GenDirPack case through create_from_cap / pack_children / _unpack_contents (C19, C18)
  --mode c19dirs   real directories of 0-50 children assembled from accepted cases (C19, C18)
  --mode c18trees  trees of real directories walked through write-cap and read-cap; traces for TraceDirTree.tla
  --mode c21       real directory graphs, build_manifest / start_deep_stats; traces for TraceDeepTraverse.tla

The driver never decides a verdict: it executes the calls, abstracts nodes / names / metadata to the
Spec's vocabulary through fixed tables, and records what the code answered.
"""
from vreactor import vr, settle  # noqa: F401  (must be first)
import argparse, copy, json, os, random, shutil, sys, unicodedata

from grid import Grid
import allmydata.dirnode as dirnode_mod
from allmydata import uri as uri_mod
from allmydata.dirnode import ONLY_FILES, pack_children
from allmydata.mutable.publish import MutableData
from allmydata.util import hashutil


class PinnedClock:
    """stands for the `time` module inside allmydata.dirnode"""
    now = 0

    def time(self):
        return self.now


CLK = PinnedClock()
dirnode_mod.time = CLK

# ---------------------------------------------------------------- vocabulary shared with Dirnode.tla
NAMES = {"a": "a", "b": "b", "e1": "\u00e9", "e2": "e\u0301", "k1": "K", "k2": "\u212a"}
NAME_BACK = {v: k for k, v in NAMES.items()}
for _k in ("e2", "k2"):
    assert unicodedata.normalize("NFC", NAMES[_k]) == NAMES[_k[0] + "1"]

MDS = {"m0": {}, "m1": {"k": 1}, "m2": {"k": 2}, "nw": {"no-write": True}, "ct": {"ctime": 7},
       "mt": {"k": 1, "tahoe": {"linkcrtime": 1, "linkmotime": 1}}}


def md_concrete(m):
    return None if m == "keep" else copy.deepcopy(MDS[m])


def md_abstract(md):
    """metadata dict -> (user value name, hasT, crt, mot)"""
    user = {k: v for k, v in md.items() if k != "tahoe"}
    name = None
    for k, v in MDS.items():
        if k != "mt" and v == user:
            name = k
    if name is None:
        name = "?" + json.dumps(user, sort_keys=True)
    t = md.get("tahoe")
    if t is None:
        return name, False, 0, 0
    if not (isinstance(t, dict) and set(t.keys()) == {"linkcrtime", "linkmotime"}
            and all(isinstance(x, int) for x in t.values())):
        return name + "?tahoe=" + json.dumps(t, sort_keys=True), True, 0, 0
    return name, True, t["linkcrtime"], t["linkmotime"]


def fake_key(tag, n=16):
    return hashutil.tagged_hash(b"verif-dir-driver", tag)[:n]


class World:
    """One fresh grid with the directories of a scenario and the table of children."""
    def __init__(self, workdir, dirs, seed=0, mdmf_dirs=()):
        from allmydata.interfaces import MDMF_VERSION
        self.g = Grid(workdir, num_servers=1, k=1, n=1, happy=1, seed=seed)
        self.nm = self.g.nodemaker
        self.caps = {}       # child id -> (type, rw, ro)
        self.rw = {}
        self.ro = {}
        for d in dirs:
            node = self.g.run(self.nm.create_new_mutable_directory(version=MDMF_VERSION if d in mdmf_dirs else None))
            self.rw[d] = node
            self.ro[d] = self.nm.create_from_cap(node.get_readonly_uri())
            self.caps[d] = ("dir", node.get_uri(), node.get_readonly_uri())
        self.caps["f1"] = ("file", None, b"URI:LIT:krugkidfnzsc4")
        self.caps["f2"] = ("file", None, uri_mod.CHKFileURI(fake_key(b"k"), fake_key(b"u", 32), 3, 10, 1234).to_string())
        w = uri_mod.WriteableSSKFileURI(fake_key(b"wk"), fake_key(b"fp", 32))
        self.caps["g1"] = ("file", w.to_string(), w.get_readonly().to_string())
        w = uri_mod.WriteableMDMFFileURI(fake_key(b"wk2"), fake_key(b"fp2", 32))
        self.caps["g2"] = ("file", w.to_string(), w.get_readonly().to_string())
        self.caps["u1"] = ("unknown", b"x-tahoe-future-cap:rw1", b"ro.x-tahoe-future-cap:ro1")
        self.back = {}
        for cid, (typ, rw, ro) in self.caps.items():
            if rw is not None:
                self.back[(rw, ro)] = {"id": cid, "type": typ, "w": True}
            self.back[(None, ro)] = {"id": cid, "type": typ, "w": False}

    def node(self, child):
        typ, rw, ro = self.caps[child["id"]]
        if child["w"]:
            assert rw is not None
            return self.nm.create_from_cap(rw, ro)
        return self.nm.create_from_cap(None, ro)

    def abstract_node(self, node):
        if node is None:
            return {"id": "none", "type": "none", "w": False}
        key = (node.get_write_uri(), node.get_readonly_uri())
        if key in self.back:
            return dict(self.back[key])
        return {"id": "?%r" % (key,), "type": "?", "w": bool(key[0])}

    def observe(self):
        out = {}
        for d, node in self.rw.items():
            children = self.g.run(node.list())
            o = {}
            for name, (child, md) in children.items():
                m, hasT, crt, mot = md_abstract(md)
                o[NAME_BACK.get(name, "?" + name.encode("utf-8").hex())] = {
                    "child": self.abstract_node(child), "md": m, "hasT": hasT, "crt": crt, "mot": mot}
            out[d] = o
        return out

    def set_contents(self, d, entries):
        """write initial contents (entries in the Spec's vocabulary) straight into the directory"""
        children = {}
        for n, e in entries.items():
            md = copy.deepcopy(MDS[e["md"]])
            if e["hasT"]:
                md["tahoe"] = {"linkcrtime": e["crt"], "linkmotime": e["mot"]}
            children[NAMES[n]] = (self.node(e["child"]), md)
        fn = self.rw[d]._node
        self.g.run(fn.overwrite(MutableData(pack_children(children, fn.get_writekey()))))

    def close(self):
        self.g.close()


OW = {"true": True, "false": False, "only_files": ONLY_FILES}


def outcome(w, thunk):
    """run one call; -> (st, out)"""
    try:
        res = w.g.run(thunk())
    except Exception as e:  # the exception class is the observation
        return type(e).__name__, None
    return "ok", res


def plan_op(w, o):
    """-> (thunk that issues the call, post(st, res) -> (st, out))"""
    h = (w.rw if o["via"] == "rw" else w.ro)[o["d"]]
    none = w.abstract_node(None)
    if o["op"] == "add":
        return (lambda: h.set_node(NAMES[o["name"]], w.node(o["child"]), md_concrete(o["md"]), overwrite=OW[o["ow"]]),
                lambda st, res: (st, none))
    if o["op"] == "addmany":
        entries = {}
        for it in o["items"]:
            entries[NAMES[it["name"]]] = (w.node(it["child"]), md_concrete(it["md"]))
        return (lambda: h.set_nodes(entries, overwrite=OW[o["ow"]])), (lambda st, res: (st, none))
    if o["op"] == "delete":
        return (lambda: h.delete(NAMES[o["name"]], must_exist=o["must_exist"], must_be_directory=o["must_be_dir"],
                                 must_be_file=o["must_be_file"]),
                lambda st, res: (st, (w.abstract_node(res) if st == "ok" else none)))
    if o["op"] == "setmd":
        return (lambda: h.set_metadata_for(NAMES[o["name"]], md_concrete(o["md"]))), (lambda st, res: (st, none))
    if o["op"] == "move":
        h2 = (w.rw if o["dvia"] == "rw" else w.ro)[o["dd"]]
        newname = NAMES[o["newname"]] if o["newname"] else None

        def post(st, res):
            if st == "ok" and isinstance(res, str):
                return ("redundant" if res == "redundant rename/relink" else "?" + res), none
            return st, (w.abstract_node(res) if st == "ok" else none)
        return (lambda: h.move_child_to(NAMES[o["name"]], h2, newname, overwrite=OW[o["ow"]])), post
    raise ValueError(o["op"])


def do_op(w, o):
    CLK.now = o["now"]
    thunk, post = plan_op(w, o)
    st, res = outcome(w, thunk)
    return post(st, res)


def do_burst(w, ops):
    """the calls are issued back to back on the same node objects, behind a listing that is still in flight, and only then does
    the grid run: one client's operations on a directory take effect in the order in which they were requested"""
    from twisted.python.failure import Failure
    CLK.now = ops[0]["now"]
    try:
        (w.rw if ops[0]["via"] == "rw" else w.ro)[ops[0]["d"]].list().addErrback(lambda f: None)
    except Exception:
        pass
    slots = []
    for o in ops:
        thunk, post = plan_op(w, o)
        box = []
        try:
            thunk().addBoth(box.append)
        except Exception as ex:
            box.append(Failure(ex))
        slots.append((box, post))
    # a listing requested after the edits (and before anything has run): it must show all of them
    lbox = []
    try:
        (w.rw if ops[0]["via"] == "rw" else w.ro)[ops[0]["d"]].list().addBoth(lbox.append)
    except Exception as ex:
        lbox.append(Failure(ex))
    for _ in range(200000):
        if all(b for b, _ in slots) and lbox:
            break
        if not w.g.step():
            break
    w.burst_listing = None
    if lbox and not isinstance(lbox[0], Failure):
        o_ = {}
        for name, (child, md) in lbox[0].items():
            m, hasT, crt, mot = md_abstract(md)
            o_[NAME_BACK.get(name, "?" + name.encode("utf-8").hex())] = {
                "child": w.abstract_node(child), "md": m, "hasT": hasT, "crt": crt, "mot": mot}
        w.burst_listing = o_
    out = []
    for box, post in slots:
        if not box:
            out.append(("never_answered", w.abstract_node(None)))
        elif isinstance(box[0], Failure):
            out.append(post(box[0].type.__name__, None))
        else:
            out.append(post("ok", box[0]))
    return out


# ---------------------------------------------------------------- C20 scenario generation (inputs only)
class C20Gen:
    """Seeded generator of calls.  It looks at the last listing only to aim names at entries that exist
    (or do not exist) -- it chooses inputs, it never predicts outcomes."""
    def __init__(self, rng, big):
        self.rng = rng
        self.dirs = ["d1", "d2"] + (["d3"] if rng.random() < 0.5 else [])
        self.names = ["a", "e1", "e2"] + (["k1", "k2"] if big and rng.random() < 0.5 else [])
        self.kids = [{"id": "f1", "type": "file", "w": False}, {"id": "f2", "type": "file", "w": False},
                     {"id": "g1", "type": "file", "w": True}, {"id": "g1", "type": "file", "w": False},
                     {"id": "g2", "type": "file", "w": True}, {"id": "u1", "type": "unknown", "w": True},
                     {"id": "u1", "type": "unknown", "w": False}]
        for d in self.dirs:
            self.kids.append({"id": d, "type": "dir", "w": True})
            self.kids.append({"id": d, "type": "dir", "w": rng.random() < 0.7})
        self.mds = ["m0", "m1", "m2", "nw", "ct", "mt"]
        self.now = 10

    def init(self):
        rng = self.rng
        init = {d: {} for d in self.dirs}
        r = rng.random()
        if r < 0.3:
            init["d1"]["a"] = {"child": self.kids[0], "md": "ct", "hasT": False, "crt": 0, "mot": 0}
        elif r < 0.6:
            init["d1"]["e1"] = {"child": {"id": "d2", "type": "dir", "w": True}, "md": "m1", "hasT": True, "crt": 1, "mot": 2}
            init["d2"]["a"] = {"child": self.kids[2], "md": "m0", "hasT": False, "crt": 0, "mot": 0}
        return init

    def raw_for(self, d, obs, want_present):
        """a raw name whose normal form is (not) linked in d, when there is one"""
        rng = self.rng
        present = set(obs[d].keys())
        norm = lambda n: {"e2": "e1", "k2": "k1"}.get(n, n)
        cands = [n for n in self.names if (norm(n) in present) == want_present]
        return rng.choice(cands or self.names)

    def op(self, obs):
        rng = self.rng
        self.now += rng.choice([0, 1, 1, 2, 5])
        via = "ro" if rng.random() < 0.04 else "rw"
        x = rng.random()
        ow = rng.choice(["true", "true", "false", "only_files"])
        d = rng.choice(self.dirs)
        if x < 0.33:
            o = {"op": "add", "d": d, "via": via, "name": rng.choice(self.names), "child": rng.choice(self.kids),
                 "md": rng.choice(self.mds + ["keep", "keep", "keep"]), "ow": ow}
        elif x < 0.41:
            items = [{"name": rng.choice(self.names), "child": rng.choice(self.kids), "md": rng.choice(self.mds + ["keep"])}
                     for _ in range(rng.choice([1, 2, 2, 3]))]
            seen, its = set(), []          # a python dict cannot hold one raw name twice
            for it in items:
                if it["name"] not in seen:
                    seen.add(it["name"])
                    its.append(it)
            o = {"op": "addmany", "d": d, "via": via, "items": its, "ow": ow}
        elif x < 0.57:
            f = rng.choice([(True, False, False), (True, False, False), (False, False, False), (True, True, False), (True, False, True)])
            o = {"op": "delete", "d": d, "via": via, "name": self.raw_for(d, obs, rng.random() < 0.75), "must_exist": f[0],
                 "must_be_dir": f[1], "must_be_file": f[2]}
        elif x < 0.68:
            o = {"op": "setmd", "d": d, "via": via, "name": self.raw_for(d, obs, rng.random() < 0.8), "md": rng.choice(self.mds)}
        else:
            dd = d if rng.random() < 0.35 else rng.choice(self.dirs)
            o = {"op": "move", "d": d, "via": via, "name": self.raw_for(d, obs, rng.random() < 0.85), "dd": dd,
                 "dvia": "ro" if rng.random() < 0.03 else "rw",
                 "newname": "" if rng.random() < 0.2 else self.raw_for(dd, obs, rng.random() < 0.45), "ow": ow}
        o["now"] = self.now
        return o


def run_c20(args, inp, rng):
    scenarios = list((inp or {}).get("scenarios", []))
    for i in range(args.n):
        scenarios.append({"gen": rng.randint(max(3, args.len // 2), args.len)})
    traces = []
    for si, sc in enumerate(scenarios):
        wd = os.path.join(args.work, "c20_%d" % si)
        gen = None
        if "gen" in sc:
            gen = C20Gen(rng, args.tier != "quick")
            sc = {"consts": {"init": gen.init()}, "ops": [None] * sc["gen"], "src": "seeded"}
        init = sc["consts"]["init"]
        w = World(wd, sorted(init.keys()), seed=args.seed)
        try:
            for d, entries in init.items():
                if entries:
                    w.set_contents(d, entries)
            obs = w.observe()
            if obs != init:
                raise RuntimeError("initial contents not established: %r vs %r" % (obs, init))
            events = []
            bursty = gen is not None and si % 3 == 2
            brng = random.Random("burst-%d-%d" % (args.seed, si))
            todo = list(sc["ops"])
            while todo:
                o = todo.pop(0)
                if o is None:
                    o = gen.op(obs)
                if bursty and todo and todo[0] is None and brng.random() < 0.5:
                    # a burst: 2..3 calls requested back to back (all chosen from the same listing, same clock reading)
                    # (single-step edits of ONE directory: a rename / relink is several queued steps, between which calls
                    # requested later legitimately run)
                    ops = [o] if (o["op"] != "move" and o["via"] == "rw") else []      # (a listing through the read-only
                    # handle shows the children diminished: the Spec's listings are those of the write handle)
                    want = brng.choice([2, 2, 3])
                    tries = 0
                    while ops and todo and todo[0] is None and len(ops) < want and tries < 40:
                        tries += 1
                        o2 = gen.op(obs)
                        if o2["op"] == "move" or o2["d"] != o["d"] or o2["via"] != o["via"]:
                            continue
                        todo.pop(0)
                        o2["now"] = o["now"]
                        ops.append(o2)
                    if len(ops) < 2:
                        st, out = do_op(w, o)
                        obs = w.observe()
                        e = dict(o)
                        e["st"], e["out"], e["obs"] = st, out, obs
                        events.append(e)
                        continue
                    res = do_burst(w, ops)
                    obs = w.observe()
                    if w.burst_listing is not None:
                        obs_burst = dict(obs)
                        obs_burst[o["d"]] = w.burst_listing
                    else:
                        obs_burst = {"listing_failed": {}}
                    for j, (o2, (st, out)) in enumerate(zip(ops, res)):
                        e = dict(o2)
                        last = j == len(ops) - 1
                        e["st"], e["out"], e["obs"], e["burst"] = st, out, (obs_burst if last else {}), ("last" if last else "mid")
                        events.append(e)
                    continue
                st, out = do_op(w, o)
                obs = w.observe()
                e = dict(o)
                e["st"], e["out"], e["obs"] = st, out, obs
                events.append(e)
            traces.append({"consts": sc["consts"], "events": events, "src": sc.get("src", "given")})
        finally:
            w.close()
            shutil.rmtree(wd, ignore_errors=True)
    return traces


# ================================================================ C19 / C18: DirPack.tla cases on the real code
PFX = {"": b"", "ro.": b"ro.", "imm.": b"imm."}
# (decomposed / singleton form, NFC form): the harness's table for the Spec's abstract names e2->e1, k2->k1
NFC_PAIRS = {"e": [("e\u0301", "\u00e9"), ("A\u030a", "\u00c5"), ("\u1100\u1161", "\uac00"), ("o\u0302\u0301", "\u1ed1")],
             "k": [("\u212a", "K"), ("\u212b", "\u00c5"), ("\u2126", "\u03a9")]}
for _l in NFC_PAIRS.values():
    for (_d, _c) in _l:
        assert unicodedata.normalize("NFC", _d) == _c and _d != _c and unicodedata.normalize("NFC", _c) == _c


class Caps:
    """Concrete cap strings for the Spec's cap records [pfx, kind, lvl, obj], one object per entry."""
    def __init__(self, tag):
        k = lambda t, n=16: fake_key(tag + t, n)
        ssk = uri_mod.WriteableSSKFileURI(k(b"ssk"), k(b"sskfp", 32))
        mdmf = uri_mod.WriteableMDMFFileURI(k(b"mdmf"), k(b"mdmffp", 32))
        dssk = uri_mod.WriteableSSKFileURI(k(b"dssk"), k(b"dsskfp", 32))
        dmdmf = uri_mod.WriteableMDMFFileURI(k(b"dmdmf"), k(b"dmdmffp", 32))
        chk = uri_mod.CHKFileURI(k(b"chk"), k(b"ueb", 32), 3, 10, 1000 + tag[0])
        dchk = uri_mod.CHKFileURI(k(b"dchk"), k(b"dueb", 32), 3, 10, 2000 + tag[0])
        hx = k(b"fut").hex().encode()
        # a cap of a future format is any string this version cannot parse: vary its first characters too (they
        # must survive prefix stripping byte for byte), among them the letters of the "ro." / "imm." prefixes
        fut = [b"x-tahoe-future-cap:", b"x-tahoe-future-cap:", b"rocap-v9:", b"object-cap:", b"immcap7:", b"mo.cap:",
               b"or.x-cap:", b"i.m.r.o:"][k(b"futscheme", 1)[0] % 8]
        self.t = {
            ("CHK", "r"): chk.to_string(),
            ("LIT", "r"): uri_mod.LiteralFileURI(k(b"lit", 9)).to_string(),
            ("DIR2-CHK", "r"): uri_mod.ImmutableDirectoryURI(dchk).to_string(),
            ("DIR2-LIT", "r"): uri_mod.LiteralDirectoryURI(uri_mod.LiteralFileURI(b"")).to_string() + base32_of(k(b"dlit", 5)),
            ("SSK", "w"): ssk.to_string(), ("SSK", "r"): ssk.get_readonly().to_string(),
            ("MDMF", "w"): mdmf.to_string(), ("MDMF", "r"): mdmf.get_readonly().to_string(),
            ("DIR2", "w"): uri_mod.DirectoryURI(dssk).to_string(), ("DIR2", "r"): uri_mod.DirectoryURI(dssk).get_readonly().to_string(),
            ("DIR2-MDMF", "w"): uri_mod.MDMFDirectoryURI(dmdmf).to_string(),
            ("DIR2-MDMF", "r"): uri_mod.MDMFDirectoryURI(dmdmf).get_readonly().to_string(),
            ("FUT", "w"): fut + b"w" + hx, ("FUT", "r"): fut + b"r" + hx,
            ("FUTW", "w"): b"x-tahoe-future-test-writeable:w" + hx, ("FUTW", "r"): b"x-tahoe-future-test-writeable:r" + hx,
            ("FUTM", "w"): b"x-tahoe-future-test-mutable:w" + hx, ("FUTM", "r"): b"x-tahoe-future-test-mutable:r" + hx,
        }
        self.back = {}
        for (kind, lvl), body in self.t.items():
            for p, pb in PFX.items():
                self.back[pb + body] = {"pfx": p, "kind": kind, "lvl": lvl, "obj": "o"}
        self.secrets = [v for (kind, lvl), v in self.t.items() if lvl == "w" and kind in ("SSK", "MDMF", "DIR2", "DIR2-MDMF")]
        self.writekeys = [ssk.writekey, mdmf.writekey, dssk.writekey, dmdmf.writekey]

    def concrete(self, c):
        if c["kind"] == "none":
            return None
        return PFX[c["pfx"]] + self.t[(c["kind"], c["lvl"])]

    def abstract(self, b):
        if not b:
            return {"pfx": "", "kind": "none", "lvl": "", "obj": ""}
        return dict(self.back.get(b, {"pfx": "?", "kind": repr(b), "lvl": "?", "obj": "?"}))


def base32_of(b):
    from allmydata.util import base32
    return base32.b2a(b)


def node_abstract(caps, node):
    from allmydata.interfaces import IDirectoryNode
    unknown = node.is_unknown()
    err = ""
    if unknown and node.error is not None:
        err = type(node.error).__name__
    return {"known": not unknown, "rw": caps.abstract(node.get_write_uri()), "ro": caps.abstract(node.get_readonly_uri()),
            "err": err, "mutable": (False if unknown else bool(node.is_mutable())),
            "dir": (False if unknown else bool(IDirectoryNode.providedBy(node)))}


def rand_json(rng, depth=0):
    x = rng.random()
    if depth > 2 or x < 0.45:
        return rng.choice([0, 1, -7, 2 ** 40, 1.5, -0.25, True, False, None, "", "a,b:c", "\u00e9\u4e2d", "x" * rng.randint(0, 30),
                           "12:ab,", "\n\t\"\\"])
    if x < 0.75:
        return {rand_key(rng): rand_json(rng, depth + 1) for _ in range(rng.randint(0, 4))}
    return [rand_json(rng, depth + 1) for _ in range(rng.randint(0, 4))]


def rand_key(rng):
    return rng.choice(["k", "tahoe", "ctime", "mtime", "no-write", "\u00fc", "a:b", "1", "", "long" * 5, "linkcrtime"]) + rng.choice(["", "", "2", "_"])


def rand_md(rng):
    md = {rand_key(rng): rand_json(rng, 1) for _ in range(rng.randint(0, 4))}
    if rng.random() < 0.3:
        md["tahoe"] = {"linkcrtime": rng.choice([1, 1.5, 1234567890.123]), "linkmotime": rng.randint(0, 10 ** 9)}
    return md


ASCII = "abcXYZ019 _-.:,;/\\'\"%$#@!()[]{}<>|~^&*+=?"
STABLE = "\u00e9\u00c5\u4e2d\u6587\u0416\u03a9\u00df\u0142\uac00\u3042\U0001f600\u0915"


def concrete_name(rng, atom, uniq):
    """concrete string for an abstract name atom of DirPack.tla, made unique by an NFC-stable prefix"""
    pre = "n%d_" % uniq
    if atom == "a":
        return pre + "".join(rng.choice(ASCII) for _ in range(rng.randint(0, 12)))
    if atom == "s1":
        s = pre + "".join(rng.choice(STABLE + "ab") for _ in range(rng.randint(1, 10)))
        assert unicodedata.normalize("NFC", s) == s
        return s
    raise ValueError(atom)


def name_pair(rng, letter, uniq):
    d, c = rng.choice(NFC_PAIRS[letter])
    pre = "n%d_" % uniq
    suf = rng.choice(["", "z", ".txt", "\u4e2d"])
    return {letter + "2": pre + d + suf, letter + "1": pre + c + suf}


class PackWorld:
    def __init__(self, workdir, seed):
        from allmydata.interfaces import MDMF_VERSION
        self.g = Grid(workdir, num_servers=1, k=1, n=1, happy=1, seed=seed)
        self.nm = self.g.nodemaker
        self.mut = self.g.run(self.nm.create_new_mutable_directory())
        self.mut_ro = self.nm.create_from_cap(self.mut.get_readonly_uri())
        self.mdmf = self.g.run(self.nm.create_new_mutable_directory(version=MDMF_VERSION))
        self.mdmf_ro = self.nm.create_from_cap(self.mdmf.get_readonly_uri())
        self.imm = self.g.run(self.nm.create_immutable_directory({}))
        assert not self.imm.is_mutable() and self.mut_ro.is_readonly() and not self.mut.is_readonly()


def split_entries(packed):
    """plaintext fields of a packed directory: list of (name_utf8, ro_field, rwcapdata, metadata_json)"""
    from allmydata.util.netstring import split_netstring
    out, pos = [], 0
    while pos < len(packed):
        (entry,), pos = split_netstring(packed, 1, pos)
        fields, _ = split_netstring(entry, 4)
        out.append(tuple(fields))
    return out


def exc_name(thunk):
    try:
        return "ok", thunk()
    except Exception as e:
        return type(e).__name__, None


def observe_case(pw, rng, case, idx, namecases):
    """replay one GenDirPack case through create_from_cap, pack_children, _unpack_contents"""
    caps = Caps(b"%d" % idx)
    g = case["g"]
    mutable = case["dirkind"] == "mut"
    node = pw.nm.create_from_cap(caps.concrete(g["rw"]), caps.concrete(g["ro"]))
    obs = {"n": node_abstract(caps, node)}
    nc = rng.choice(namecases)
    atoms = {}
    if nc["raw"][0] in "ek":
        atoms = name_pair(rng, nc["raw"][0], idx)
    raw = atoms.get(nc["raw"]) or concrete_name(rng, nc["raw"], idx)
    want_listed = atoms.get(nc["listed"]) or raw
    md = rand_md(rng)
    wdir, rdir = (rng.choice([(pw.mut, pw.mut_ro), (pw.mdmf, pw.mdmf_ro)]) if mutable else (pw.imm, pw.imm))
    writekey = wdir._node.get_writekey() if mutable else None
    if nc["foreign"]:
        st, packed = exc_name(lambda: dirnode_mod._pack_normalized_children({raw: (node, md)}, writekey, deep_immutable=not mutable))
    else:
        st, packed = exc_name(lambda: pack_children({raw: (node, copy.deepcopy(md))}, writekey, deep_immutable=not mutable))
    obs["pack"] = st
    obs["name"] = {"raw": nc["raw"], "foreign": nc["foreign"]}
    if st != "ok":
        return obs
    fields = split_entries(packed)
    obs["stored_ro"] = caps.abstract(fields[0][1]) if len(fields) == 1 else {"pfx": "?", "kind": "entries=%d" % len(fields), "lvl": "?", "obj": "?"}
    stored_name = fields[0][0].decode("utf-8")
    obs["name"]["stored"] = nc["stored"] if stored_name == (atoms.get(nc["stored"]) or raw) else "?" + stored_name
    obs["knows_w"] = any(s in packed for s in caps.secrets) or any(base32_of(k) in packed for k in caps.writekeys)
    for who, d in (("w", wdir), ("r", rdir)):
        ust, children = exc_name(lambda: d._unpack_contents(packed))
        if ust != "ok":
            obs[who] = {"kept": False, "md": "md", "error": ust}
            continue
        o = {"kept": want_listed in children, "md": "md"}
        if len(children) > 1 or (len(children) == 1 and want_listed not in children):
            obs["name"]["listed"] = "?" + repr(list(children.keys()))
        if want_listed in children:
            child, gotmd = children[want_listed]
            o["n"] = node_abstract(caps, child)
            o["md"] = "md" if gotmd == md else "?" + json.dumps(gotmd)
            obs["name"]["listed"] = nc["listed"]
        obs[who] = o
    return obs


def run_c19_cases(args, inp, rng):
    """entry level: every GenDirPack case, `reps` seeded concretisations each"""
    wd = os.path.join(args.work, "pack")
    pw = PackWorld(wd, args.seed)
    out = []
    try:
        idx = 0
        for rep in range(args.n):
            for ci, case in enumerate(inp["cases"]):
                idx += 1
                o = observe_case(pw, rng, case, idx, inp["namecases"])
                o["case"] = ci
                out.append(o)
    finally:
        pw.g.close()
    return out


def run_c19_dirs(args, inp, rng):
    """real directories of up to 50 children assembled from GenDirPack cases that packing accepts (plus, in some,
    one child that must be refused), created through the public API, listed through write- and read-cap"""
    from allmydata.interfaces import MDMF_VERSION, SDMF_VERSION
    cases = inp["cases"]
    namecases = [n for n in inp["namecases"] if not n["foreign"]]
    out = []
    uniq = 0
    for b in range(args.n):
        wd = os.path.join(args.work, "dirs_%d" % b)
        g = Grid(wd, num_servers=1, k=1, n=1, happy=1, seed=args.seed)
        nm = g.nodemaker
        try:
            dk = rng.choice(["mut", "mut", "imm"])
            how = rng.choice(["create", "set_children"]) if dk == "mut" else "create"
            version = rng.choice([SDMF_VERSION, MDMF_VERSION])
            oks = [i for i, c in enumerate(cases) if c["dirkind"] == dk and c["pack"] == "ok" and c["cls"] == ""]
            bads = [i for i, c in enumerate(cases) if c["dirkind"] == dk and c["pack"] != "ok" and c["cls"] == ""]
            n = rng.choice([0, 1, 2, 5, 10, 20, 35, 50])
            picks = [rng.choice(oks) for _ in range(n)]
            bad = rng.choice(bads) if rng.random() < 0.3 else None
            if bad is not None:
                picks.insert(rng.randrange(len(picks) + 1), bad)
            entries, children, uris = [], {}, {}
            for ci in picks:
                uniq += 1
                caps = Caps(b"%d" % uniq)
                nc = rng.choice(namecases)
                atoms = name_pair(rng, nc["raw"][0], uniq) if nc["raw"][0] in "ek" else {}
                raw = atoms.get(nc["raw"]) or concrete_name(rng, nc["raw"], uniq)
                listed = atoms.get(nc["listed"]) or raw
                md = rand_md(rng)
                if how == "set_children":
                    md.pop("no-write", None)      # Adder's no-write rule (C20) would diminish the child
                gv = cases[ci]["g"]
                rw, ro = caps.concrete(gv["rw"]), caps.concrete(gv["ro"])
                ent = {"case": ci, "name": nc, "listed": listed, "caps": caps, "md": md, "pair": False}
                if atoms and rng.random() < 0.3 and ci != bad:
                    # the same child under two raw names with one normal form, the other spelling first
                    other = atoms[nc["listed"]] if nc["raw"] != nc["listed"] else atoms[nc["raw"][0] + "2"]
                    children[other] = (nm.create_from_cap(rw, ro), {"loser": True})
                    uris[other] = (rw, ro, {"loser": True})
                    ent["pair"] = True
                children[raw] = (nm.create_from_cap(rw, ro), copy.deepcopy(md))
                uris[raw] = (rw, ro, copy.deepcopy(md))
                entries.append(ent)
            CLK.now = 1000
            if how == "create":
                if dk == "mut":
                    st, node = exc_name(lambda: g.run(nm.create_new_mutable_directory(children, version=version)))
                else:
                    st, node = exc_name(lambda: g.run(nm.create_immutable_directory(children)))
            else:
                node = g.run(nm.create_new_mutable_directory(version=version))
                st, _ = exc_name(lambda: g.run(node.set_children(uris)))
            rec = {"dirkind": dk, "how": how, "status": st, "bad": bad if bad is not None else -1, "entries": [], "n": len(picks),
                   "dircap": "" if node is None else node.get_uri().decode("ascii").split(":")[1]}
            if node is not None:
                handles = {"w": node, "r": nm.create_from_cap(node.get_readonly_uri())}
                lists = {k: g.run(h.list()) for k, h in handles.items()}
                rec["listed_names"] = {k: len(v) for k, v in lists.items()}
                if st == "ok":
                    for ent in entries:
                        e = {"case": ent["case"], "name": ent["name"], "pair": ent["pair"]}
                        for k in ("w", "r"):
                            o = {"kept": ent["listed"] in lists[k], "md": "md"}
                            if o["kept"]:
                                child, gotmd = lists[k][ent["listed"]]
                                o["n"] = node_abstract(ent["caps"], child)
                                if how == "set_children":     # Adder adds the link times (C20); the rest must be the caller's
                                    gotmd = {x: y for x, y in gotmd.items() if x != "tahoe"}
                                    want = {x: y for x, y in ent["md"].items() if x != "tahoe"}
                                else:
                                    want = ent["md"]
                                o["md"] = "md" if gotmd == want else "?" + json.dumps(gotmd)
                            e[k] = o
                        rec["entries"].append(e)
            out.append(rec)
        finally:
            g.close()
            shutil.rmtree(wd, ignore_errors=True)
    return out


# ================================================================ C18: trees of real directories
class RealDirCaps:
    """cap table of one real directory (kind read off its cap string)"""
    def __init__(self, node):
        u = node.get_uri()
        kind = {b"DIR2": "DIR2", b"DIR2-MDMF": "DIR2-MDMF", b"DIR2-CHK": "DIR2-CHK", b"DIR2-LIT": "DIR2-LIT"}[u.split(b":")[1]]
        self.kind = kind
        self.t = {(kind, "r"): node.get_readonly_uri()}
        self.secrets, self.writekeys = [], []
        if node.is_mutable():
            self.t[(kind, "w")] = u
            self.secrets.append(u)
            self.writekeys.append(node._node.get_writekey())
        self.back = {}
        for (k, lvl), body in self.t.items():
            for p, pb in PFX.items():
                self.back[pb + body] = {"pfx": p, "kind": k, "lvl": lvl, "obj": "o"}

    concrete = Caps.concrete
    abstract = Caps.abstract


def build_tree(g, rng, cases, depth, uniq):
    """-> tree node {"node": DirectoryNode, "caps": RealDirCaps, "links": [{"name", "g", "caps", "sub": tree or None}]}"""
    from allmydata.interfaces import MDMF_VERSION, SDMF_VERSION
    nm = g.nodemaker
    dk = rng.choice(["mut", "mut", "mut", "imm"])
    subs = []
    if depth > 0:
        for _ in range(rng.choice([0, 1, 1, 2])):
            subs.append(build_tree(g, rng, cases, depth - 1, uniq))
    links, children = [], {}
    oks = [c for c in cases if c["dirkind"] == dk and c["pack"] == "ok" and c["cls"] == ""]
    for sub in subs:
        k = sub["caps"].kind
        if dk == "imm" and sub["node"].is_mutable():
            continue            # an immutable directory cannot link it (checked at entry level)
        cands = [c for c in oks if {c["g"]["rw"]["kind"], c["g"]["ro"]["kind"]} <= {k, "none"} and (c["g"]["rw"]["kind"] == k or c["g"]["ro"]["kind"] == k)
                 and (c["w"]["kept"] or c["r"]["kept"])]
        c = rng.choice(cands)
        uniq[0] += 1
        links.append({"name": "d%d" % uniq[0], "g": c["g"], "caps": sub["caps"], "sub": sub})
    for _ in range(rng.choice([1, 2, 4, 8])):
        c = rng.choice(oks)
        uniq[0] += 1
        links.append({"name": "c%d" % uniq[0], "g": c["g"], "caps": Caps(b"t%d" % uniq[0]), "sub": None})
    for ln in links:
        children[ln["name"]] = (nm.create_from_cap(ln["caps"].concrete(ln["g"]["rw"]), ln["caps"].concrete(ln["g"]["ro"])), {})
    if dk == "mut":
        node = g.run(nm.create_new_mutable_directory(children, version=rng.choice([SDMF_VERSION, MDMF_VERSION])))
    else:
        node = g.run(nm.create_immutable_directory(children))
    return {"node": node, "caps": RealDirCaps(node), "links": links}


def walk_tree(g, handle, tree, via, steps, events):
    children = g.run(handle.list())
    for ln in tree["links"]:
        st = steps + [ln["g"]]
        if ln["name"] not in children:
            events.append({"ev": "path", "via": via, "steps": st, "listed": False, "readonly": False,
                           "n": {"known": False, "rw": ln["caps"].abstract(None), "ro": ln["caps"].abstract(None), "err": "", "mutable": False, "dir": False}})
            continue
        child = children[ln["name"]][0]
        n = node_abstract(ln["caps"], child)
        events.append({"ev": "path", "via": via, "steps": st, "listed": True, "n": n,
                       "readonly": (bool(child.is_readonly()) if n["known"] else False)})
        if ln["sub"] is not None and n["known"] and n["dir"]:
            walk_tree(g, child, ln["sub"], via, st, events)
    extra = set(children.keys()) - {ln["name"] for ln in tree["links"]}
    if extra:
        events.append({"ev": "unexpected names %r" % sorted(extra)})


def plain_events(g, nm, tree, steps, events):
    node = tree["node"]
    if node.is_mutable():
        ro = nm.create_from_cap(node.get_readonly_uri())
        raw = g.run(ro._node.download_best_version())
        leak = False
        for ln in tree["links"]:
            c = ln["caps"]
            for sec in list(c.secrets) + [base32_of(k) for k in c.writekeys]:
                # only secrets of children that were linked (the table of a fake child holds caps of all kinds, all of them secret)
                if sec in raw:
                    leak = True
        events.append({"ev": "plain", "steps": steps, "leak": leak, "size": len(raw)})
    for ln in tree["links"]:
        if ln["sub"] is not None:
            plain_events(g, nm, ln["sub"], steps + [ln["g"]], events)


def run_c18_trees(args, inp, rng):
    out = []
    for t in range(args.n):
        wd = os.path.join(args.work, "tree_%d" % t)
        g = Grid(wd, num_servers=1, k=1, n=1, happy=1, seed=args.seed)
        try:
            uniq = [0]
            events, rk = [], "dir2"
            try:
                tree = build_tree(g, rng, inp["cases"], rng.choice([1, 2, 2]), uniq)
                rk = tree["caps"].kind
                root = tree["node"]
                walk_tree(g, root, tree, "w", [], events)
                walk_tree(g, g.nodemaker.create_from_cap(root.get_readonly_uri()), tree, "r", [], events)
                plain_events(g, g.nodemaker, tree, [], events)
            except Exception as e:       # the Spec knows no failing step here: the exception itself is the observation
                import traceback
                events.append({"ev": "crash", "what": "%s: %s" % (type(e).__name__, str(e)[:200]),
                               "where": traceback.format_exc().strip().splitlines()[-3].strip()[:200]})
            out.append({"consts": {"root_kind": rk}, "events": events, "mutable_objects": g.keypool.i})
        finally:
            g.close()
            shutil.rmtree(wd, ignore_errors=True)
    return out


# ================================================================ C21: deep traversal of real directory graphs
def gname(i):
    return "%02d" % i


def seeded_graph(rng, nobj):
    """a random graph in the vocabulary of DeepTraverse.tla: trees, shared sub-directories, cycles, the same object
    through write- and read-cap, literal files, literal / immutable directories, unknown caps"""
    types, kids = {"o1": "dir"}, {"o1": []}
    # immutable part first (acyclic by construction): ids from the top so that mutable directories can link them
    order = ["o1"]
    imm_objs = []
    for i in range(2, nobj + 1):
        o = "o%d" % i
        t = rng.choice(["dir", "dir", "file", "file", "lit", "lit", "mfile", "unk", "idir", "litdir"])
        types[o] = t
        kids[o] = []
        order.append(o)
    # the backing mutable file of a directory, linked as a plain file: a different object (different verify-cap) on the
    # same storage index -- the traversal must report both the directory and the file
    alias = {}
    if rng.random() < 0.4:
        dirs_ = [x for x in order if types[x] == "dir"]
        for j, d_ in enumerate(rng.sample(dirs_, min(len(dirs_), rng.choice([1, 1, 2])))):
            o = "o%d" % (nobj + 1 + j)
            types[o] = "mfile"
            kids[o] = []
            order.append(o)
            alias[o] = d_
    used = {o: set() for o in types}

    def link(d, to, lvl):
        free = [n for n in range(1, 13) if n not in used[d]]
        if not free:
            return
        n = rng.choice(free)
        used[d].add(n)
        kids[d].append({"name": n, "to": to, "lvl": lvl})

    def lv(t):
        return rng.choice(["w", "w", "r"]) if types[t] in ("dir", "mfile") else "r"
    immutable = lambda o: types[o] in ("file", "lit", "idir", "litdir")
    idx = {o: i for i, o in enumerate(order)}
    lit_taken, state = set(), {"empty_litdir": False}
    # contents of immutable directories: only immutable objects with a larger index (no cycles)
    for o in sorted(order, key=lambda x: (types[x] != "litdir", idx[x])):
        if types[o] == "idir":
            cands = [x for x in order if idx[x] > idx[o] and immutable(x)]
            for x in rng.sample(cands, min(len(cands), rng.choice([0, 1, 2, 3]))):
                link(o, x, "r")
        elif types[o] == "litdir":
            # literal directories with equal contents are one and the same object (equal caps): keep them distinct --
            # at most one empty one, the others hold one literal file that no other literal directory holds
            cands = [x for x in order if idx[x] > idx[o] and types[x] == "lit" and x not in lit_taken]
            if cands and (state["empty_litdir"] or rng.random() < 0.6):
                x = rng.choice(cands)
                lit_taken.add(x)
                link(o, x, "r")
            elif not state["empty_litdir"]:
                state["empty_litdir"] = True
            else:
                types[o] = "lit"
    # backbone: every object gets a parent among the mutable directories before it
    mdirs = [o for o in order if types[o] == "dir"]
    for o in order[1:]:
        parents = [d for d in mdirs if idx[d] < idx[o]]
        d = rng.choice(parents)
        link(d, o, lv(o))
    # extra links: shared objects, cycles, self links, second link through the other cap
    for _ in range(rng.randint(0, nobj)):
        d = rng.choice(mdirs)
        link(d, rng.choice(order), lv(rng.choice(order)) if False else "w")
    for d in mdirs:
        for k in kids[d]:
            if types[k["to"]] not in ("dir", "mfile"):
                k["lvl"] = "r"
            elif rng.random() < 0.3:
                k["lvl"] = "r"
    return {"type": types, "kids": kids, "root": "o1", "alias": alias}


class GraphWorld:
    def __init__(self, g, graph, rng, tag):
        from allmydata.interfaces import MDMF_VERSION, SDMF_VERSION
        self.g, self.nm, self.graph = g, g.nodemaker, graph
        types = graph["type"]
        self.caps = {}          # obj -> {"w": cap or None, "r": cap}
        self.keep = []
        # in every other world the directories are filled through ANOTHER gateway (its own NodeMaker): the traversing
        # gateway still holds node objects that last saw the directories empty
        self.filler = g.make_nodemaker() if rng.random() < 0.5 else self.nm
        self.back = {}          # cap string -> (obj, lvl)
        k = lambda o, t, n=16: fake_key(b"%s-%s-%s" % (tag, o.encode(), t), n)
        # immutable directories bottom-up (their contents are fixed at creation)
        pending = [o for o in types if types[o] in ("idir", "litdir")]
        for o, t in types.items():
            if t == "dir":
                node = g.run(self.nm.create_new_mutable_directory(version=rng.choice([SDMF_VERSION, MDMF_VERSION])))
                self.caps[o] = {"w": node.get_uri(), "r": node.get_readonly_uri()}
                # the traversing gateway opens the (still empty) directory by its cap, lists it and keeps the handle
                for cap_ in (node.get_uri(), node.get_readonly_uri()):
                    h_ = self.nm.create_from_cap(cap_)
                    g.run(h_.list())
                    self.keep.append(h_)
            elif t == "mfile" and o in graph.get("alias", {}):
                continue
            elif t == "mfile":
                w = rng.choice([uri_mod.WriteableSSKFileURI, uri_mod.WriteableMDMFFileURI])(k(o, b"wk"), k(o, b"fp", 32))
                self.caps[o] = {"w": w.to_string(), "r": w.get_readonly().to_string()}
            elif t == "file":
                self.caps[o] = {"w": None, "r": uri_mod.CHKFileURI(k(o, b"k"), k(o, b"u", 32), 3, 10, 57 + int(o[1:])).to_string()}
            elif t == "lit":
                self.caps[o] = {"w": None, "r": uri_mod.LiteralFileURI(b"L" + o.encode()).to_string()}
            elif t == "unk":
                self.caps[o] = {"w": None, "r": b"ro.x-tahoe-future-cap:" + o.encode()}
        for o, d in graph.get("alias", {}).items():
            self.caps[o] = {lv_: uri_mod.from_string(self.caps[d][lv_]).get_filenode_cap().to_string() for lv_ in ("w", "r")}
        while pending:
            progress = False
            for o in list(pending):
                ks = graph["kids"][o]
                if all(x["to"] in self.caps for x in ks):
                    children = {gname(x["name"]): (self.nm.create_from_cap(None, self.caps[x["to"]]["r"]), {}) for x in ks}
                    if types[o] == "idir":      # pad the contents beyond the literal threshold, with a unique tag
                        children["pad"] = (self.nm.create_from_cap(None, uri_mod.LiteralFileURI(b"pad" + o.encode()).to_string()),
                                           {"pad": "x" * 60})
                    node = g.run(self.nm.create_immutable_directory(children))
                    kind = node.get_uri().split(b":")[1]
                    if kind != (b"DIR2-CHK" if types[o] == "idir" else b"DIR2-LIT"):
                        raise RuntimeError("object %s came out as %r" % (o, kind))
                    self.caps[o] = {"w": None, "r": node.get_uri()}
                    pending.remove(o)
                    progress = True
            if not progress:
                raise RuntimeError("cyclic immutable directories in the graph")
        for o, c in self.caps.items():
            if c["w"]:
                self.back[c["w"]] = (o, "w")
            self.back.setdefault(c["r"], (o, "r"))
        for o, t in types.items():
            if t == "dir" and graph["kids"][o]:
                ents = {}
                for x in graph["kids"][o]:
                    c = self.caps[x["to"]]
                    ents[gname(x["name"])] = (c["w"], c["r"]) if x["lvl"] == "w" else (None, c["r"])
                g.run(self.filler.create_from_cap(self.caps[o]["w"]).set_children(ents))
        if any(t == "idir" for t in types.values()):
            # the padding child of an immutable directory is part of the real graph: add it to the graph the Spec sees
            n = len(types)
            for o in [x for x, t in types.items() if t == "idir"]:
                n += 1
                po = "p%d" % n
                types[po] = "lit"
                graph["kids"][po] = []
                graph["kids"][o].append({"name": 99, "to": po, "lvl": "r"})
                cap = uri_mod.LiteralFileURI(b"pad" + o.encode()).to_string()
                self.caps[po] = {"w": None, "r": cap}
                self.back[cap] = (po, "r")

    def name_int(self, s):
        return 99 if s == "pad" else int(s)

    def obj_of(self, node):
        u = node.get_uri()
        if u in self.back:
            return self.back[u]
        return ("?" + repr(u), "?")

    def observe(self, via):
        rootcap = self.caps[self.graph["root"]]
        root = self.nm.create_from_cap(rootcap["w"] if via == "w" else rootcap["r"])
        res = self.g.run(root.build_manifest().when_done())
        vis = []
        for (path, cap) in res["manifest"]:
            obj, lvl = self.back.get(cap, ("?" + repr(cap), "?"))
            st, node = exc_name(lambda: self.g.run(root.get_child_at_path(list(path))) if path else root)
            r = self.obj_of(node)[0] if st == "ok" else "nowhere:" + st
            vis.append({"path": [self.name_int(p) for p in path], "obj": obj, "lvl": lvl, "res": r})
        ds = self.g.run(root.start_deep_stats().when_done())

        def st(d):
            return {"dirs": d["count-directories"], "files": d["count-files"], "imm": d["count-immutable-files"],
                    "lit": d["count-literal-files"], "mut": d["count-mutable-files"], "unk": d["count-unknown"],
                    "maxkids": d["largest-directory-children"]}
        return [{"ev": "manifest", "via": via, "vis": vis, "verifycaps": len(res["verifycaps"]), "storage_indexes": len(res["storage-index"])},
                {"ev": "stats", "via": via, "manifest_stats": st(res["stats"]), "deep_stats": st(ds)}]


def web_manifest(w, web, via, broken=()):
    """POST ?t=stream-manifest through the real web API: the streamed units, mapped back to objects"""
    from urllib.parse import quote
    rootcap = w.caps[w.graph["root"]]
    cap = rootcap["w"] if via == "w" else rootcap["r"]
    r = web.request("POST", "/uri/" + quote(cap.decode()) + "?t=stream-manifest")
    vis, error, complete, junk = [], False, False, 0
    for line in r.body.split(b"\n"):
        if not line.strip():
            continue
        if error:
            continue                      # the python exception that follows the ERROR: line
        if line.startswith(b"ERROR:"):
            error = True
            continue
        try:
            u = json.loads(line)
        except ValueError:
            junk += 1
            continue
        if u.get("type") == "stats":
            complete = True
        elif "path" in u and "cap" in u:      # "file", "directory" (and "unknown" for caps from the future)
            obj, lvl = w.back.get(u["cap"].encode(), ("?" + u["cap"][:30], "?"))
            vis.append({"path": [w.name_int(p_) for p_ in u["path"]], "obj": obj, "lvl": lvl})
        else:
            junk += 1
    return {"ev": "web_manifest", "via": via, "code": r.code, "vis": vis, "error": error, "complete": complete, "junk": junk,
            "broken": list(broken)}


def run_c21(args, inp, rng):
    graphs = list((inp or {}).get("graphs", []))
    for i in range(args.n):
        graphs.append(seeded_graph(rng, rng.choice([5, 8, 12, 20, 30, 40])))
    out = []
    g, used = None, 0
    wd = None
    for gi, graph in enumerate(graphs):
        ndirs = sum(1 for t in graph["type"].values() if t == "dir")
        if g is None or used + ndirs > 40:
            if g is not None:
                g.close()
                shutil.rmtree(wd, ignore_errors=True)
            wd = os.path.join(args.work, "g_%d" % gi)
            g = Grid(wd, num_servers=1, k=1, n=1, happy=1, seed=args.seed)
            used = 0
        used += ndirs
        graph = copy.deepcopy(graph)
        graph.setdefault("root", "o1")
        events = []
        try:
            w = GraphWorld(g, graph, rng, b"%d" % gi)
            for via in ("w", "r"):
                events += w.observe(via)
            if gi % 3 == 0:
                # the same walk streamed by the web API (t=stream-manifest, what `tahoe manifest` uses): on the healthy graph,
                # then with one non-root directory made unrecoverable (its only share deleted)
                from webgrid import WebGrid
                if getattr(g, "_verif_web", None) is None:
                    g._verif_web = WebGrid(grid=g)
                web = g._verif_web
                wrng = random.Random("web-%d-%d" % (args.seed, gi))
                events.append(web_manifest(w, web, wrng.choice(["w", "r"])))
                dirs = sorted(o for o, t in graph["type"].items() if t == "dir" and o != graph["root"] and graph["kids"][o])
                if dirs:
                    victim = wrng.choice(dirs)
                    si = w.nm.create_from_cap(w.caps[victim]["r"]).get_storage_index()
                    for srv, d in g.shares(si).items():
                        for sh, p in d.items():
                            os.unlink(p)
                    events.append(web_manifest(w, web, wrng.choice(["w", "r"]), broken=[victim]))
        except Exception as e:       # the Spec knows no failing traversal of these graphs: the exception is the observation
            import traceback
            events.append({"ev": "crash", "what": "%s: %s" % (type(e).__name__, str(e)[:200]),
                           "where": traceback.format_exc().strip().splitlines()[-3].strip()[:200]})
        out.append({"consts": {"type": graph["type"], "kids": graph["kids"], "root": graph["root"]}, "events": events,
                    "src": graph.get("src", "seeded" if gi >= len(graphs) - args.n else "tlc")})
    if g is not None:
        g.close()
        shutil.rmtree(wd, ignore_errors=True)
    return out


def main():
    ap = argparse.ArgumentParser()
    ap.add_argument("--out", required=True)
    ap.add_argument("--in", dest="inp")
    ap.add_argument("--seed", type=int, default=0)
    ap.add_argument("--tier", default="quick")
    ap.add_argument("--mode", required=True)
    ap.add_argument("--n", type=int, default=10)
    ap.add_argument("--len", type=int, default=30)
    args = ap.parse_args()
    args.work = os.path.join(os.getcwd(), "dirdrv_%d" % os.getpid())
    os.makedirs(args.work, exist_ok=True)
    inp = json.load(open(args.inp)) if args.inp else None
    rng = random.Random("%s-%d" % (args.mode, args.seed))
    try:
        if args.mode == "c20":
            out = run_c20(args, inp, rng)
        elif args.mode == "c19cases":
            out = run_c19_cases(args, inp, rng)
        elif args.mode == "c19dirs":
            out = run_c19_dirs(args, inp, rng)
        elif args.mode == "c18trees":
            out = run_c18_trees(args, inp, rng)
        elif args.mode == "c21":
            out = run_c21(args, inp, rng)
        else:
            raise SystemExit("unknown mode %s" % args.mode)
    finally:
        shutil.rmtree(args.work, ignore_errors=True)
    with open(args.out, "w") as f:
        json.dump(out, f)


if __name__ == "__main__":
    main()
