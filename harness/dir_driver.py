"""Driver of real tahoe-lafs directories (allmydata.dirnode / nodemaker / unknown / deep_stats) on SimGrid.

  --mode c20   histories of set_node / set_nodes / delete / set_metadata_for / move_child_to on real
               mutable directories with time pinned; output = traces for spec/dir/TraceDirnode.tla
  --mode c19   (dir_pack_driver part) pack/unpack cases            -> see run_c19
  --mode c18   directory trees opened through write- and read-caps -> see run_c18
  --mode c21   directory graphs, build_manifest / start_deep_stats -> see run_c21

The driver never decides a verdict: it executes the calls, abstracts nodes / names / metadata to the
Spec's vocabulary through fixed tables, and records what the code answered.
"""
from vreactor import vr, settle  # noqa: F401  (must be first)
import argparse, copy, json, os, random, shutil, sys, unicodedata

from grid import Grid
import allmydata.dirnode as dirnode_mod
from allmydata import uri as uri_mod
from allmydata.dirnode import ONLY_FILES, pack_children
from allmydata.mutable.publish import MutableData
from allmydata.util import hashutil


class PinnedClock:
    """stands for the `time` module inside allmydata.dirnode"""
    now = 0

    def time(self):
        return self.now


CLK = PinnedClock()
dirnode_mod.time = CLK

# ---------------------------------------------------------------- vocabulary shared with Dirnode.tla
NAMES = {"a": "a", "b": "b", "e1": "\u00e9", "e2": "e\u0301", "k1": "K", "k2": "\u212a"}
NAME_BACK = {v: k for k, v in NAMES.items()}
for _k in ("e2", "k2"):
    assert unicodedata.normalize("NFC", NAMES[_k]) == NAMES[_k[0] + "1"]

MDS = {"m0": {}, "m1": {"k": 1}, "m2": {"k": 2}, "nw": {"no-write": True}, "ct": {"ctime": 7},
       "mt": {"k": 1, "tahoe": {"linkcrtime": 1, "linkmotime": 1}}}


def md_concrete(m):
    return None if m == "keep" else copy.deepcopy(MDS[m])


def md_abstract(md):
    """metadata dict -> (user value name, hasT, crt, mot)"""
    user = {k: v for k, v in md.items() if k != "tahoe"}
    name = None
    for k, v in MDS.items():
        if k != "mt" and v == user:
            name = k
    if name is None:
        name = "?" + json.dumps(user, sort_keys=True)
    t = md.get("tahoe")
    if t is None:
        return name, False, 0, 0
    if not (isinstance(t, dict) and set(t.keys()) == {"linkcrtime", "linkmotime"}
            and all(isinstance(x, int) for x in t.values())):
        return name + "?tahoe=" + json.dumps(t, sort_keys=True), True, 0, 0
    return name, True, t["linkcrtime"], t["linkmotime"]


def fake_key(tag, n=16):
    return hashutil.tagged_hash(b"verif-dir-driver", tag)[:n]


class World:
    """One fresh grid with the directories of a scenario and the table of children."""
    def __init__(self, workdir, dirs, seed=0, mdmf_dirs=()):
        from allmydata.interfaces import MDMF_VERSION
        self.g = Grid(workdir, num_servers=1, k=1, n=1, happy=1, seed=seed)
        self.nm = self.g.nodemaker
        self.caps = {}       # child id -> (type, rw, ro)
        self.rw = {}
        self.ro = {}
        for d in dirs:
            node = self.g.run(self.nm.create_new_mutable_directory(version=MDMF_VERSION if d in mdmf_dirs else None))
            self.rw[d] = node
            self.ro[d] = self.nm.create_from_cap(node.get_readonly_uri())
            self.caps[d] = ("dir", node.get_uri(), node.get_readonly_uri())
        self.caps["f1"] = ("file", None, b"URI:LIT:krugkidfnzsc4")
        self.caps["f2"] = ("file", None, uri_mod.CHKFileURI(fake_key(b"k"), fake_key(b"u", 32), 3, 10, 1234).to_string())
        w = uri_mod.WriteableSSKFileURI(fake_key(b"wk"), fake_key(b"fp", 32))
        self.caps["g1"] = ("file", w.to_string(), w.get_readonly().to_string())
        w = uri_mod.WriteableMDMFFileURI(fake_key(b"wk2"), fake_key(b"fp2", 32))
        self.caps["g2"] = ("file", w.to_string(), w.get_readonly().to_string())
        self.caps["u1"] = ("unknown", b"x-tahoe-future-cap:rw1", b"ro.x-tahoe-future-cap:ro1")
        self.back = {}
        for cid, (typ, rw, ro) in self.caps.items():
            if rw is not None:
                self.back[(rw, ro)] = {"id": cid, "type": typ, "w": True}
            self.back[(None, ro)] = {"id": cid, "type": typ, "w": False}

    def node(self, child):
        typ, rw, ro = self.caps[child["id"]]
        if child["w"]:
            assert rw is not None
            return self.nm.create_from_cap(rw, ro)
        return self.nm.create_from_cap(None, ro)

    def abstract_node(self, node):
        if node is None:
            return {"id": "none", "type": "none", "w": False}
        key = (node.get_write_uri(), node.get_readonly_uri())
        if key in self.back:
            return dict(self.back[key])
        return {"id": "?%r" % (key,), "type": "?", "w": bool(key[0])}

    def observe(self):
        out = {}
        for d, node in self.rw.items():
            children = self.g.run(node.list())
            o = {}
            for name, (child, md) in children.items():
                m, hasT, crt, mot = md_abstract(md)
                o[NAME_BACK.get(name, "?" + name.encode("utf-8").hex())] = {
                    "child": self.abstract_node(child), "md": m, "hasT": hasT, "crt": crt, "mot": mot}
            out[d] = o
        return out

    def set_contents(self, d, entries):
        """write initial contents (entries in the Spec's vocabulary) straight into the directory"""
        children = {}
        for n, e in entries.items():
            md = copy.deepcopy(MDS[e["md"]])
            if e["hasT"]:
                md["tahoe"] = {"linkcrtime": e["crt"], "linkmotime": e["mot"]}
            children[NAMES[n]] = (self.node(e["child"]), md)
        fn = self.rw[d]._node
        self.g.run(fn.overwrite(MutableData(pack_children(children, fn.get_writekey()))))

    def close(self):
        self.g.close()


OW = {"true": True, "false": False, "only_files": ONLY_FILES}


def outcome(w, thunk):
    """run one call; -> (st, out)"""
    try:
        res = w.g.run(thunk())
    except Exception as e:  # the exception class is the observation
        return type(e).__name__, None
    return "ok", res


def do_op(w, o):
    CLK.now = o["now"]
    h = (w.rw if o["via"] == "rw" else w.ro)[o["d"]]
    none = w.abstract_node(None)
    if o["op"] == "add":
        st, res = outcome(w, lambda: h.set_node(NAMES[o["name"]], w.node(o["child"]), md_concrete(o["md"]), overwrite=OW[o["ow"]]))
        return st, none
    if o["op"] == "addmany":
        entries = {}
        for it in o["items"]:
            entries[NAMES[it["name"]]] = (w.node(it["child"]), md_concrete(it["md"]))
        st, res = outcome(w, lambda: h.set_nodes(entries, overwrite=OW[o["ow"]]))
        return st, none
    if o["op"] == "delete":
        st, res = outcome(w, lambda: h.delete(NAMES[o["name"]], must_exist=o["must_exist"], must_be_directory=o["must_be_dir"],
                                              must_be_file=o["must_be_file"]))
        return st, (w.abstract_node(res) if st == "ok" else none)
    if o["op"] == "setmd":
        st, res = outcome(w, lambda: h.set_metadata_for(NAMES[o["name"]], md_concrete(o["md"])))
        return st, none
    if o["op"] == "move":
        h2 = (w.rw if o["dvia"] == "rw" else w.ro)[o["dd"]]
        newname = NAMES[o["newname"]] if o["newname"] else None
        st, res = outcome(w, lambda: h.move_child_to(NAMES[o["name"]], h2, newname, overwrite=OW[o["ow"]]))
        if st == "ok" and isinstance(res, str):
            return ("redundant" if res == "redundant rename/relink" else "?" + res), none
        return st, (w.abstract_node(res) if st == "ok" else none)
    raise ValueError(o["op"])


# ---------------------------------------------------------------- C20 scenario generation (inputs only)
class C20Gen:
    """Seeded generator of calls.  It looks at the last listing only to aim names at entries that exist
    (or do not exist) -- it chooses inputs, it never predicts outcomes."""
    def __init__(self, rng, big):
        self.rng = rng
        self.dirs = ["d1", "d2"] + (["d3"] if rng.random() < 0.5 else [])
        self.names = ["a", "e1", "e2"] + (["k1", "k2"] if big and rng.random() < 0.5 else [])
        self.kids = [{"id": "f1", "type": "file", "w": False}, {"id": "f2", "type": "file", "w": False},
                     {"id": "g1", "type": "file", "w": True}, {"id": "g1", "type": "file", "w": False},
                     {"id": "g2", "type": "file", "w": True}, {"id": "u1", "type": "unknown", "w": True},
                     {"id": "u1", "type": "unknown", "w": False}]
        for d in self.dirs:
            self.kids.append({"id": d, "type": "dir", "w": True})
            self.kids.append({"id": d, "type": "dir", "w": rng.random() < 0.7})
        self.mds = ["m0", "m1", "m2", "nw", "ct", "mt"]
        self.now = 10

    def init(self):
        rng = self.rng
        init = {d: {} for d in self.dirs}
        r = rng.random()
        if r < 0.3:
            init["d1"]["a"] = {"child": self.kids[0], "md": "ct", "hasT": False, "crt": 0, "mot": 0}
        elif r < 0.6:
            init["d1"]["e1"] = {"child": {"id": "d2", "type": "dir", "w": True}, "md": "m1", "hasT": True, "crt": 1, "mot": 2}
            init["d2"]["a"] = {"child": self.kids[2], "md": "m0", "hasT": False, "crt": 0, "mot": 0}
        return init

    def raw_for(self, d, obs, want_present):
        """a raw name whose normal form is (not) linked in d, when there is one"""
        rng = self.rng
        present = set(obs[d].keys())
        norm = lambda n: {"e2": "e1", "k2": "k1"}.get(n, n)
        cands = [n for n in self.names if (norm(n) in present) == want_present]
        return rng.choice(cands or self.names)

    def op(self, obs):
        rng = self.rng
        self.now += rng.choice([0, 1, 1, 2, 5])
        via = "ro" if rng.random() < 0.04 else "rw"
        x = rng.random()
        ow = rng.choice(["true", "true", "false", "only_files"])
        d = rng.choice(self.dirs)
        if x < 0.33:
            o = {"op": "add", "d": d, "via": via, "name": rng.choice(self.names), "child": rng.choice(self.kids),
                 "md": rng.choice(self.mds + ["keep", "keep", "keep"]), "ow": ow}
        elif x < 0.41:
            items = [{"name": rng.choice(self.names), "child": rng.choice(self.kids), "md": rng.choice(self.mds + ["keep"])}
                     for _ in range(rng.choice([1, 2, 2, 3]))]
            seen, its = set(), []          # a python dict cannot hold one raw name twice
            for it in items:
                if it["name"] not in seen:
                    seen.add(it["name"])
                    its.append(it)
            o = {"op": "addmany", "d": d, "via": via, "items": its, "ow": ow}
        elif x < 0.57:
            f = rng.choice([(True, False, False), (True, False, False), (False, False, False), (True, True, False), (True, False, True)])
            o = {"op": "delete", "d": d, "via": via, "name": self.raw_for(d, obs, rng.random() < 0.75), "must_exist": f[0],
                 "must_be_dir": f[1], "must_be_file": f[2]}
        elif x < 0.68:
            o = {"op": "setmd", "d": d, "via": via, "name": self.raw_for(d, obs, rng.random() < 0.8), "md": rng.choice(self.mds)}
        else:
            dd = d if rng.random() < 0.35 else rng.choice(self.dirs)
            o = {"op": "move", "d": d, "via": via, "name": self.raw_for(d, obs, rng.random() < 0.85), "dd": dd,
                 "dvia": "ro" if rng.random() < 0.03 else "rw",
                 "newname": "" if rng.random() < 0.2 else self.raw_for(dd, obs, rng.random() < 0.45), "ow": ow}
        o["now"] = self.now
        return o


def run_c20(args, inp, rng):
    scenarios = list((inp or {}).get("scenarios", []))
    for i in range(args.n):
        scenarios.append({"gen": rng.randint(max(3, args.len // 2), args.len)})
    traces = []
    for si, sc in enumerate(scenarios):
        wd = os.path.join(args.work, "c20_%d" % si)
        gen = None
        if "gen" in sc:
            gen = C20Gen(rng, args.tier != "quick")
            sc = {"consts": {"init": gen.init()}, "ops": [None] * sc["gen"], "src": "seeded"}
        init = sc["consts"]["init"]
        w = World(wd, sorted(init.keys()), seed=args.seed)
        try:
            for d, entries in init.items():
                if entries:
                    w.set_contents(d, entries)
            obs = w.observe()
            if obs != init:
                raise RuntimeError("initial contents not established: %r vs %r" % (obs, init))
            events = []
            for o in sc["ops"]:
                if o is None:
                    o = gen.op(obs)
                st, out = do_op(w, o)
                obs = w.observe()
                e = dict(o)
                e["st"], e["out"], e["obs"] = st, out, obs
                events.append(e)
            traces.append({"consts": sc["consts"], "events": events, "src": sc.get("src", "given")})
        finally:
            w.close()
            shutil.rmtree(wd, ignore_errors=True)
    return traces


def main():
    ap = argparse.ArgumentParser()
    ap.add_argument("--out", required=True)
    ap.add_argument("--in", dest="inp")
    ap.add_argument("--seed", type=int, default=0)
    ap.add_argument("--tier", default="quick")
    ap.add_argument("--mode", required=True)
    ap.add_argument("--n", type=int, default=10)
    ap.add_argument("--len", type=int, default=30)
    args = ap.parse_args()
    args.work = os.path.join(os.getcwd(), "dirdrv_%d" % os.getpid())
    os.makedirs(args.work, exist_ok=True)
    inp = json.load(open(args.inp)) if args.inp else None
    rng = random.Random("%s-%d" % (args.mode, args.seed))
    try:
        if args.mode == "c20":
            out = run_c20(args, inp, rng)
        else:
            raise SystemExit("unknown mode %s" % args.mode)
    finally:
        shutil.rmtree(args.work, ignore_errors=True)
    with open(args.out, "w") as f:
        json.dump(out, f)


if __name__ == "__main__":
    main()
