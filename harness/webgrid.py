"""WebGrid: the real web API resource tree (allmydata.web.root.Root inside a real
allmydata.webish.WebishServer whose buildServer creates the TahoeLAFSSite but
opens no listening port) on top of a real _Client on harness/grid.py, driven in
memory through treq.testing.StubTreq.

    from vreactor import vr            # first import of the driver
    from webgrid import WebGrid
    w = WebGrid(num_servers=4, k=2, n=4, happy=1, max_segment_size=16, seed=0)
    r = w.request("PUT", "/uri", body=b"hello")          # -> Resp(code, headers, body)
    r = w.request("GET", "/uri/" + cap, headers={"Range": "bytes=1-3"})

The HTTP bytes really travel through twisted.web's HTTP client and server
protocols (iosim); the server side is the TahoeLAFSSite of the WebishServer so
that TahoeLAFSRequest (form-post `fields`, security headers) is in the path.
Remote storage calls stay parked in the Grid scheduler: `request` interleaves
stub.flush(), virtual time and g.step() until the response body is complete.
"""
import tempfile
from urllib.parse import quote

from vreactor import vr, settle
from grid import Grid, make_full_client, Hang

from twisted.application import service
from twisted.python.failure import Failure
from treq.testing import StubTreq
from treq import collect

from allmydata import webish


class QuietWebishServer(webish.WebishServer):
    """The real WebishServer (Root, OphandleTable at /operations, TahoeLAFSSite) without a listener."""
    def buildServer(self, webport, make_tempfile, nodeurl_path, staticdir):
        self.webport = webport
        self.site = webish.TahoeLAFSSite(make_tempfile, self.root)
        self.staticdir = staticdir
        self._listener = None

    def startService(self):
        service.MultiService.startService(self)


class Resp:
    def __init__(self, code, headers, body, steps, length=None):
        self.code, self.headers, self.body, self.steps = code, headers, body, steps
        self.length = length      # the Content-Length as the HTTP client parsed it (None: not given / chunked)
        self.error = ""           # non-empty: the body transfer failed (e.g. fewer bytes than Content-Length)

    def header(self, name):
        v = self.headers.get(name.lower())
        return v[0] if v else None

    def __repr__(self):
        return "<Resp %d %r %r>" % (self.code, self.headers, self.body[:80])


class WebGrid:
    def __init__(self, grid=None, extra_cfg="", client_index=0, **gridkw):
        self.g = grid or Grid(**gridkw)
        self.client = make_full_client(self.g, i=client_index, extra_cfg=extra_cfg)
        # the gateway's own encoding parameters (tahoe.cfg has no public knob for the segment size)
        self.client.encoding_params = dict(self.client.encoding_params, max_segment_size=self.g.params["max_segment_size"])
        self.ws = QuietWebishServer(self.client, "0", tempfile.TemporaryFile, clock=vr, now_fn=vr.seconds)
        self.ws.setServiceParent(self.client)
        self.root = self.ws.root
        self.stub = StubTreq(self.root)
        # serve through the TahoeLAFSSite (TahoeLAFSRequest) instead of StubTreq's plain Site
        self.stub._agent._serverFactory = self.ws.site

    def request(self, method, path, headers=None, body=None, max_steps=200000):
        """path: already-quoted str (use webgrid.q for caps / names)."""
        url = "http://127.0.0.1" + path
        kw = {}
        if headers:
            kw["headers"] = headers
        if body is not None:
            kw["data"] = body
        out = []
        d = self.stub.request(method, url, allow_redirects=False, **kw)

        def _got(resp):
            chunks = []
            d2 = collect(resp, chunks.append)
            hdrs = {k.decode("latin-1").lower(): [v.decode("latin-1") for v in vs]
                    for k, vs in resp.headers.getAllRawHeaders()}
            length = resp.length if isinstance(resp.length, int) else None
            def _body_failed(f):
                r = Resp(resp.code, hdrs, b"".join(chunks), 0, length)
                r.error = "%s: %s" % (f.type.__name__, ", ".join(getattr(x, "type", type(x)).__name__ for x in getattr(f.value, "reasons", [])))
                return r
            d2.addCallbacks(lambda ign: Resp(resp.code, hdrs, b"".join(chunks), 0, length), _body_failed)
            return d2
        d.addCallback(_got)
        d.addBoth(out.append)
        n = 0
        idle = 0
        while not out:
            self.stub.flush()
            settle()
            progressed = False
            if self.g.pending:
                self.g.step()
                progressed = True
            else:
                nt = vr.next_timer()
                if nt is not None and nt <= 1.0:
                    vr.advance(max(nt, 0))
                    progressed = True
            self.stub.flush()
            n += 1
            idle = 0 if progressed else idle + 1
            if idle > 20:
                raise Hang("web request %s %s quiescent before the response completed" % (method, path))
            if n > max_steps:
                raise Hang("web request: no response after %d steps" % n)
        r = out[0]
        if isinstance(r, Failure):
            r.raiseException()
        r.steps = n
        # let the server side finish its bookkeeping (connection close, notifyFinish)
        self.stub.flush()
        settle()
        return r

    def close(self):
        self.g.close()


def q(s):
    if isinstance(s, bytes):
        s = s.decode("utf-8")
    return quote(s, safe="")
