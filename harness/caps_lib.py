"""Binding between the abstract characters of spec/caps/Caps.tla and concrete bytes.

concretise(chars, rng) -> list of byte pieces, one per abstract character
abstract(bytes)        -> (chars, pieces): the exact class of every concrete character,
                          literal cap prefixes / alleged prefixes recognised as atoms
No grammar knowledge lives here: only the character classes named in Caps.tla.
"""
import string

B32 = b"abcdefghijklmnopqrstuvwxyz234567"
CLASS_CHARS = {
    "t16": b"aq", "t8": b"iy", "t4": b"emu", "t2": b"cgkosw", "t1": b"bdfhjlnprtvxz",
    "d4": b"4", "d2": b"26", "d1": b"357", "d0": b"0", "d9": b"189",
    "Bl": b"abcdefghijklmnopqrstuvwxyz", "Bx": B32, "Dg": b"0123456789",
    "U": string.ascii_uppercase.encode(), ":": b":", "SP": b" ", "NL": b"\n",
    "X": b"!\"#$%&'()*+,-./;<=>?@[\\]^_`{|}~\t\r\x00\x7f\x80\xc3\xa9\xff",
}
KINDS = ["CHK", "CHK-Verifier", "LIT", "SSK", "SSK-RO", "SSK-Verifier", "MDMF", "MDMF-RO", "MDMF-Verifier",
         "DIR2", "DIR2-RO", "DIR2-Verifier", "DIR2-CHK", "DIR2-CHK-Verifier", "DIR2-LIT",
         "DIR2-MDMF", "DIR2-MDMF-RO", "DIR2-MDMF-Verifier"]
# longest first so that "URI:CHK-Verifier:" is not shadowed (prefixes end with ":", so no shadowing anyway)
PREFIXES = sorted(((("URI:%s:" % k).encode(), "P:" + k) for k in KINDS), key=lambda x: -len(x[0]))
FUTURES = [(b"x-tahoe-future-test-writeable:", "F:x-tahoe-future-test-writeable:"),
           (b"x-tahoe-future-test-mutable:", "F:x-tahoe-future-test-mutable:")]

_exact = {}
for cls in ("t16", "t8", "t4", "t2", "t1", "d4", "d2", "d1", "d0", "d9", "U", ":", "SP", "NL"):
    for ch in CLASS_CHARS[cls]:
        _exact[ch] = cls


def concretise(chars, rng):
    out = []
    for c in chars:
        if c in CLASS_CHARS:
            out.append(bytes([rng.choice(CLASS_CHARS[c])]))
        elif c.startswith("P:"):
            out.append(("URI:%s:" % c[2:]).encode())
        elif c.startswith("F:") or c.startswith("Q:"):
            out.append(c[2:].encode())
        elif c in ("ro.", "imm."):
            out.append(c.encode())
        else:
            raise ValueError("unknown abstract character %r" % c)
    return out


def abstract(s):
    """Exact abstraction of a concrete byte string (fuzz route)."""
    chars, pieces = [], []
    i = 0
    for lit in (b"imm.", b"ro."):
        if s.startswith(lit):
            chars.append(lit.decode())
            pieces.append(lit)
            i = len(lit)
            break
    for lit, atom in PREFIXES + FUTURES:
        if s.startswith(lit, i):
            chars.append(atom)
            pieces.append(lit)
            i += len(lit)
            break
    for ch in s[i:]:
        chars.append(_exact.get(ch, "X"))
        pieces.append(bytes([ch]))
    return chars, pieces


def enc(b):
    """bytes -> JSON-able str (latin-1 is a bijection on bytes)"""
    return None if b is None else b.decode("latin-1")


def dec(s):
    return None if s is None else s.encode("latin-1")


# ---------------------------------------------------------------------------
# comparison of the Spec's expected result with the observation of the real code
# (pure comparison; the expected values come from TLC)

def expected_out(exp, pieces):
    return b"".join(pieces[exp["lo"] - 1:exp["hi"]])


def compare_parse(exp, obs, pieces):
    """exp: {kind, err, why, lo, hi} computed by Caps!Parse; obs: observation of uri.from_string.
    Returns list of (key, what)."""
    res = []
    if "exc" in obs:
        return [("C15:exception:%s" % obs["exc"], "from_string/to_string raised %s" % obs["exc"])]
    ek, ok = exp["kind"], obs["kind"]
    eout = expected_out(exp, pieces)
    oout = dec(obs["out"])
    if ek == "Unknown" and ok != "Unknown":
        res.append(("C15:%s:%s_accepted" % (ok, exp["why"]),
                    "string outside the grammar (%s) accepted as %s and re-serialised %s" % (
                        exp["why"], ok, "to itself" if oout == b"".join(pieces) else "differently")))
    elif ek != "Unknown" and ok == "Unknown":
        res.append(("C15:%s:valid_rejected" % ek, "valid %s cap string reported as unknown (%s)" % (ek, obs.get("err"))))
    elif ek != ok:
        res.append(("C15:%s:misread_as_%s" % (ek, ok), "%s cap string read as %s" % (ek, ok)))
    else:
        if eout != oout:
            res.append(("C15:%s:reserialize_differs" % ek, "to_string() of the parsed cap is not the canonical string"))
        if ek == "Unknown" and exp["err"] != obs.get("err"):
            res.append(("C15:Unknown:error_%s_reported_as_%s" % (exp["err"], obs.get("err")),
                        "unknown cap: Spec expects error class %s, code reports %s" % (exp["err"], obs.get("err"))))
    if ok != "Unknown" and not obs.get("rt", True):
        res.append(("C15:%s:roundtrip_unequal" % ok, "from_string(c.to_string()) is not an equal cap of the same class: %s" % obs.get("rt_why")))
    return res
