"""C44 driver: helper-assisted immutable uploads on SimGrid.

A real allmydata.immutable.offloaded.Helper (with its CHK_incoming / CHK_encoding
directories) sits behind a ControlledRef assigned to uploader._helper, so the
real AssistedUploader / RemoteEncryptedUploadable talk to the real
CHKUploadHelper / CHKCiphertextFetcher through parked calls.  The fetch chunk
size (CHKCiphertextFetcher.CHUNK_SIZE) is lowered so that small files need
several chunks.

Scenario: a list of uploads of the same file through the helper
    - interrupted uploads: the j-th helper->client call of a chosen kind
      (get_size / read_encrypted / get_all_encoding_parameters) is answered with an
      injected failure or a disconnect,
    - then an uninterrupted upload (the resume), then another one (already present),
    - optionally a grid that already holds some or all shares of a direct upload,
and a direct upload of the same data / convergence secret / parameters on a
twin grid.  One trace per scenario for TraceHelper.tla; the driver abstracts
(offsets, lengths, equality with the reference ciphertext, equality of caps and
share bytes with the twin) and never judges.
"""
import argparse, json, os, random, shutil, sys, tempfile

from vreactor import vr, settle
from grid import Grid, ControlledRef, Hang
from allmydata.immutable import upload, offloaded
from allmydata import uri
from allmydata.crypto import aes
from allmydata.storage.server import si_b2a

from checkrepair_driver import container_split


def share_bodies(g, si):
    """{shnum: sorted list of distinct share-data bodies found on the grid}"""
    out = {}
    for sname, d in g.shares(si).items():
        for shnum, p in d.items():
            with open(p, "rb") as f:
                body = container_split(f.read())[1]
            out.setdefault(shnum, set()).add(body)
    return out


from twisted.python.failure import Failure


class Scenario:
    def __init__(self, idx, seed, workdir):
        self.idx = idx
        self.rng = rng = random.Random(seed * 1000003 + idx)
        self.k = rng.choice([1, 2, 2, 3])
        self.n = rng.randint(max(2, self.k), min(5, self.k + 3))
        self.nservers = rng.randint(2, 5)
        self.seg = rng.choice([self.k * 4, self.k * 8, self.k * 16, 1024])
        self.size = rng.choice([56, rng.randint(57, 120), rng.randint(121, 400)])
        self.nchunks_target = rng.choice([1, 2, 3, 4, 4, 5, 6])
        self.chunk = max(1, -(-self.size // self.nchunks_target))
        self.nchunks = -(-self.size // self.chunk)
        self.data = bytes(rng.randrange(256) for _ in range(self.size))
        self.U = 1
        if idx % 16 == 7:
            # replay at scale: one abstract byte of Helper.tla = U real bytes; a file above 1 MiB in one segment (a client
            # configured with shares.max_segment_size = 2 MiB), Size and Chunk stay small numbers for TLC
            self.U = 65536
            units = rng.randint(17, 24)
            self.size = units * self.U
            self.chunk = -(-units // self.nchunks_target) * self.U
            self.nchunks = -(-self.size // self.chunk)
            self.seg = 2 * 1024 * 1024
            self.data = rng.randbytes(self.size)
        self.conv = b"conv-%d" % idx
        self.dir = os.path.join(workdir, "sc%d" % idx)
        kw = dict(num_servers=self.nservers, k=self.k, n=self.n, happy=1, max_segment_size=self.seg, seed=idx)
        self.g = Grid(os.path.join(self.dir, "main"), policy="fifo", **kw)
        self.twin = Grid(os.path.join(self.dir, "twin"), policy="fifo", **kw)
        self.events = []

    def run(self):
        rng, g = self.rng, self.g
        offloaded.CHKCiphertextFetcher.CHUNK_SIZE = self.chunk
        # reference: direct upload on the twin grid
        tres = self.twin.run(self.twin.uploader.upload(upload.Data(self.data, convergence=self.conv)))
        self.twin.drain()
        self.tcap = tres.get_uri()
        u = uri.from_string(self.tcap)
        self.tvcap = u.get_verify_cap().to_string()
        self.si = u.get_storage_index()
        self.ref_shares = share_bodies(self.twin, self.si)
        self.ct = aes.encrypt_data(aes.create_encryptor(u.key), self.data)
        # optional pre-existing shares on the main grid (from a direct upload there, some deleted)
        pre_mode = rng.choice(["none", "none", "none", "all", "some", "dups"])
        pre = []
        if pre_mode != "none":
            g.run(g.uploader.upload(upload.Data(self.data, convergence=self.conv)))
            g.drain()
            if pre_mode in ("some", "dups"):
                keep = set(rng.sample(range(self.n), rng.randint(0 if pre_mode == "some" else 1, self.n - 1)))
                for sname, d in g.shares(self.si).items():
                    for shnum, p in d.items():
                        if shnum not in keep:
                            os.remove(p)
            if pre_mode == "dups":
                # server churn / earlier re-uploads: the share numbers that are left exist on several servers, so that there
                # are at least N share files but fewer than N distinct shares
                import shutil as _sh
                from allmydata.storage.common import storage_index_to_dir
                have = [(shnum, p) for sname, d in g.shares(self.si).items() for shnum, p in d.items()]
                for sname, srv in g.servers.items():
                    for shnum, p in have:
                        bdir = os.path.join(srv.ss.sharedir, storage_index_to_dir(self.si))
                        dst = os.path.join(bdir, str(shnum))
                        if not os.path.exists(dst):
                            os.makedirs(bdir, exist_ok=True)
                            _sh.copyfile(p, dst)
            pre = sorted({shnum for d in g.shares(self.si).values() for shnum in d})
        # the helper
        hdir = os.path.join(self.dir, "helper")
        os.makedirs(hdir)
        self.helper = offloaded.Helper(hdir, g.broker, g.client._secret_holder, None, None)
        g.uploader._helper = ControlledRef(g, self.helper, "helper", kind="helper")
        si_s = si_b2a(self.si).decode("ascii")
        self.incoming = os.path.join(hdir, "CHK_incoming", si_s)
        self.encoding = os.path.join(hdir, "CHK_encoding", si_s)
        g.observers.append(self.observe)
        # plan: interrupted uploads, then clean ones
        plan = []
        if pre_mode != "all":
            for _ in range(rng.choice([0, 1, 1, 2, 3])):
                kind = rng.choice(["read_encrypted"] * 6 + ["get_size", "get_all_encoding_parameters"])
                plan.append({"kind": kind, "j": rng.randint(1, self.nchunks + 1) if kind == "read_encrypted" else 1,
                             "fault": rng.choice(["raise", "disconnect"])})
        self.joint = pre_mode != "all" and rng.random() < 0.3
        if self.joint:
            # two clients push the same new file through the one helper at the same time (no injected faults)
            plan = ["joint", None]
        else:
            plan += [None, None]
        if rng.random() < 0.3:
            plan.append("delete")
            plan.append(None)
        if self.U > 1:
            # scaled scenarios: clean sequential uploads only (while a fetch is in progress the size of the buffered incoming
            # file is not a multiple of U: an artefact of the observation, not of the helper)
            self.joint = False
            plan = [p_ for p_ in plan if p_ is None or p_ == "delete"]
        for step in plan:
            if step == "delete":
                victims = []
                for sname, d in g.shares(self.si).items():
                    for shnum, p in d.items():
                        if rng.random() < 0.4:
                            os.remove(p)
                            victims.append(shnum)
                present = sorted({shnum for d in g.shares(self.si).values() for shnum in d})
                self.events.append({"ev": "lose_shares", "present": present})
                continue
            if step == "joint":
                self.one_upload(None, joint=True)
                continue
            self.one_upload(step)
        g.close()
        self.twin.close()
        return {"consts": {"Size": self.size // self.U, "Chunk": self.chunk // self.U, "U": self.U, "N": self.n, "K": self.k, "pre": pre, "idx": self.idx,
                           "servers": self.nservers, "seg": self.seg},
                "events": self.events} if not self.joint else {
            "consts": {"Size": self.size // self.U, "Chunk": self.chunk // self.U, "U": self.U, "N": self.n, "K": self.k, "pre": pre,
                       "idx": self.idx, "servers": self.nservers, "seg": self.seg, "joint": True},
            "events": self.events}

    # every delivered call passes here
    def sc(self, x):
        """bytes -> abstract bytes (every legitimate byte count of a scaled scenario is a multiple of U)"""
        x = int(x)
        if self.U == 1 or x < 0:
            return x
        return x // self.U if x % self.U == 0 else 10 ** 8 + x % self.U

    def observe(self, e):
        if not self.recording:
            return
        if e["kind"] == "helper" and e["meth"] == "upload_chk":
            ans = "error"
            if e["outcome"] == "ok":
                hur, uh = e["result"]
                ans = "present" if uh is None else "session"
            self.events.append({"ev": "start", "answer": ans,
                                "incoming": self.sc(os.path.getsize(self.incoming)) if os.path.exists(self.incoming) else -1,
                                "encoding": os.path.exists(self.encoding)})
        elif e["kind"] == "callback":
            if e["meth"] == "read_encrypted":
                off, length = e["args"]
                ev = {"ev": "fetch", "offset": self.sc(off), "length": self.sc(length), "fault": e["fault"], "ngot": 0, "dataok": False}
                if e["outcome"] == "ok":
                    got = b"".join(e["result"])
                    ev["ngot"] = self.sc(len(got))
                    ev["dataok"] = (got == self.ct[off:off + length])
                elif not e["fault"]:
                    ev["fault"] = "error:" + e["outcome"]
                self.events.append(ev)
            elif e["meth"] in ("get_size", "get_all_encoding_parameters"):
                ev = {"ev": e["meth"], "fault": e["fault"] or ("" if e["outcome"] == "ok" else "error:" + e["outcome"]),
                      "encoding": os.path.exists(self.encoding), "incoming": os.path.exists(self.incoming)}
                self.events.append(ev)
        elif e["kind"] == "server" and e["meth"] == "allocate_buckets" and e["outcome"] == "ok":
            self.allocated += len(e["result"][1])
        elif e["kind"] == "object" and e["meth"] == "write":
            self.writes += 1

    def one_upload(self, fault, joint=False):
        g = self.g
        self.recording = True
        self.allocated = 0
        self.writes = 0
        count = [0]

        def policy(grid):
            p = grid.pending[0]
            if fault and p.ref.kind == "callback" and p.methname == fault["kind"]:
                count[0] += 1
                if count[0] == fault["j"]:
                    return ("call", 0, fault["fault"])
            return ("call", 0, None)
        g.policy = policy
        if joint:
            order = self.rng.choice(["fifo", "random"])
            if order == "random":
                g.policy = lambda grid: ("call", self.rng.randrange(len(grid.pending)), None)
        st0 = self.helper.get_stats()
        ev = {"ev": "end"}
        try:
            if joint:
                from twisted.internet import defer
                up2 = upload.Uploader()
                up2.name = "uploader-b"
                up2.setServiceParent(g.client)
                up2._helper = g.uploader._helper
                d1 = g.uploader.upload(upload.Data(self.data, convergence=self.conv))
                d2 = up2.upload(upload.Data(self.data, convergence=self.conv))

                def _jend(r, who):
                    # each client's own result, in the order the results arrive
                    failed = isinstance(r, Failure)
                    self.events.append({"ev": "jend", "who": who, "outcome": "failed" if failed else "ok",
                                        "error": r.type.__name__ if failed else "",
                                        "capeq": (not failed) and r.get_uri() == self.tcap})
                    return r
                d1.addBoth(_jend, "A")
                d2.addBoth(_jend, "B")
                res, res2 = g.run(defer.gatherResults([d1, d2], consumeErrors=True))
            else:
                res = res2 = g.run(g.uploader.upload(upload.Data(self.data, convergence=self.conv)))
            g.drain()
            ev["outcome"] = "ok"
            cap = res.get_uri()
            ev["capeq"] = (cap == self.tcap) and (res2.get_uri() == self.tcap)
            ev["vcapeq"] = (uri.from_string(cap).get_verify_cap().to_string() == self.tvcap)
            ev["reported_pushed"] = int(res.get_pushed_shares())
        except Hang:
            ev["outcome"] = "hang"
        except Exception as e:
            g.drain()
            ev["outcome"] = "failed"
            ev["error"] = type(e).__name__
        if ev["outcome"] != "ok":
            ev["capeq"] = False
            ev["vcapeq"] = False
            ev["reported_pushed"] = 0
        self.recording = False
        st1 = self.helper.get_stats()
        ev["incoming"] = self.sc(os.path.getsize(self.incoming)) if os.path.exists(self.incoming) else -1
        ev["encoding"] = os.path.exists(self.encoding)
        ev["allocated"] = self.allocated
        ev["writes"] = self.writes
        ev["fetched"] = self.sc(st1["chk_upload_helper.fetched_bytes"] - st0["chk_upload_helper.fetched_bytes"])
        ev["resumes"] = st1["chk_upload_helper.resumes"] - st0["chk_upload_helper.resumes"]
        ev["active"] = st1["chk_upload_helper.active_uploads"]
        # shares on the grid compared with the twin's direct upload
        mine = share_bodies(g, self.si)
        ev["present"] = sorted(mine)
        ev["shareseq"] = all(bodies == self.ref_shares.get(n_) for n_, bodies in mine.items())
        if joint:
            ev["ev"] = "jfinal"
        self.events.append(ev)


def main():
    ap = argparse.ArgumentParser()
    ap.add_argument("--out")
    ap.add_argument("--seed", type=int, default=0)
    ap.add_argument("--tier", default="quick")
    ap.add_argument("--in", dest="inp")
    ap.add_argument("--n", type=int, default=100)
    a = ap.parse_args()
    work = tempfile.mkdtemp(prefix="c44drv")
    traces = []
    try:
        for i in range(a.n):
            sc = Scenario(i, a.seed, work)
            sc.recording = False
            traces.append(sc.run())
            shutil.rmtree(sc.dir, ignore_errors=True)
    finally:
        shutil.rmtree(work, ignore_errors=True)
    with open(a.out, "w") as f:
        json.dump(traces, f)


if __name__ == "__main__":
    main()
