"""Driver of the real allmydata.hashtree for C35.

mode replay: replays Spec-generated cases (GenHashTree.tla) into a real
  IncompleteHashTree whose trusted root comes from a real HashTree over real
  leaf hashes; compares exception class, needed_hashes and the complete node
  list after every call with what the Spec computed.
mode trace: records seeded histories of a real IncompleteHashTree (up to 64
  leaves) for validation by TraceHashTree.tla.

Hash notation shared with HashTree.tla: ["G",k] real HashTree node k, ["L",i] leaf
hash i, ["P",i] empty_leaf_hash(i), ["N",a,b] pair_hash, ["F",j] random 32 bytes,
["-"] no hash.
"""
import argparse, json, random, sys, hashlib

from allmydata import hashtree
from allmydata.hashtree import HashTree, IncompleteHashTree, BadHashError, NotEnoughHashesError
from allmydata.util import hashutil


def leaf_hashes(n):
    return [hashutil.block_hash(b"block number %d" % i) for i in range(n)]


class World:
    """Concrete hashes for one n: the real HashTree and the two-way mapping term <-> bytes."""

    def __init__(self, n, seed):
        self.n = n
        self.leaves = leaf_hashes(n)
        self.ht = HashTree(list(self.leaves))
        self.rng = random.Random("forged-%d-%d" % (n, seed))
        self.forged = {}
        self.rev = {}
        for k, h in enumerate(self.ht):
            self.rev.setdefault(h, ["G", k])

    def forged_hash(self, j):
        if j not in self.forged:
            h = bytes(self.rng.getrandbits(8) for _ in range(32))
            self.forged[j] = h
            self.rev.setdefault(h, ["F", j])
        return self.forged[j]

    def dec(self, t):
        k = t[0]
        if k == "-":
            return None
        if k == "G":
            return self.ht[t[1]]
        if k == "L":
            return self.leaves[t[1]]
        if k == "P":
            return hashtree.empty_leaf_hash(t[1])
        if k == "N":
            h = hashtree.pair_hash(self.dec(t[1]), self.dec(t[2]))
            self.rev.setdefault(h, ["N", self.enc(self.dec(t[1])), self.enc(self.dec(t[2]))])
            return h
        if k == "F":
            return self.forged_hash(t[1])
        raise ValueError("unknown term %r" % (t,))

    def enc(self, h):
        if h is None:
            return ["-"]
        return self.rev.get(h, ["X", hashlib.sha256(h).hexdigest()[:8]])

    def enc_tree(self, iht):
        """Abstract every node of the real tree; a hash not seen before is explained as the
        pair_hash of its two children when that is what it is."""
        out = [None] * len(iht)
        for i in reversed(range(len(iht))):
            h = iht[i]
            if h is not None and h not in self.rev:
                lc, rc = 2 * i + 1, 2 * i + 2
                if rc < len(iht) and iht[lc] is not None and iht[rc] is not None \
                        and hashtree.pair_hash(iht[lc], iht[rc]) == h:
                    self.rev[h] = ["N", out[lc], out[rc]]
            out[i] = self.enc(h)
        return out

    def shape(self):
        """One level of the real HashTree in the external notation."""
        ht = self.ht
        first = ht.first_leaf_num
        out = []
        for k in range(len(ht)):
            if k >= first:
                i = k - first
                if i < self.n and ht[k] == self.leaves[i]:
                    out.append(["L", i])
                elif ht[k] == hashtree.empty_leaf_hash(i):
                    out.append(["P", i])
                else:
                    out.append(["X", "leaf%d" % k])
            else:
                if ht[k] == hashtree.pair_hash(ht[2 * k + 1], ht[2 * k + 2]):
                    out.append(["N", ["G", 2 * k + 1], ["G", 2 * k + 2]])
                else:
                    out.append(["X", "node%d" % k])
        return out


def call_real(iht, hashes, leaves):
    try:
        iht.set_hashes(hashes, leaves=leaves)
        return "ok"
    except BadHashError:
        return "bad"
    except NotEnoughHashesError:
        return "notenough"
    except IndexError:
        return "range"
    except Exception as e:  # anything else is not one of the documented outcomes
        return "exc:" + type(e).__name__


def replay(cases, seed):
    worlds = {}
    mism = []
    stats = {"cases": 0, "calls": 0, "headers": 0, "outcomes": {}, "nontrivial": 0}

    def add(kind, case, idx, detail):
        if len(mism) < 50:
            mism.append({"kind": kind, "n": case["n"], "call_index": idx, "detail": detail, "case": case})
        else:
            mism.append({"kind": kind, "n": case["n"]})

    for c in cases:
        n = c["n"]
        w = worlds.get(n)
        if w is None:
            w = worlds[n] = World(n, seed)
        if "shape" in c:
            stats["headers"] += 1
            ht = w.ht
            if len(ht) != c["size"] or ht.first_leaf_num != c["first_leaf"]:
                add("tree_shape", c, 0, {"len": len(ht), "first_leaf": ht.first_leaf_num})
            else:
                got = w.shape()
                if got != c["shape"]:
                    add("genuine_tree_padding", c, 0, {"real": got})
            continue
        stats["cases"] += 1
        iht = IncompleteHashTree(n)
        iht.set_hashes({0: w.ht[0]})          # the trusted root
        interesting = False
        for idx, call in enumerate(c["calls"]):
            stats["calls"] += 1
            needed = sorted(iht.needed_hashes(call["leaf"], include_leaf=True))
            if needed != sorted(call["needed"]):
                add("needed_hashes", c, idx, {"real": needed})
                break
            hashes = {i: w.dec(t) for i, t in call["hashes"]}
            leaves = {i: w.dec(t) for i, t in call["leaves"]}
            before = list(iht)
            res = call_real(iht, hashes, leaves)
            after = list(iht)
            want_tree = [w.dec(t) for t in call["tree"]]
            allowed = call["res"]
            stats["outcomes"][res] = stats["outcomes"].get(res, 0) + 1
            if res != "ok" or idx > 0:
                interesting = True
            detail = {"real_res": res, "real_tree": w.enc_tree(iht)}
            if res.startswith("exc:"):
                add("unexpected_exception", c, idx, detail)
                break
            if res == "ok" and "ok" not in allowed:
                add("C35_Sound", c, idx, detail)
                break
            if res != "ok" and allowed == ["ok"]:
                add("C35_Complete", c, idx, detail)
                break
            if res != "ok" and after != before:
                add("C35_Rollback", c, idx, detail)
                break
            if res not in allowed:
                add("exception_class", c, idx, detail)
                break
            if after != want_tree:
                add("tree_contents", c, idx, detail)
                break
        if interesting:
            stats["nontrivial"] += 1
    return {"mismatches": mism, "stats": stats}


def gen_traces(ntraces, nevents, maxleaves, seed):
    traces = []
    for ti in range(ntraces):
        rng = random.Random("c35-%d-%d" % (seed, ti))
        n = rng.choice([rng.randint(1, 8), rng.randint(9, maxleaves), rng.randint(max(2, maxleaves // 2), maxleaves), maxleaves])
        trusted = rng.random() < 0.8
        w = World(n, seed * 1000 + ti)
        ht = w.ht
        first = ht.first_leaf_num
        iht = IncompleteHashTree(n)
        events = [{"ev": "shape", "shape": w.shape(), "size": len(ht), "first_leaf": first}]
        fcount = [0]

        def forged():
            fcount[0] += 1
            return w.forged_hash(fcount[0])

        def do_set(hashes, leaves):
            ev = {"ev": "set", "hashes": [[i, w.enc(h)] for i, h in sorted(hashes.items())],
                  "leaves": [[i, w.enc(h)] for i, h in sorted(leaves.items())]}
            ev["res"] = call_real(iht, hashes, leaves)
            ev["tree"] = w.enc_tree(iht)
            events.append(ev)

        if trusted:
            do_set({0: ht[0]}, {})
        order = list(range(n))
        rng.shuffle(order)
        pos = 0
        while len(events) < nevents:
            r = rng.random()
            if r < 0.75:
                # validate one to three leaves, asking the real tree what it needs
                cnt = rng.choice([1, 1, 1, 2, 3])
                lv = []
                for _ in range(cnt):
                    if rng.random() < 0.8:
                        lv.append(order[pos % n])
                        pos += 1
                    else:
                        lv.append(rng.randrange(n))
                lv = sorted(set(lv))
                hashes, leaves = {}, {}
                for lf in lv:
                    incl = rng.random() < 0.8
                    need = iht.needed_hashes(lf, include_leaf=incl)
                    events.append({"ev": "needed", "leaf": lf, "incl": incl, "res": sorted(need)})
                    for i in need:
                        if i >= first and i - first < n and rng.random() < 0.7:
                            leaves[i - first] = ht[i]
                        else:
                            hashes[i] = ht[i]
                    if not incl:
                        leaves[lf] = ht[first + lf]
                if not trusted and rng.random() < 0.3:
                    hashes[0] = ht[0]
                # adversarial changes
                if rng.random() < 0.4:
                    keys = [("h", i) for i in hashes] + [("l", i) for i in leaves]
                    kind = rng.choice(["forge", "swap", "drop", "extra_genuine", "extra_forged", "known_wrong", "leafconflict", "out_of_range"])
                    if kind == "out_of_range":
                        # a chain with a number that names no node of this tree (the numbers travel as 16-bit fields), next to
                        # forged values for nodes the tree does not know yet
                        hashes[rng.choice([len(ht), len(ht) + 1, 2 * len(ht) + 5, 0xFFFF])] = forged()
                        for _ in range(rng.randint(0, 2)):
                            i = rng.randrange(len(ht))
                            if iht[i] is None and i not in hashes:
                                hashes[i] = forged()
                    if kind in ("forge", "swap", "drop") and keys:
                        which, i = rng.choice(keys)
                        d = hashes if which == "h" else leaves
                        node = i if which == "h" else first + i
                        if kind == "forge":
                            d[i] = forged()
                        elif kind == "drop":
                            del d[i]
                        elif node != 0:
                            d[i] = ht[node + 1 if node % 2 == 1 else node - 1]
                    elif kind == "extra_genuine":
                        for _ in range(rng.randint(1, 3)):
                            i = rng.randrange(len(ht))
                            hashes.setdefault(i, ht[i])
                    elif kind == "extra_forged":
                        i = rng.randrange(len(ht))
                        if i not in hashes:
                            hashes[i] = forged()
                    elif kind == "known_wrong":
                        known = [i for i in range(len(iht)) if iht[i] is not None]
                        if known:
                            hashes[rng.choice(known)] = forged()
                    elif kind == "leafconflict" and leaves:
                        lf = rng.choice(sorted(leaves))
                        hashes[first + lf] = forged() if rng.random() < 0.7 else leaves[lf]
                do_set(hashes, leaves)
            elif r < 0.9:
                # arbitrary junk: a few nodes, genuine or not
                hashes = {}
                for _ in range(rng.randint(0, 4)):
                    i = rng.randrange(len(ht))
                    hashes[i] = ht[i] if rng.random() < 0.6 else forged()
                do_set(hashes, {})
            else:
                lf = rng.randrange(n)
                incl = rng.random() < 0.5
                events.append({"ev": "needed", "leaf": lf, "incl": incl,
                               "res": sorted(iht.needed_hashes(lf, include_leaf=incl))})
        traces.append({"consts": {"n": n, "trusted_root": trusted}, "events": events})
    return traces


def main():
    ap = argparse.ArgumentParser()
    ap.add_argument("--out")
    ap.add_argument("--in", dest="inp")
    ap.add_argument("--seed", type=int, default=0)
    ap.add_argument("--tier", default="quick")
    ap.add_argument("--mode", default="replay")
    ap.add_argument("--n", type=int, default=20)
    ap.add_argument("--events", type=int, default=30)
    ap.add_argument("--maxleaves", type=int, default=64)
    a = ap.parse_args()
    if a.mode == "replay":
        with open(a.inp) as f:
            cases = json.load(f)
        out = replay(cases, a.seed)
    else:
        out = gen_traces(a.n, a.events, a.maxleaves, a.seed)
    with open(a.out, "w") as f:
        json.dump(out, f)


if __name__ == "__main__":
    main()
