"""C40 driver: replay Spec-generated (size, method, Range header) cases through the real web API.

Input  {"segsize": 16, "requests": [{"id": n, "kind": "imm"|"sdmf"|"mdmf", "via": "uri"|"file"|"dir",
                                     "size": s, "method": "GET"|"HEAD", "range": "bytes=1-2" | null-less ""}]}
Output {"results": {id: {"status", "body" (hex), "content_range" ("" if absent), "content_length" (-1 if absent),
                         "ctype"}}, "files": {...caps kinds...}}
Files are created through the web API itself (PUT /uri[?format=]) with content web_common.content(size):
size <= 55 immutable -> LIT cap, larger -> CHK (segment size `segsize`, so several segments); SDMF; MDMF (6-byte
mutable segments).  `via`: /uri/$FILECAP, /file/$FILECAP/@@named=/f.bin, /uri/$DIRCAP/name.
"""
import argparse, json, sys

from vreactor import vr
from webgrid import WebGrid, q
from web_common import content
import allmydata.mutable.publish as _pub


def run_chunk(arg):
    """One worker: its own grid, client and web server; the requests of whole files."""
    segsize, seed, requests = arg
    _pub.DEFAULT_MUTABLE_MAX_SEGMENT_SIZE = 6
    w = WebGrid(num_servers=4, k=2, n=4, happy=1, max_segment_size=segsize, seed=seed)
    r = w.request("POST", "/uri?t=mkdir")
    assert r.code == 200, r
    dircap = r.body.decode()
    files = {}
    capkinds = {}

    def get_file(kind, size):
        key = "%s:%d" % (kind, size)
        if key not in files:
            path = "/uri" + {"imm": "", "sdmf": "?format=sdmf", "mdmf": "?format=mdmf"}[kind]
            r = w.request("PUT", path, body=content(size))
            if r.code not in (200, 201):
                raise RuntimeError("cannot create %s: %r" % (key, r))
            cap = r.body.decode()
            name = "f-%s-%d.bin" % (kind, size)
            r2 = w.request("PUT", "/uri/%s/%s?t=uri" % (q(dircap), name), body=cap)
            if r2.code not in (200, 201):
                raise RuntimeError("cannot link %s: %r" % (key, r2))
            files[key] = (cap, name)
            capkinds[key] = cap.split(":")[1]
        return files[key]

    results = {}
    for rq in requests:
        cap, name = get_file(rq["kind"], rq["size"])
        via = rq.get("via", "uri")
        if via == "uri":
            path = "/uri/" + q(cap)
        elif via == "file":
            path = "/file/" + q(cap) + "/@@named=/f.bin"
        else:
            path = "/uri/%s/%s" % (q(dircap), name)
        hdrs = {"Range": rq["range"]} if rq["range"] else None
        r = w.request(rq["method"], path, headers=hdrs)
        cl = r.header("content-length")
        if rq["method"] != "HEAD":
            cl = r.length
        results[str(rq["id"])] = {
            "status": r.code, "body": r.body.hex(), "content_range": r.header("content-range") or "",
            "content_length": int(cl) if cl not in (None, "") and str(cl).isdigit() else -1,
            "error": r.error, "ctype": r.header("content-type") or "", "accept_ranges": r.header("accept-ranges") or ""}
    w.close()
    return results, capkinds


def main():
    ap = argparse.ArgumentParser()
    ap.add_argument("--out"); ap.add_argument("--in", dest="inp"); ap.add_argument("--seed", type=int, default=0)
    ap.add_argument("--tier", default="quick"); ap.add_argument("--jobs", type=int, default=1)
    a = ap.parse_args()
    inp = json.load(open(a.inp))
    # group by file so that each worker creates only the files it serves
    groups = {}
    for rq in inp["requests"]:
        groups.setdefault((rq["kind"], rq["size"]), []).append(rq)
    chunks = [[] for _ in range(max(1, a.jobs))]
    for key in sorted(groups, key=lambda k: -len(groups[k])):
        min(chunks, key=len).extend(groups[key])
    args = [(inp.get("segsize", 16), a.seed, c) for c in chunks if c]
    results, capkinds = {}, {}
    if len(args) <= 1:
        outs = [run_chunk(x) for x in args]
    else:
        import multiprocessing
        with multiprocessing.get_context("fork").Pool(len(args)) as pool:
            outs = pool.map(run_chunk, args)
    for r, c in outs:
        results.update(r)
        capkinds.update(c)
    json.dump({"results": results, "capkinds": capkinds}, open(a.out, "w"))


if __name__ == "__main__":
    main()
