"""Replay the cases of spec/storage/GenExpirer.tla on the real code: for every
configuration a StorageServer is built by the client's own tahoe.cfg parsing
(_Client.get_anonymous_storage_server: expire.* options, parse_duration,
parse_date), shares of both types are created through the server API with the
server clock set to each lease's create/renew time, one full cycle of the real
LeaseCheckingCrawler is run with the clocks pinned at Now, and what is left on
disk (share files, their leases) plus the crawler's space-recovered counters are
returned for comparison with the Spec's result.  No expiry rule lives here.
"""
import argparse, calendar, hashlib, json, os, shutil, struct, sys, tempfile, time as _time

from vreactor import vr
from twisted.application import service
import allmydata.storage.crawler as crawler_mod
import allmydata.storage.expirer as expirer_mod
import allmydata.storage.lease as lease_mod
from allmydata.storage.server import StorageServer
from allmydata.storage.immutable import ShareFile
from allmydata.storage.mutable import MutableShareFile
from allmydata.storage.common import storage_index_to_dir
from allmydata import client as client_mod
from allmydata.node import config_from_string

DAY = 24 * 60 * 60


class FakeTime:
    now = 0.0

    def time(self):
        return self.now


class FakeClient(service.MultiService):
    """Just enough of _Client for get_anonymous_storage_server()."""
    STOREDIR = "storage"
    stats_provider = None
    nodeid = b"\x09" * 20

    def __init__(self, config):
        service.MultiService.__init__(self)
        self.config = config

    def get_config(self, *a, **kw):
        return self.config.get_config(*a, **kw)


def cfg_text(cfg):
    lines = ["[node]", "nickname = verif", "[storage]", "enabled = true",
             "expire.enabled = %s" % ("true" if cfg["enabled"] else "false"),
             "expire.mode = %s" % cfg["mode"],
             "expire.immutable = %s" % ("true" if "immutable" in cfg["types"] else "false"),
             "expire.mutable = %s" % ("true" if "mutable" in cfg["types"] else "false")]
    if cfg["mode"] == "age" and cfg["override"] != -1:
        assert cfg["override"] % DAY == 0
        lines.append("expire.override_lease_duration = %d days" % (cfg["override"] // DAY))
    if cfg["mode"] == "cutoff-date":
        t = _time.gmtime(cfg["cutoff"])
        assert calendar.timegm(t) == cfg["cutoff"] and t.tm_hour == 0 and t.tm_min == 0 and t.tm_sec == 0
        lines.append("expire.cutoff_date = %04d-%02d-%02d" % (t.tm_year, t.tm_mon, t.tm_mday))
    return "\n".join(lines) + "\n"


def secrets(case_no, share_id, k, shared=False):
    """(renew secret, cancel secret) of the k-th lease; shared: every lease of the share carries one cancel secret"""
    h = hashlib.sha256(b"%d/%d/%d" % (case_no, share_id, k)).digest()
    if shared:
        return h, hashlib.sha256(b"%d/%d/shared-cancel" % (case_no, share_id)).digest()
    return h, hashlib.sha256(h).digest()


def run_case(case_no, case, now, workdir, ft, shift=0):
    cfg = case["cfg"]
    basedir = tempfile.mkdtemp(prefix="exp", dir=workdir)
    config = config_from_string(basedir, "client.port", cfg_text(cfg), _valid_config=client_mod._valid_config())
    fc = FakeClient(config)
    ss = client_mod._Client.get_anonymous_storage_server(fc)
    assert isinstance(ss, StorageServer)
    lc = ss.lease_checker
    built = {"enabled": lc.expiration_enabled, "mode": lc.mode,
             "override": -1 if lc.override_lease_duration is None else lc.override_lease_duration,
             "cutoff": 0 if lc.cutoff_date is None else lc.cutoff_date, "types": sorted(lc.sharetypes_to_expire)}
    paths = {}
    for sh in case["shares"]:
        si = hashlib.sha256(b"si/%d/%d" % (case_no, sh["id"])).digest()[:16]
        leases = sorted(sh["leases"])
        first = leases[0] if leases else now - 1000
        ft.now = float(first)
        vr.rightNow = float(first)
        shared = sh.get("sec") == "shared"
        rs, cs = secrets(case_no, sh["id"], 0, shared)
        p = os.path.join(ss.sharedir, storage_index_to_dir(si), "0")
        if sh["type"] == "immutable":
            already, writers = ss.allocate_buckets(si, rs, cs, {0}, 7)
            writers[0].write(0, b"payload")
            writers[0].close()
        else:
            we = hashlib.sha256(b"we" + si).digest()
            ok, _ = ss.slot_testv_and_readv_and_writev(si, (we, rs, cs), {0: ([], [(0, b"payload")], None)}, [])
            assert ok
        for k, t in enumerate(leases[1:], 1):
            ft.now = float(t)
            vr.rightNow = float(t)
            rs, cs = secrets(case_no, sh["id"], k, shared)
            ss.add_lease(si, rs, cs)
        if not leases:
            # a container without any lease cannot be produced through the API: craft it
            with open(p, "rb+") as f:
                if sh["type"] == "immutable":
                    size = os.path.getsize(p)
                    f.seek(8); f.write(struct.pack(">L", 0))
                    f.truncate(size - ShareFile.LEASE_SIZE)
                else:
                    f.seek(MutableShareFile.HEADER_SIZE); f.write(b"\x00" * MutableShareFile.LEASE_SIZE)
        sf = ShareFile(p) if sh["type"] == "immutable" else MutableShareFile(p)
        got = sorted(int(l.get_grant_renew_time_time()) for l in sf.get_leases())
        assert got == leases, ("lease setup", got, leases)
        paths[sh["id"]] = (p, sh["type"])
    for dc in vr.getDelayedCalls():
        dc.cancel()
    # one full cycle at Now
    ft.now = float(now)
    vr.rightNow = float(now)
    crash = ""
    try:
        lc.start_slice()
    except Exception as e:       # the Spec knows no failing cycle: the exception is part of the observation
        import traceback
        crash = "%s: %s @ %s" % (type(e).__name__, str(e)[:160], traceback.format_exc().strip().splitlines()[-3].strip()[:160])
    st = lc.state
    finished = st["last-cycle-finished"]
    hist = lc._history_serializer.load()
    rec = hist.get("0", {}).get("space-recovered", {})
    survivors = []
    for sid, (p, typ) in sorted(paths.items()):
        if os.path.exists(p):
            sf = ShareFile(p) if typ == "immutable" else MutableShareFile(p)
            survivors.append({"id": sid, "type": typ, "leases": sorted(int(l.get_grant_renew_time_time()) for l in sf.get_leases())})
    # a second cycle `shift` later, on the same directory; for every other case after a restart of the server
    second = {"crash": "", "survivors": [], "restarted": case_no % 2 == 1, "finished_cycle": -1}
    if shift and not crash:
        try:
            if second["restarted"]:
                ss.disownServiceParent() if ss.parent else None
                ss = client_mod._Client.get_anonymous_storage_server(FakeClient(config))
                lc = ss.lease_checker
            for dc in vr.getDelayedCalls():
                dc.cancel()
            ft.now = float(now + shift)
            vr.rightNow = float(now + shift)
            lc.start_slice()
            second["finished_cycle"] = lc.state["last-cycle-finished"]
        except Exception as e:
            import traceback
            second["crash"] = "%s: %s @ %s" % (type(e).__name__, str(e)[:160], traceback.format_exc().strip().splitlines()[-3].strip()[:160])
        for sid, (p, typ) in sorted(paths.items()):
            if os.path.exists(p):
                sf = ShareFile(p) if typ == "immutable" else MutableShareFile(p)
                second["survivors"].append({"id": sid, "type": typ, "leases": sorted(int(l.get_grant_renew_time_time()) for l in sf.get_leases())})
    for dc in vr.getDelayedCalls():
        dc.cancel()
    shutil.rmtree(basedir, ignore_errors=True)
    return {"built": built, "finished_cycle": finished, "survivors": survivors, "crash": crash, "second": second,
            "examined": rec.get("examined-shares"), "configured": rec.get("configured-shares"), "actual": rec.get("actual-shares"),
            "corrupt": len(st.get("cycle-to-date", {}).get("corrupt-shares", []))}


def main():
    ap = argparse.ArgumentParser()
    ap.add_argument("--out"); ap.add_argument("--seed", type=int, default=0); ap.add_argument("--tier", default="quick")
    ap.add_argument("--in", dest="inp")
    a = ap.parse_args()
    spec = json.load(open(a.inp))
    ft = FakeTime()
    crawler_mod.time = ft
    expirer_mod.time = ft
    lease_mod.time = ft
    work = tempfile.mkdtemp(prefix="exprun")
    out = []
    try:
        for n, case in enumerate(spec["cases"]):
            out.append(run_case(n, case, spec["now"], work, ft, spec.get("shift", 0)))
    finally:
        shutil.rmtree(work, ignore_errors=True)
    json.dump(out, open(a.out, "w"))


if __name__ == "__main__":
    main()
