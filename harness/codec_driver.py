"""Driver of the real erasure-coding path for C36.

Replays the cases of spec/util/GenCodec.tla:
 kind "file":  a real immutable.encode.Encoder (fed by a minimal IEncryptedUploadable) computes its
               segment / tail codec parameters and produces the blocks of every segment through the real
               _encode_segment -> _gather_data (zero padding) -> CRSEncoder.encode path; a DownloadNode
               (bare instance) computes its sizes with the real _calculate_sizes and decodes the k blocks
               chosen by the Spec, in the Spec's order, with the real _decode_blocks (CRSDecoder + trimming).
 kind "codec": bare CRSEncoder / CRSDecoder with a data size that is not a multiple of k.
What is compared: every size the Spec computed, the primary blocks (block i < k = piece i as laid out by
the Spec), the number and length of blocks, and decoded bytes = the original bytes."""
from vreactor import vr, settle  # noqa: F401  (must be first: virtual reactor, CPU thread pool disabled)

import argparse, json, random

from zope.interface import implementer
from twisted.internet import defer

from allmydata.interfaces import IEncryptedUploadable
from allmydata.immutable.encode import Encoder
from allmydata.immutable.downloader.node import DownloadNode
from allmydata.codec import CRSEncoder, CRSDecoder
from allmydata import uri
from allmydata.util import hashutil


def result_of(d):
    """Value of a Deferred that must fire without real waiting (virtual reactor)."""
    out = []
    d.addBoth(out.append)
    for _ in range(50):
        if out:
            break
        vr.advance(0)
        vr.advance(0.01)
    if not out:
        raise RuntimeError("deferred did not fire")
    r = out[0]
    if hasattr(r, "raiseException"):
        r.raiseException()
    return r


@implementer(IEncryptedUploadable)
class FakeUploadable:
    def __init__(self, data, k, happy, n, segsize):
        self.data, self.pos = data, 0
        self.params = (k, happy, n, segsize)

    def set_upload_status(self, s):
        pass

    def get_size(self):
        return defer.succeed(len(self.data))

    def get_all_encoding_parameters(self):
        return defer.succeed(self.params)

    def get_storage_index(self):
        return defer.succeed(b"\x00" * 16)

    def read_encrypted(self, length, hash_only):
        d = self.data[self.pos:self.pos + length]
        self.pos += len(d)
        return defer.succeed([d])

    def close(self):
        pass


class FakeStatus:
    def add_misc_event(self, *a, **kw):
        pass


def make_node(size, k, n):
    node = DownloadNode.__new__(DownloadNode)
    node._verifycap = uri.CHKFileVerifierURI(b"\x00" * 16, b"\x00" * 32, k, n, size)
    node._download_status = FakeStatus()
    return node


def piece_bytes(data, p):
    return data[p["start"]:p["start"] + p["len"]] + b"\x00" * p["zeros"]


def run_file(c, rng):
    k, n, seg, size = c["k"], c["n"], c["seg"], c["size"]
    data = bytes(rng.randrange(1, 256) for _ in range(size))     # no zero bytes: padding is recognisable
    enc = Encoder()
    result_of(enc.set_encrypted_uploadable(FakeUploadable(data, k, 1, n, seg)))
    got = {"num_segments": enc.num_segments, "block_size": enc._codec.get_block_size(),
           "tail_block_size": enc._tail_codec.get_block_size(), "tail_padded": enc._tail_codec.get_params()[0]}
    for f in got:
        if got[f] != c[f]:
            return "encoder_sizes:" + f, {"real": got, "field": f}
    # what start() sets up before the first segment
    enc._crypttext_hasher = hashutil.crypttext_hasher()
    enc._crypttext_hashes = []
    enc._times = {"cumulative_encoding": 0.0}
    # downloader side
    node = make_node(size, k, n)
    node.segment_size = seg
    r = node._calculate_sizes(seg)
    want = {"tail_segment_size": c["tail_size"], "tail_segment_padded": c["tail_padded"], "num_segments": c["num_segments"],
            "block_size": c["block_size"], "tail_block_size": c["tail_block_size"]}
    for f in want:
        if r.get(f) != want[f]:
            return "downloader_sizes:" + f, {"real": r, "field": f}
    # as DownloadNode._parse_and_store_UEB does with the result
    node.tail_segment_size = r["tail_segment_size"]
    node.tail_segment_padded = r["tail_segment_padded"]
    node.num_segments = r["num_segments"]
    node.block_size = r["block_size"]
    node.tail_block_size = r["tail_block_size"]
    node._codec = CRSDecoder()
    node._codec.set_params(seg, k, n)
    for s, sd in enumerate(c["segs"]):
        shares, ids = result_of(enc._encode_segment(s, is_tail=sd["tail"]))
        if list(ids) != list(range(n)) or len(shares) != n:
            return "encode:block_count", {"segment": s, "ids": list(ids), "n_blocks": len(shares)}
        lens = sorted(set(len(b) for b in shares))
        if lens != [sd["block_size"]]:
            return "encode:block_length", {"segment": s, "real": lens, "spec": sd["block_size"]}
        for j, p in enumerate(sd["pieces"]):
            if bytes(shares[j]) != piece_bytes(data, p):
                return "encode:primary_block_is_piece", {"segment": s, "piece": j, "real": list(bytes(shares[j])), "spec": list(piece_bytes(data, p))}
        blocks = {}
        for i in c["order"]:
            blocks[i] = bytes(shares[i])
        segment, _t = result_of(node._decode_blocks(s, blocks))
        if bytes(segment) != data[sd["off"]:sd["off"] + sd["len"]]:
            kind = "decode:tail_segment" if sd["tail"] else "decode:segment"
            return kind, {"segment": s, "real_len": len(segment), "spec_len": sd["len"],
                          "real": list(bytes(segment))[:64], "spec": list(data[sd["off"]:sd["off"] + sd["len"]])[:64]}
    return None, None


def run_codec(c, rng):
    k, n, size = c["k"], c["n"], c["size"]
    data = bytes(rng.randrange(1, 256) for _ in range(size))
    e = CRSEncoder()
    e.set_params(size, k, n)
    if e.get_block_size() != c["block_size"]:
        return "codec:encoder_block_size", {"real": e.get_block_size()}
    bs = c["block_size"]
    padded = data + b"\x00" * c["padding"]
    pieces = [padded[i * bs:(i + 1) * bs] for i in range(k)]
    shares, ids = result_of(e.encode(pieces))
    if len(shares) != n or sorted(set(len(b) for b in shares)) != [bs]:
        return "codec:block_count_or_length", {"n_blocks": len(shares)}
    for j in range(k):
        if bytes(shares[j]) != pieces[j]:
            return "codec:primary_block_is_piece", {"piece": j}
    d = CRSDecoder()
    d.set_params(size, k, n)
    if d.get_needed_shares() != k:
        return "codec:needed_shares", {"real": d.get_needed_shares()}
    if d.share_size != bs:
        return "codec:decoder_block_size", {"real": d.share_size, "spec": bs}
    out = result_of(d.decode([bytes(shares[i]) for i in c["order"]], list(c["order"])))
    joined = b"".join(bytes(x) for x in out)
    if joined[:size] != data or len(joined) != k * bs:
        return "codec:decode", {"real": list(joined)[:64], "spec": list(data)[:64]}
    return None, None


class MutableLeg:
    """The same cases through the mutable path: a real MDMF publish (Publish segment / tail encoders) on a grid of n
    servers, all shares but the Spec's k removed, a real Retrieve (its segment / tail decoders and trimming) reads the file
    and every segment back.  One grid per (k, n)."""
    def __init__(self):
        self.grids = {}

    def grid(self, k, n):
        from grid import Grid
        if (k, n) not in self.grids:
            self.grids[(k, n)] = Grid(num_servers=n, k=k, n=n, happy=1, seed=1000 * k + n)
        return self.grids[(k, n)]

    def close(self):
        for g in self.grids.values():
            g.close()

    def run(self, c, rng):
        import os
        import allmydata.mutable.publish as publish
        from allmydata.mutable.publish import MutableData
        from allmydata.interfaces import MDMF_VERSION
        from allmydata.util.consumer import MemoryConsumer
        k, n, seg, size = c["k"], c["n"], c["seg"], c["size"]
        g = self.grid(k, n)
        data = bytes(rng.randrange(1, 256) for _ in range(size))
        saved = publish.DEFAULT_MUTABLE_MAX_SEGMENT_SIZE
        publish.DEFAULT_MUTABLE_MAX_SEGMENT_SIZE = seg
        try:
            node = g.run(g.nodemaker.create_mutable_file(MutableData(data), version=MDMF_VERSION))
        finally:
            publish.DEFAULT_MUTABLE_MAX_SEGMENT_SIZE = saved
        placed = sorted(sh for srv, shares in g.shares(node.get_storage_index()).items() for sh in shares)
        if placed != list(range(n)):
            return "mutable:shares_placed", {"real": placed}
        for srv, shares in g.shares(node.get_storage_index()).items():
            for sh, path in shares.items():
                if sh not in c["order"]:
                    os.unlink(path)
        reader = g.make_nodemaker().create_from_cap(node.get_readonly_uri())
        ver = g.run(reader.get_best_readable_version())
        got = g.run(reader.download_best_version())
        if got != data:
            return "mutable:decode:file", {"real_len": len(got), "spec_len": size, "first_difference": next((i for i in range(min(len(got), size)) if got[i] != data[i]), min(len(got), size))}
        for s, sd in enumerate(c["segs"]):
            mc = MemoryConsumer()
            g.run(ver.read(mc, sd["off"], sd["len"]))
            part = b"".join(mc.chunks)
            if part != data[sd["off"]:sd["off"] + sd["len"]]:
                return ("mutable:decode:tail_segment" if sd["tail"] else "mutable:decode:segment"), {"segment": s, "real_len": len(part), "spec_len": sd["len"]}
        # the grid is reused and its key pool is finite: remove this slot so that a later file made with the same key
        # starts from nothing
        import shutil
        for srv, shares in g.shares(node.get_storage_index()).items():
            for sh, path in shares.items():
                shutil.rmtree(os.path.dirname(path), ignore_errors=True)
        return None, None


def replay(cases, seed, mutable_every=0):
    mism = []
    stats = {"file": 0, "codec": 0, "segments": 0, "tail_padded_cases": 0, "max_n": 0, "mutable": 0, "mutable_segments": 0, "mutable_tail_fills_segment": 0}
    ml = MutableLeg()
    nfile = 0
    for ci, c in enumerate(cases):
        if mutable_every and c["kind"] == "file" and c["n"] <= 7:
            nfile += 1
            # every case whose padded tail is as large as a full segment (one decoder object serves both), and a stride of the rest
            special = c["num_segments"] > 1 and c["tail_padded"] == c["seg"] and c["tail_padded"] != c["tail_size"]
            if (special and nfile % max(1, mutable_every // 6) == 0) or nfile % mutable_every == 0:
                rng = random.Random("c36-mut-%d-%d" % (seed, ci))
                try:
                    kind, detail = ml.run(c, rng)
                except Exception as e:
                    kind, detail = "mutable:exception:" + type(e).__name__, repr(e)[:500]
                stats["mutable"] += 1
                stats["mutable_segments"] += len(c["segs"])
                stats["mutable_tail_fills_segment"] += bool(special)
                if kind:
                    mism.append({"kind": kind, "detail": detail, "case": c} if len(mism) < 40 else {"kind": kind})
    ml.close()
    for ci, c in enumerate(cases):
        rng = random.Random("c36-%d-%d" % (seed, ci))
        stats[c["kind"]] += 1
        stats["max_n"] = max(stats["max_n"], c["n"])
        try:
            if c["kind"] == "file":
                stats["segments"] += len(c["segs"])
                if c["tail_padded"] != c["tail_size"]:
                    stats["tail_padded_cases"] += 1
                kind, detail = run_file(c, rng)
            else:
                kind, detail = run_codec(c, rng)
        except Exception as e:
            kind, detail = c["kind"] + ":exception:" + type(e).__name__, repr(e)[:500]
        if kind:
            mism.append({"kind": kind, "detail": detail, "case": c} if len(mism) < 40 else {"kind": kind})
    return {"mismatches": mism, "stats": stats}


def main():
    ap = argparse.ArgumentParser()
    ap.add_argument("--out")
    ap.add_argument("--in", dest="inp")
    ap.add_argument("--seed", type=int, default=0)
    ap.add_argument("--tier", default="quick")
    ap.add_argument("--mutable-every", type=int, default=0)
    a = ap.parse_args()
    with open(a.inp) as f:
        out = replay(json.load(f), a.seed, a.mutable_every)
    with open(a.out, "w") as f:
        json.dump(out, f)


if __name__ == "__main__":
    main()
